package main

// Job is one test binary (repo package) with scenarios to run.
type Job struct {
	Pkg       string   // repo-relative package directory
	Scenarios []string // registered scenario names
	Shards    int      // worker processes per scenario
	QuickS    float64  // wall-clock budget per worker, quick tier
	ThoroughS float64
}

// Check is everything run for one property.
type Check struct {
	ID          string
	Title       string
	Level       string // evidence level
	LevelText   string
	Technique   string
	Rule        string
	Explain     string
	Assumptions []string
	Jobs        []Job
}

var engineAssumptions = []string{
	"Go compiler and runtime",
	"verifrt shims model blocking of sync/chan/time/net exactly (checked by the litmus self-test)",
	"all inter-thread communication of the explored code goes through instrumented operations (sync, atomic, channels, vnet, vtime)",
	"sequential consistency (the scheduler serialises threads)",
}

var checks = []Check{
	{
		ID: "C15", Title: "host set and health checking keep a consistent usable view", Level: "model_checking",
		LevelText: "explicit-state BFS over every operation sequence on the real host.Set up to depth 5/7 against a reference model in every state; every interleaving (preemption bound 2/3) of 2-3 threads of set operations plus a reader; every check-outcome sequence for all thresholds 0..3 through the real monitor step",
		Technique: "explicit-state BFS over operation histories + preemption-bounded schedule exploration of real goroutines",
		Rule:        "states = canonical dumps of the real host.Set (three maps, cache, per-object flag/latch) reached by operation sequences; every state non-trivial (differs from all others); schedules = distinct choice sequences",
		Assumptions: engineAssumptions,
		Jobs: []Job{
			{Pkg: "host", Scenarios: []string{"C15/history"}, Shards: 1, QuickS: 60, ThoroughS: 400},
			{Pkg: "host", Scenarios: []string{"C15/concurrent"}, Shards: 8, QuickS: 60, ThoroughS: 400},
			{Pkg: "proc/internal/hc", Scenarios: []string{"C15/hysteresis"}, Shards: 1, QuickS: 60, ThoroughS: 400},
		},
	},
	{
		ID: "SELFTEST", Title: "engine litmus tests", Level: "model_checking",
		Rule:        "litmus programs with known outcome sets",
		Assumptions: engineAssumptions,
		Jobs: []Job{{Pkg: "verifrt/litmus", Scenarios: []string{"litmus"}, Shards: 1, QuickS: 60, ThoroughS: 120}},
	},
}
