package main

import "strings"

// Job is one test binary (repo package) with scenarios to run.
type Job struct {
	Pkg       string   // repo-relative package directory
	Scenarios []string // registered scenario names
	Race      bool     // free-running body in a -race binary (assumption check)
	Shards    int      // worker processes per scenario
	QuickS    float64  // wall-clock budget per worker, quick tier
	ThoroughS float64
}

// Check is everything run for one property.
type Check struct {
	ID          string
	Title       string
	Level       string // evidence level
	LevelText   string
	Technique   string
	Rule        string
	Explain     string
	Assumptions []string
	Jobs        []Job
}

var engineAssumptions = []string{
	"Go compiler and runtime",
	"verifrt shims model blocking of sync/chan/time/net exactly (checked by the litmus self-test)",
	"all inter-thread communication of the explored code goes through instrumented operations (sync, atomic, channels, vnet, vtime)",
	"sequential consistency (the scheduler serialises threads)",
}

var checks = []Check{
	{
		ID: "C20", Title: "connection and request statistics are conserved", Level: "model_checking",
		LevelText:   "every history up to depth 4/5 of connects, disconnects, successful / unsupported / invalid / multi-key requests, MOVED and ASK redirections, node down/up, backend resets, connection-limit rejections, host removal, ending either with every client closed or with Stop while connections are open, on the real Redis and TCP processors with their real listeners; counters read through the stats objects as deltas at every quiescent point; the free-running race pass of the redis and TCP processors (unmodified code, -race); Stop racing arriving requests (P1 F1 / P2 F1); a client that goes away with its request in flight; two relayed connections ending at once (plain statistic reads/writes are scheduling points, run-last policy); a pipeline cut off in the middle of a request; upstream connection statistics conserved; a replace-hosts notice; the listener alone with Stop / Drain racing arrivals: downstream counters conserved after Stop (C09/listener); a successful reply that takes 120 ms",
		Technique:   "exhaustive enumeration of traffic/fault histories on the real processors under a controlled scheduler",
		Assumptions: append([]string{"counters are process-wide; each execution compares against a snapshot taken at its own start", "default schedule per operation"}, engineAssumptions...),
		Jobs: []Job{
			{Pkg: "proc/tcp", Scenarios: []string{"C20/tcp-concurrent-close"}, Shards: 8, QuickS: 90, ThoroughS: 240},
			{Pkg: "proc/redis", Scenarios: []string{"C20/stop-racing-request"}, Shards: 16, QuickS: 120, ThoroughS: 240},
			{Pkg: "proc/redis", Scenarios: []string{"C20/redis"}, Shards: 16, QuickS: 150, ThoroughS: 240},
			{Pkg: "proc/tcp", Scenarios: []string{"C20/tcp"}, Shards: 16, QuickS: 60, ThoroughS: 240},
			{Pkg: "proc", Scenarios: []string{"C09/listener"}, Shards: 16, QuickS: 120, ThoroughS: 240}, // the listener alone: Stop / Drain racing arrivals, downstream counters conserved after Stop
			{Pkg: "proc/tcp", Scenarios: []string{"C05/stack-race"}, Race: true, Shards: 1, QuickS: 120, ThoroughS: 240},
		},
	},
	{
		ID: "C08", Title: "running services converge to the configured services and endpoints", Level: "model_checking",
		LevelText:   "explicit-state BFS (canonical-state de-duplication over store table + running processors + host sets) over every history up to depth 5/6 of dependency add/remove, valid/invalid configuration updates and endpoint updates (every added/removed subset combination of two addresses, including an address in both lists and removals before additions) for two services, fed through the real configuration store into the real controller with recording processors; controller draining after every update or only at the end; with and without a bootstrap static service; plus all schedules within bounds of the updater racing the controller loop; histories include an address re-announced with the other endpoint type; a controller starting 32-34 order-sensitive events late; the real discovery client feeding the real store from a scripted discovery service; the free-running race pass of store + controller; removals that report the endpoint as DOWN; a few non-commuting events of two services queued while the controller is late",
		Technique:   "explicit-state BFS over operation histories of the real store+controller under a controlled scheduler + preemption-bounded schedule exploration",
		Assumptions: append([]string{"recording processors (each owns a real host.Set) stand in for the real TCP/Redis processors", "the store's handlers are driven through injected wrappers instead of a live gRPC stream"}, engineAssumptions...),
		Jobs: []Job{
			{Pkg: "controller", Scenarios: []string{"C08/histories"}, Shards: 16, QuickS: 100, ThoroughS: 240},
			{Pkg: "controller", Scenarios: []string{"C08/stack-race"}, Race: true, Shards: 1, QuickS: 120, ThoroughS: 240},
			{Pkg: "controller", Scenarios: []string{"C08/race", "C08/streams"}, Shards: 16, QuickS: 60, ThoroughS: 240},
			{Pkg: "controller", Scenarios: []string{"C08/slow-controller"}, Shards: 16, QuickS: 60, ThoroughS: 240},
			{Pkg: "config", Scenarios: []string{"C08/discovery"}, Shards: 16, QuickS: 60, ThoroughS: 240},
		},
	},
	{
		ID: "C16", Title: "discovery subscriptions track dependencies and survive stream failures", Level: "model_checking",
		LevelText:   "stateless exploration of all schedules within bounds of the real subscription client (Run with its sender loop, the receiver it spawns, one caller, a fault thread breaking the stream) over a scripted stream factory: every Subscribe/Unsubscribe sequence of length <= 4 over three names, 17-20 distinct Subscribes against the 16-entry queues, queues shrunk to 2; stream creation and Send failing as environment choices; virtual retry timers; every history <= 5/6 of +-x, +-y, outage, back with each step run to quiescence; the dependency stream feeding both subscription clients through its hook; stream failures with gRPC status Canceled / Unavailable; a dependency message naming one service as added and as removed",
		Technique:   "preemption/delay-bounded stateless schedule exploration of the real goroutines with environment-fault choices",
		Assumptions: append([]string{"scripted stream with gRPC's send/recv failure coupling (a failed Send breaks the stream, Recv then fails); real gRPC streams are outside the model", "one caller thread (the dependency stream's hook is the only caller in the product)"}, engineAssumptions...),
		Jobs: []Job{
			{Pkg: "config", Scenarios: []string{"C16/short"}, Shards: 16, QuickS: 80, ThoroughS: 240},
			{Pkg: "config", Scenarios: []string{"C16/phases", "C16/slow-send"}, Shards: 16, QuickS: 60, ThoroughS: 240},
			{Pkg: "config", Scenarios: []string{"C16/many", "C16/smallqueue"}, Shards: 16, QuickS: 80, ThoroughS: 240},
			{Pkg: "config", Scenarios: []string{"C16/dependency-hook"}, Shards: 16, QuickS: 60, ThoroughS: 240},
		},
	},
	{
		ID: "C06", Title: "TCP: connections go only to current healthy hosts, per the balancing policy", Level: "model_checking",
		LevelText:   "all schedules (P<=3/4, delays unbounded) of 2-3 threads picking n*k times from 1-3 hosts through the real round-robin balancer; every random outcome and every connection-count assignment for random and least-connection; every history up to depth 3/4 of add / remove (fresh host objects, as the controller builds them) / replace / health marks / connect / disconnect on the real TCP processor under the three policies with every random outcome; a connection arrival racing a membership or health change under all schedules within bounds; late health results for a stale host object, removals announced with the other type, replacement by fresh objects with the same addresses; a relayed connection to a usable member must stay open; arrival racing a replace whose list starts with a backup; a configuration update that keeps the policy (rotation must continue); a member announced again with the other type; sequences of picks of one balancer from different lists; two services' balancers interleaved; no host is counted with more connections than are established; a configuration update that is rejected as a whole (policy change + unusable health check); events that leave the usable hosts unchanged do not disturb the rotation; a health result that fails once and passes again between two connections",
		Technique:   "preemption-bounded schedule exploration + exhaustive history enumeration on the real TCP processor under a controlled scheduler",
		Assumptions: engineAssumptions,
		Jobs: []Job{
			{Pkg: "proc/internal/lb", Scenarios: []string{"C06/round-robin", "C06/random-leastconn"}, Shards: 4, QuickS: 60, ThoroughS: 240},
			{Pkg: "proc/tcp", Scenarios: []string{"C06/histories"}, Shards: 16, QuickS: 90, ThoroughS: 240},
			{Pkg: "proc/tcp", Scenarios: []string{"C05/stack-race"}, Race: true, Shards: 1, QuickS: 120, ThoroughS: 240},
			{Pkg: "proc/tcp", Scenarios: []string{"C06/race"}, Shards: 16, QuickS: 60, ThoroughS: 240},
		},
	},
	{
		ID: "C05", Title: "TCP: bytes relayed unmodified, in order, both ways, with half-close", Level: "model_checking",
		LevelText:   "stateless exploration of all schedules within bounds of the real HandleConn/pipeConn relay on a virtual network: stream lengths around the 16 KiB copy buffer in both directions, three writer chunkings, four finishing orders (client half-closes first, backend first, both, client full close), copy buffer shrunk to 8 bytes, two connections sharing the buffer pool; read sizes as environment deviations in the thorough tier; SO_LINGER(0) modelled; free-running race pass of the TCP processor on the unmodified code; through the real listener with bounded socket buffers (back-pressure, TCP_USER_TIMEOUT modelled): streams longer than the buffers towards a receiver that starts reading up to 9 minutes late; idle timeout 0; 2-3 clients arriving together; relays to a usable member are not closed because of what happens to other hosts (C06/histories)",
		Technique:   "preemption/delay-bounded stateless schedule exploration of the real relay goroutines with input enumeration",
		Assumptions: append([]string{"vnet models orderly close, half-close, reset, linger 0, and - where a scenario bounds the socket buffers - back-pressure and TCP_USER_TIMEOUT; other kernel behaviours (RST on close with unread data, partial writes, keep-alive) are outside the model"}, engineAssumptions...),
		Jobs: []Job{
			{Pkg: "proc/tcp", Scenarios: []string{"C06/histories"}, Shards: 16, QuickS: 60, ThoroughS: 240}, // a relay to a usable member is not closed because of what happens to other hosts
			{Pkg: "proc/tcp", Scenarios: []string{"C05/relay"}, Shards: 16, QuickS: 90, ThoroughS: 240},
			{Pkg: "proc/tcp", Scenarios: []string{"C05/stack-race"}, Race: true, Shards: 1, QuickS: 120, ThoroughS: 240},
			{Pkg: "proc/tcp", Scenarios: []string{"C05/two-connections", "C05/paced", "C05/slow-receiver", "C05/arrivals"}, Shards: 8, QuickS: 60, ThoroughS: 240},
		},
	},
	{
		ID: "C09", Title: "listeners: stop and drain always complete and release what they hold", Level: "model_checking",
		LevelText:   "stateless exploration of all schedules within bounds of the real listener on a virtual network: Serve with a bind that fails 0/1/always times, a Stop / Drain / Drain+Stop caller at every point of the listener's life, 0-2 clients, connection limit 0/1; plus arrival patterns against a limit; plus stop of the real Redis and TCP processors with idle, in-flight, silent and closed backends; redis Stop while the first backend connect is still in progress or while an endpoint is removed during the hot-key collection round; tcp Stop while still connecting; controller Stop/Drain racing updates; the health monitor with its real redis / advanced-TCP / MySQL checkers against answering, wrong, late, silent, closing and refusing backends, 1-3 rounds, then Stop; a monitor with more hosts than its check concurrency; Stop in the middle of a health-check round; a TCP service whose health-check kind changes at run time; endpoint notices while a request waits for a connection or is being redirected; Stop after a timer-driven slot refresh",
		Technique:   "preemption/delay-bounded stateless schedule exploration of the real goroutines under a controlled scheduler with virtual time and network",
		Assumptions: engineAssumptions,
		Jobs: []Job{
			{Pkg: "proc", Scenarios: []string{"C09/listener"}, Shards: 16, QuickS: 80, ThoroughS: 240},
			{Pkg: "proc", Scenarios: []string{"C09/limit"}, Shards: 8, QuickS: 60, ThoroughS: 240},
			{Pkg: "proc/redis", Scenarios: []string{"C09/redis-stop"}, Shards: 16, QuickS: 80, ThoroughS: 240},
			{Pkg: "proc/redis", Scenarios: []string{"C09/redis-replace"}, Shards: 16, QuickS: 150, ThoroughS: 240},
			{Pkg: "proc/redis", Scenarios: []string{"C09/redis-collect"}, Shards: 16, QuickS: 80, ThoroughS: 240},
			{Pkg: "proc/tcp", Scenarios: []string{"C09/tcp-healthcheck-update"}, Shards: 8, QuickS: 90, ThoroughS: 240},
			{Pkg: "proc/tcp", Scenarios: []string{"C09/tcp-stop"}, Shards: 16, QuickS: 60, ThoroughS: 240},
			{Pkg: "proc/internal/hc", Scenarios: []string{"C09/hc-many-hosts"}, Shards: 4, QuickS: 120, ThoroughS: 240},
			{Pkg: "proc/internal/hc", Scenarios: []string{"C09/hc-checkers"}, Shards: 16, QuickS: 120, ThoroughS: 240},
			{Pkg: "controller", Scenarios: []string{"C09/controller"}, Shards: 16, QuickS: 60, ThoroughS: 240},
		},
	},
	{
		ID: "C11", Title: "no byte sequence from a client or a backend can crash or wedge the proxy", Level: "exploration",
		LevelText:   "bounded-exhaustive input enumeration through the real parsers and handlers: every byte string over a 12-symbol RESP alphabet up to length 6/7 through decoder + dispatch, every supported command x argument shapes, every length-field boundary x truncation, nesting depths up to 8e6 and nested maximum-length arrays in isolated child processes (fatal errors and memory are observed from outside), every MOVED/ASK/CLUSTERDOWN text shape through the full stack, every CLUSTER NODES text of <= 2 lines from field alphabets under both map orders, every SCAN reply shape, and each crash family end to end with a second well-behaved connection; runs of up to 4e6 repetitions of short units under a 64 MiB stack limit; boundary slot fields through the real refresh of a started proxy; every prefix of the compression header as a backend value; keys made of braces and NUL in single-key, multi-key and script commands; every supported command with 15 argument shapes through the whole stack, compression off and on; a backend that sends a malformed reply under every schedule of the client's goroutines",
		Technique:   "bounded-exhaustive input enumeration on the real code (process-isolated for fatal inputs) + schedule exploration of the end-to-end cases",
		Rule:        "distinct inputs (byte strings, structured requests, backend reply texts/shapes), each evaluated once per enumerated environment (map order)",
		Assumptions: append([]string{"memory is measured as runtime.MemStats.Sys inside the isolated child", "alphabet chosen from the RESP type bytes, digits, CR, LF, a letter and space"}, engineAssumptions...),
		Jobs: []Job{
			{Pkg: "proc/redis", Scenarios: []string{"C02/banned-pipeline-faults"}, Shards: 16, QuickS: 90, ThoroughS: 240}, // a failing connection right behind a request the filter answered
			{Pkg: "proc/redis", Scenarios: []string{"C11/through-the-stack"}, Shards: 8, QuickS: 90, ThoroughS: 240},
			{Pkg: "proc/redis", Scenarios: []string{"C02/client"}, Shards: 16, QuickS: 120, ThoroughS: 240}, // malformed backend bytes under every schedule of senders, reader and writer
			{Pkg: "proc/redis", Scenarios: []string{"C11/inputs"}, Shards: 16, QuickS: 150, ThoroughS: 240},
			{Pkg: "proc/redis", Scenarios: []string{"C11/backend"}, Shards: 8, QuickS: 120, ThoroughS: 240},
			{Pkg: "proc/redis", Scenarios: []string{"C11/end-to-end"}, Shards: 4, QuickS: 60, ThoroughS: 240},
		},
	},
	{
		ID: "C04", Title: "slot migration and failover are invisible to clients", Level: "model_checking",
		LevelText:   "every history up to depth 4/5 (plus full migration scripts) over set-migrating / migrate key / finalise / failover (old master up or down) / refresh round interleaved with GET SET INCR DEL MGET on the moving and a stable slot group, on the real proxy stack against the mini cluster (ASK for absent keys of a migrating slot, ASKING consumed by the next command, MOVED from non-owners and replicas); plus all schedules within bounds of an ASK-redirected INCR racing with other traffic on the target node's connection; migration to a fresh master that owns no slots; an outage of the slot owner with a command meanwhile; failover + host-removal notice while a refresh answered from the old topology is in flight; redirected writes with transparent compression on (C13/histories); failover announced by a host-removal notice; pipelines of non-commuting commands one of which the node refuses with -CLUSTERDOWN; host removal / replacement / stop racing a redirected request; a redirection target that cannot serve; a cluster that announces host names in its redirections",
		Technique:   "exhaustive enumeration of migration/failover histories + preemption/delay-bounded schedule exploration on the real proxy stack",
		Assumptions: append([]string{"mini Redis Cluster redirection rules written from redis-server 5.0 getNodeByQuery; ownership changes are atomic cluster-wide (no gossip lag); replicas share their master's data", "errors are tolerated after a failover whose old master is down until the next periodic refresh round completed (the proxy cannot know earlier; deliberately weaker than the statement)"}, engineAssumptions...),
		Jobs: []Job{
			{Pkg: "proc/redis", Scenarios: []string{"C04/histories"}, Shards: 16, QuickS: 90, ThoroughS: 240},
			{Pkg: "proc/redis", Scenarios: []string{"C02/stack-race"}, Race: true, Shards: 1, QuickS: 120, ThoroughS: 240},
			{Pkg: "proc/redis", Scenarios: []string{"C02/redirect-target", "C02/scan-host-change", "C02/notice-many"}, Shards: 16, QuickS: 180, ThoroughS: 240},
			{Pkg: "proc/redis", Scenarios: []string{"C09/redis-collect"}, Shards: 8, QuickS: 90, ThoroughS: 240},       // a host-removal notice (failover) while the hot-key collection runs
			{Pkg: "proc/redis", Scenarios: []string{"C02/upstream-redirect"}, Shards: 16, QuickS: 150, ThoroughS: 240}, // a host-removal / replace / stop racing a redirected request
			{Pkg: "proc/redis", Scenarios: []string{"C04/asking"}, Shards: 16, QuickS: 90, ThoroughS: 240},
			{Pkg: "proc/redis", Scenarios: []string{"C04/pipelined-redirect", "C04/clusterdown-pipeline"}, Shards: 16, QuickS: 60, ThoroughS: 240},
			{Pkg: "proc/redis", Scenarios: []string{"C04/failover-in-flight"}, Shards: 16, QuickS: 60, ThoroughS: 240},
			{Pkg: "proc/redis", Scenarios: []string{"C13/histories"}, Shards: 16, QuickS: 90, ThoroughS: 240}, // redirected writes with transparent compression on
		},
	},
	{
		ID: "C07", Title: "the proxy heals after connection loss and topology change", Level: "model_checking",
		LevelText:   "every history up to depth 5/6 (plus selected deeper convergence histories) over connection resets, node down/up, slot-group moves (including the last group of a master) and refresh rounds on the real proxy stack; requests issued at quiescence and compared with a single-server reference; redirections must stop within two refresh rounds after the first redirection; the same histories one level less deep with nodes known by host name (connection address differs from the backend's key); schedule exploration of simultaneous connection losses and of a layout change + redirection while a refresh answered from the old layout is in flight; a request redirected while the upstream is stopped / its hosts replaced; a restarting node (next connect accepted-and-reset, refused or slow) with requests meanwhile, P2 F2 inside that window; the proxy starting before its cluster (seeds refusing or not answering connects); a replica changing its master; a connection that is lost without any packet (write times out); a request that has to be redirected twice (MOVED-MOVED, MOVED-ASK) on three masters",
		Technique:   "exhaustive enumeration of fault/topology histories on the real proxy stack under a controlled scheduler with virtual time",
		Assumptions: append([]string{"mini Redis Cluster (ownership changes are atomic cluster-wide; a restarted node keeps its data)", "default schedule per operation; the random seed-host choice rotates fairly"}, engineAssumptions...),
		Jobs: []Job{
			{Pkg: "proc/redis", Scenarios: []string{"C07/histories"}, Shards: 16, QuickS: 90, ThoroughS: 240},
			{Pkg: "proc/redis", Scenarios: []string{"C02/upstream-redirect"}, Shards: 16, QuickS: 150, ThoroughS: 240},
			{Pkg: "proc/redis", Scenarios: []string{"C02/stack-race"}, Race: true, Shards: 1, QuickS: 120, ThoroughS: 240},
			{Pkg: "proc/redis", Scenarios: []string{"C14/topology"}, Shards: 4, QuickS: 60, ThoroughS: 120},      // after a replica changed its master (or a partial-view refresh) requests go where the cluster says
			{Pkg: "proc/redis", Scenarios: []string{"C09/redis-collect"}, Shards: 8, QuickS: 90, ThoroughS: 240}, // a backend client stopped (host removal) while the hot-key collection runs: backends must stay reachable
			{Pkg: "proc/redis", Scenarios: []string{"C07/concurrent-loss", "C07/connect-lost", "C07/cold-start", "C07/two-hops"}, Shards: 16, QuickS: 90, ThoroughS: 240},
			{Pkg: "proc/redis", Scenarios: []string{"C07/refresh-in-flight"}, Shards: 16, QuickS: 60, ThoroughS: 240},
		},
	},
	{
		ID: "C01", Title: "replies come back in request order, exactly one per request", Level: "model_checking",
		LevelText:   "stateless exploration on the real proxy stack: every pipeline of length <= 2/3 over a 10-request alphabet x every cut of its bytes into two writes (default schedule); every pipeline of length <= 2 (+ selected of length 3) under all schedules within preemption/delay/select bounds; two concurrent connections; a narrow driver of one backend client with three senders deciding per-backend FIFO pairing; a 40-request pipeline exceeding the 32-entry session queue; every unsupported command name over {CR, LF, x} up to length 5 inside a pipeline; oracle: the received bytes parse with an independent codec into exactly one reply per request, reply k being the single-server answer to request k; the first pipeline after start; the backend-client driver of C02 (a request lost with its backend connection is a missing reply); free-running race pass of the whole redis stack; one node answering some milliseconds after the other (all schedules of that moment); every reply shape in the long pipeline; the first request of the pipeline MOVED/ASK-redirected to the late node; a node that hangs for longer than the idle timeout; connections that come after one that ended with requests still unread in the proxy",
		Technique:   "preemption/delay-bounded stateless schedule exploration + exhaustive input/fragmentation enumeration on the real proxy stack",
		Assumptions: engineAssumptions,
		Jobs: []Job{
			{Pkg: "proc/redis", Scenarios: []string{"C02/banned-pipeline"}, Shards: 8, QuickS: 60, ThoroughS: 240}, // with compression on: a reply that stays in the write buffer blocks every later reply of the connection
			{Pkg: "proc/redis", Scenarios: []string{"C01/fragments"}, Shards: 16, QuickS: 70, ThoroughS: 240},
			{Pkg: "proc/redis", Scenarios: []string{"C02/client"}, Shards: 16, QuickS: 80, ThoroughS: 240},
			{Pkg: "proc/redis", Scenarios: []string{"C02/stack-race"}, Race: true, Shards: 1, QuickS: 120, ThoroughS: 240},
			{Pkg: "proc/redis", Scenarios: []string{"C02/split-race"}, Race: true, Shards: 1, QuickS: 60, ThoroughS: 240},
			{Pkg: "proc/redis", Scenarios: []string{"C01/schedules"}, Shards: 16, QuickS: 70, ThoroughS: 240},
			{Pkg: "proc/redis", Scenarios: []string{"C01/two-conns", "C01/backend-fifo", "C01/long-pipeline", "C01/odd-names", "C01/cold-start", "C01/many-in-flight", "C01/late-reply", "C01/after-broken"}, Shards: 16, QuickS: 60, ThoroughS: 240},
		},
	},
	{
		ID: "C02", Title: "every request is answered exactly once, even when backends fail", Level: "model_checking",
		LevelText:   "stateless exploration of all schedules within preemption/delay/select bounds of the real goroutines: (1) one backend client with 2 senders, optional Stop and five backend behaviours, (2) the real upstream with two nodes and a concurrent host removal / replacement / stop / node reset / node down, (3) the full proxy stack with a pipeline of two and a backend connection reset before any node-side read or write; oracle at quiescence: every request completed exactly once (double completion panics), no caller parked for ever; host removal/replacement/stop while the first request is being MOVED-redirected; Stop while the first backend connect is in progress; compression-filter rejections inside pipelines with backend faults; free-running race pass of the whole redis stack; a request redirected to a target that refuses, resets after accepting or loses its connection; a backend that never reads (bounded buffers) and then half-closes; a backend that answers once and then sends a malformed reply; a backend client stopped while the hot-key collection runs; a SCAN call addressing the last node while that node leaves the host list (P2 / P3 F1)",
		Technique:   "preemption/delay-bounded stateless schedule exploration of the real goroutines under a controlled scheduler with fault injection at every network operation",
		Assumptions: engineAssumptions,
		Jobs: []Job{
			{Pkg: "proc/redis", Scenarios: []string{"C02/split", "C02/banned-pipeline", "C02/banned-pipeline-faults"}, Shards: 8, QuickS: 60, ThoroughS: 240},
			{Pkg: "proc/redis", Scenarios: []string{"C02/split-race"}, Race: true, Shards: 1, QuickS: 60, ThoroughS: 240},
			{Pkg: "proc/redis", Scenarios: []string{"C02/stack-race"}, Race: true, Shards: 1, QuickS: 120, ThoroughS: 240},
			{Pkg: "proc/redis", Scenarios: []string{"C02/client"}, Shards: 16, QuickS: 150, ThoroughS: 240},
			{Pkg: "proc/redis", Scenarios: []string{"C02/upstream"}, Shards: 16, QuickS: 120, ThoroughS: 240},
			{Pkg: "proc/redis", Scenarios: []string{"C09/redis-collect"}, Shards: 8, QuickS: 90, ThoroughS: 240}, // a backend client stopped while the hot-key collection runs: later requests must still be answered
			{Pkg: "proc/redis", Scenarios: []string{"C02/redirect-target", "C02/scan-host-change", "C02/notice-many"}, Shards: 16, QuickS: 180, ThoroughS: 240},
			{Pkg: "proc/redis", Scenarios: []string{"C02/upstream-redirect"}, Shards: 16, QuickS: 150, ThoroughS: 240},
			{Pkg: "proc/redis", Scenarios: []string{"C09/redis-stop"}, Shards: 16, QuickS: 80, ThoroughS: 240},
			{Pkg: "proc/redis", Scenarios: []string{"C02/stack"}, Shards: 16, QuickS: 80, ThoroughS: 240},
		},
	},
	{
		ID: "C13", Title: "transparent compression never changes what clients read back", Level: "model_checking",
		LevelText:   "bounded-exhaustive enumeration through the real filter chain (4 thresholds x 8 write commands x every {0,x}-string up to length 10 plus patterned values around every threshold x 1-3 filter passes) with the snappy library itself as decompression oracle, and every history up to depth 4/5 of enable/disable, writes, reads, MOVED and ASK redirection on the real proxy stack against a reference map; a compression-settings switch racing a write and its read back (access points on the unsynchronised configuration pointer); removing the compression section; GETSET read-back; multi-value writes; saving sweep through the framing overhead; connections lost between enable/disable/remove and the read; every history enable, write, two events, read; values around the 64 KiB block size of the compression stream; every upper/lower-case spelling of every banned command",
		Technique:   "bounded-exhaustive input enumeration + exhaustive history enumeration on the real proxy stack under a controlled scheduler",
		Assumptions: append([]string{"github.com/golang/snappy called directly as independent decompression oracle", "mini Redis Cluster stores values byte for byte"}, engineAssumptions...),
		Jobs: []Job{
			{Pkg: "proc/redis", Scenarios: []string{"C13/filter"}, Shards: 8, QuickS: 90, ThoroughS: 240},
			{Pkg: "proc/redis", Scenarios: []string{"C02/stack-race"}, Race: true, Shards: 1, QuickS: 120, ThoroughS: 240},
			{Pkg: "proc/redis", Scenarios: []string{"C13/histories"}, Shards: 16, QuickS: 90, ThoroughS: 240},
			{Pkg: "proc/redis", Scenarios: []string{"C13/concurrent"}, Shards: 16, QuickS: 60, ThoroughS: 240},
			{Pkg: "proc/redis", Scenarios: []string{"C13/switch-concurrent"}, Shards: 16, QuickS: 60, ThoroughS: 240},
			{Pkg: "proc/redis", Scenarios: []string{"C13/filter-race"}, Race: true, Shards: 1, QuickS: 60, ThoroughS: 240},
		},
	},
	{
		ID: "C18", Title: "SCAN through the proxy visits every node once and terminates", Level: "model_checking",
		LevelText:   "every combination of scripted per-node cursor chains (17 shapes per node, 1-3 nodes, cursors up to 2^48-1) iterated from cursor 0 through the real proxy; MATCH/COUNT/TYPE pass-through; every client-supplied cursor class; lossless cursor composition for all power-of-two boundaries; 0 nodes; a slot refresh between any two calls; one two-node iteration under all schedules within bounds (with scheduling points after releasing operations); iterations of 140/300 calls per node with nearly all batches empty; a call answered -CLUSTERDOWN and repeated; a replica in the host list; a SCAN call waiting in a backend client's queue while the session reads the next command (inline and RESP); a node that hands back the cursor it was asked with before it moves on",
		Technique:   "exhaustive enumeration of node cursor histories on the real proxy stack under a controlled scheduler",
		Assumptions: append([]string{"scripted SCAN answers of the mini cluster (well-formed replies; malformed ones belong to C11)"}, engineAssumptions...),
		Jobs: []Job{{Pkg: "proc/redis", Scenarios: []string{"C18/scan"}, Shards: 16, QuickS: 90, ThoroughS: 240},
			{Pkg: "proc/redis", Scenarios: []string{"C02/stack-race"}, Race: true, Shards: 1, QuickS: 120, ThoroughS: 240},
			{Pkg: "proc/redis", Scenarios: []string{"C18/scan-schedules"}, Shards: 16, QuickS: 60, ThoroughS: 240},
			{Pkg: "proc/redis", Scenarios: []string{"C18/scan-queued", "C18/repeated-cursor"}, Shards: 4, QuickS: 60, ThoroughS: 90}},
	},
	{
		ID: "C14", Title: "only supported commands reach backends; writes only reach masters", Level: "exploration",
		LevelText:   "exhaustive enumeration of the command-name space through the real proxy on a 2-master x 2-replica mini cluster: the full Redis 5.0 command table (with Redis's own write flags), every name in the proxy's tables and odd names, in three letter cases, with 0-4 arguments, under the three read strategies, with the virtual clock stepped so that the time-based replica choice visits every candidate; node logs compared before/after each command at quiescence; run-time read-strategy changes (histories <= 4/5); keys with an empty hash tag; every pipeline of 2/3 out of 7 commands (read, write, unsupported, local) as RESP, inline or alternating, also one write per command while requests wait for a backend connection; CLUSTERDOWN answers; first keys at the command table's position; key-less EVAL never at a replica (random picks rotate over all hosts); a refresh answered from a partial view; the host list delivered again between commands; first writes of two connections at once while the nodes share one IP address (P2 / P3 F1)",
		Technique:   "bounded-exhaustive enumeration of the command space on the real proxy stack under a controlled scheduler",
		Rule:        "distinct = (name, letter case, argument count, strategy, clock step) combinations issued",
		Assumptions: append([]string{"Redis 5.0 command table with write flags embedded in the harness (written from the redis-server 5.0 command table)", "mini Redis Cluster node logs"}, engineAssumptions...),
		Jobs: []Job{
			{Pkg: "proc/redis", Scenarios: []string{"C12/reported-table"}, Shards: 8, QuickS: 60, ThoroughS: 240}, // however a master is listed, writes reach it and reads stay in its group
			{Pkg: "proc/redis", Scenarios: []string{"C14/pipelines"}, Shards: 16, QuickS: 60, ThoroughS: 240},
			{Pkg: "proc/redis", Scenarios: []string{"C14/commands"}, Shards: 12, QuickS: 120, ThoroughS: 240},
			{Pkg: "proc/redis", Scenarios: []string{"C02/stack-race"}, Race: true, Shards: 1, QuickS: 120, ThoroughS: 240},
			{Pkg: "proc/redis", Scenarios: []string{"C14/topology"}, Shards: 1, QuickS: 60, ThoroughS: 120},
			{Pkg: "proc/redis", Scenarios: []string{"C14/strategy-update"}, Shards: 16, QuickS: 60, ThoroughS: 240},
			{Pkg: "proc/redis", Scenarios: []string{"C14/same-machine"}, Shards: 16, QuickS: 90, ThoroughS: 240},
		},
	},
	{
		ID: "C03", Title: "on a stable cluster the proxy behaves like a single Redis server", Level: "model_checking",
		LevelText:   "explicit-state BFS over command programs (depth 3-4 quick, 4-5 thorough; ~40 commands covering every handler over 4 colliding keys; 1 or 2 connections; 5 layouts of 3 slot groups on 1-3 nodes) through the real proxy (sessions, upstream, backend clients) on a virtual network against a mini Redis Cluster; each reply compared with a single-server reference, first delivery checked against slot ownership, zero redirections, final keyspaces equal; plus a sweep of binary/boundary-length keys and values through 7 write/read families; requests issued at every unsynchronised slot-table access of a running periodic refresh; the first pipeline after start; 13 reply shapes repeated past the decoder's nesting limit on long-lived connections, with compression off and on; requests arriving in pieces cut between CR and LF; MSET naming a key twice at every pair of positions; masters listed as suspected / nofailover / on a new address (C12/reported-table)",
		Technique:   "explicit-state BFS over operation histories of the real proxy stack under a controlled scheduler (default schedule), reference-model comparison in every state",
		Assumptions: append([]string{"mini Redis Cluster + single-server reference interpreter (/verif/sim/cluster) written from the Redis 5.0 documentation; the same interpreter is used on both sides so the comparison checks routing, splitting and relaying", "default schedule only (the quantifier of C03 is programs x inputs x layouts)"}, engineAssumptions...),
		Jobs: []Job{
			{Pkg: "proc/redis", Scenarios: []string{"C07/histories"}, Shards: 16, QuickS: 90, ThoroughS: 240}, // the layout is stable but connections come and go: replies stay those of a single server
			{Pkg: "proc/redis", Scenarios: []string{"C03/programs"}, Shards: 16, QuickS: 100, ThoroughS: 240},
			{Pkg: "proc/redis", Scenarios: []string{"C02/stack-race"}, Race: true, Shards: 1, QuickS: 120, ThoroughS: 240},
			{Pkg: "proc/redis", Scenarios: []string{"C03/values"}, Shards: 16, QuickS: 60, ThoroughS: 240},
			{Pkg: "proc/redis", Scenarios: []string{"C03/long-sessions", "C03/multi-key"}, Shards: 16, QuickS: 90, ThoroughS: 240},
			{Pkg: "proc/redis", Scenarios: []string{"C12/reported-table"}, Shards: 8, QuickS: 60, ThoroughS: 240}, // a loaded table produces no redirection, however the owner is listed
			{Pkg: "proc/redis", Scenarios: []string{"C03/refresh-concurrent"}, Shards: 16, QuickS: 60, ThoroughS: 240},
			{Pkg: "proc/redis", Scenarios: []string{"C01/cold-start"}, Shards: 16, QuickS: 60, ThoroughS: 240},
		},
	},
	{
		ID: "C17", Title: "hot restart hand-over ordered, acknowledged, robust to bad frames", Level: "fault_enumeration",
		LevelText:   "bounded-exhaustive enumeration over real unix sockets: every frame (12 types x payload 0..4100 x 13 declared lengths) through the real reader, full round trips through the real sender, every request sequence up to length 4/5 through the real Restarter with a scripted instance, and a first child dropped at every point (after k requests, mid-header, after a malformed frame) followed by a second child; every type byte 0-255 that is not a request; a child gone before its reply can be written; hand-over steps that take 1.3 s / 3.5 s; a child that sends its next request while the step before is still running; a received frame keeps its content while the next is read; the drain step of a listener that is not bound yet (C09/listener); a malformed frame before the k-th request of a child that carries on",
		Technique:   "bounded-exhaustive frame enumeration + fault-point enumeration over request histories on the real Restarter",
		Rule:        "each evaluation is a distinct frame or a distinct (request sequence, drop point) history",
		Assumptions: []string{"Go compiler and runtime", "kernel unix stream sockets (abstract namespace)", "the protocol is request/reply, so outcomes do not depend on goroutine timing; a 30 s read deadline only detects a hung hand-over"},
		Jobs: []Job{
			{Pkg: "proc", Scenarios: []string{"C09/listener"}, Shards: 16, QuickS: 120, ThoroughS: 240}, // the drain step itself: a listener told to drain never serves a later connection, bound or not
			{Pkg: "cmd/samaritan/hotrestart", Scenarios: []string{"C17/frames"}, Shards: 12, QuickS: 90, ThoroughS: 240},
			{Pkg: "cmd/samaritan/hotrestart", Scenarios: []string{"C17/handover"}, Shards: 8, QuickS: 90, ThoroughS: 240},
		},
	},
	{
		ID: "C19", Title: "hot keys: counters exact for tracked keys and bounded", Level: "model_checking",
		LevelText:   "explicit-state BFS over every Incr/Latch/Free sequence on the real Counter (capacity 0..3, depth 7/9) against a reference map plus structural invariants of the frequency list; DFS over every Collector history (depth 5/6) including every rand outcome of the logarithmic counter and a minute tick at any clock read; every insert sequence into the sorted report; every interleaving (P<=2/3) of writers, collect, reader and Free; capacities at the uint8 boundaries; three key-name shapes; a report that a reader is still walking stays duplicate free; evictStale on every report state of 1-4/5 keys with heats 1-7 stamped in the previous or current minute; two writers sharing one counter; HOTKEY in a pipeline with compression on (P1 F1 / P2 F1); a counter still used after the other client of its backend freed it; a collector serving 1..310 backends whose counters are all full in one period (capacities 1, 2, 4, 50, 51, 255)",
		Technique:   "explicit-state search over operation histories on the real objects + preemption-bounded schedule exploration",
		Assumptions: engineAssumptions,
		Jobs: []Job{
			{Pkg: "proc/redis", Scenarios: []string{"C19/hotkey-pipelined"}, Shards: 8, QuickS: 90, ThoroughS: 240},
			{Pkg: "proc/redis/hotkey", Scenarios: []string{"C19/evict-states"}, Shards: 1, QuickS: 60, ThoroughS: 120},
			{Pkg: "proc/redis/hotkey", Scenarios: []string{"C19/many-backends"}, Shards: 4, QuickS: 60, ThoroughS: 120},
			{Pkg: "proc/redis/hotkey", Scenarios: []string{"C19/counter", "C19/insert"}, Shards: 1, QuickS: 60, ThoroughS: 240},
			{Pkg: "proc/redis/hotkey", Scenarios: []string{"C19/collector"}, Shards: 16, QuickS: 60, ThoroughS: 240},
			{Pkg: "proc/redis/hotkey", Scenarios: []string{"C19/concurrent", "C19/latch-concurrent", "C19/shared-counter"}, Shards: 8, QuickS: 60, ThoroughS: 240},
			{Pkg: "proc/redis", Scenarios: []string{"C19/hotkey-command"}, Shards: 7, QuickS: 60, ThoroughS: 120},
			{Pkg: "proc/redis/hotkey", Scenarios: []string{"C19/collector-race"}, Race: true, Shards: 1, QuickS: 60, ThoroughS: 240},
		},
	},
	{
		ID: "C10", Title: "RESP codec: decode and encode are inverse and independent of chunking", Level: "exploration",
		LevelText:   "bounded-exhaustive enumeration: every value of the RESP grammar up to depth 2 over boundary texts/integers, every concatenation of small messages under all chunkings (<= 14 bytes) or every placement of <= 2/3 cuts, six reader buffer sizes, against an independent codec; integer fast paths against strconv on every string over a 7-letter alphabet up to length 7/8 and every i in [-70000,70000]; 300 repetitions of one null/empty/nested message followed by other values through one decoder; digit strings around every length threshold and the int64/uint64 limits; inline words with tabs, control characters and Unicode spaces; bulk strings around and beyond one megabyte followed by further messages, whole and in pieces",
		Technique:   "bounded-exhaustive input and chunking enumeration against an independent reference codec",
		Assumptions: []string{"Go compiler and runtime", "independent RESP codec /verif/sim/resp and strconv as references", "boundary sets chosen from the thresholds in the code (32, 512, 4096, 8192, 32768, 10 digits)"},
		Jobs: []Job{{Pkg: "proc/redis", Scenarios: []string{"C10/codec"}, Shards: 16, QuickS: 120, ThoroughS: 240},
			{Pkg: "proc/redis", Scenarios: []string{"C10/codec-race"}, Race: true, Shards: 1, QuickS: 60, ThoroughS: 240}},
	},
	{
		ID: "C12", Title: "key-to-slot mapping equals the Redis Cluster specification", Level: "exploration",
		LevelText:   "bounded-exhaustive input enumeration through the real routing function: all keys of length 0-3 (every CRC state x every next byte: the induction step for all lengths), two free positions in keys up to 64 bytes, every brace placement over a 4-letter alphabet up to length 9/11, against a bit-by-bit CRC16/XMODEM and the specification's hash-tag rule; slots moved one at a time with redirected GET/SET/EVAL/MGET (a redirection teaches the proxy only about the redirected key's slot); every forwarded command of the command table arrives at the owner of its first key; RESP/inline pipelines whose queued requests must keep their keys (C14/pipelines); an owner that refuses a command once with -CLUSTERDOWN; requests issued at every unsynchronised slot-table access of a running refresh of an unchanged layout (C03/refresh-concurrent); a slot-owning master dropped from the host list (keys used before the next refresh)",
		Technique:   "bounded-exhaustive input enumeration (complete by induction over the CRC state)",
		Rule:        "each evaluation is a distinct key; all are counted (the 2^24 three-byte keys cover every CRC state x next byte)",
		Assumptions: []string{"Go compiler and runtime", "reference CRC16/XMODEM and hash-tag rule written from the Redis Cluster specification", "slot read through upstream.chooseHost over an identity slot table"},
		Jobs: []Job{
			{Pkg: "proc/redis", Scenarios: []string{"C12/slots"}, Shards: 1, QuickS: 120, ThoroughS: 240},
			{Pkg: "proc/redis", Scenarios: []string{"C12/concurrent"}, Shards: 4, QuickS: 60, ThoroughS: 240},
			{Pkg: "proc/redis", Scenarios: []string{"C12/redirect-learning", "C12/reported-table"}, Shards: 4, QuickS: 60, ThoroughS: 240},
			{Pkg: "proc/redis", Scenarios: []string{"C14/pipelines"}, Shards: 16, QuickS: 60, ThoroughS: 240}, // the key a node receives is the key that was routed
			{Pkg: "proc/redis", Scenarios: []string{"C03/refresh-concurrent"}, Shards: 16, QuickS: 60, ThoroughS: 240}, // a refresh of an unchanged layout never changes where a key goes, at no point of it
			{Pkg: "proc/redis", Scenarios: []string{"C14/commands"}, Shards: 12, QuickS: 120, ThoroughS: 240}, // end to end: every forwarded command arrives at the owner of its first key
		},
	},
	{
		ID: "C15", Title: "host set and health checking keep a consistent usable view", Level: "model_checking",
		LevelText:   "explicit-state BFS over every operation sequence on the real host.Set up to depth 5/7 against a reference model in every state; every interleaving (preemption bound 2/3) of 2-3 threads of set operations plus a reader; every check-outcome sequence for all thresholds 0..3 through the real monitor step; batches carrying one address twice; for single batch calls a concurrent reader sees only views that exist before or after the call; hysteresis inside a running TCP service with refused client dials between the checks; the same address removed and re-added with another type in one update, through the controller (C08/histories); 2049-4101 hosts (more than the check concurrency) with scripted failing hosts: a result counts for the host it was obtained from",
		Technique:   "explicit-state BFS over operation histories + preemption-bounded schedule exploration of real goroutines",
		Rule:        "states = canonical dumps of the real host.Set (three maps, cache, per-object flag/latch) reached by operation sequences; every state non-trivial (differs from all others); schedules = distinct choice sequences",
		Assumptions: engineAssumptions,
		Jobs: []Job{
			{Pkg: "controller", Scenarios: []string{"C08/histories"}, Shards: 16, QuickS: 60, ThoroughS: 240}, // the same address removed and re-added with another type in one update, through the controller
			{Pkg: "proc/tcp", Scenarios: []string{"C15/tcp-dials"}, Shards: 16, QuickS: 90, ThoroughS: 240},
			{Pkg: "host", Scenarios: []string{"C15/history"}, Shards: 1, QuickS: 60, ThoroughS: 240},
			{Pkg: "proc/internal/lb", Scenarios: []string{"C06/random-leastconn"}, Shards: 1, QuickS: 60, ThoroughS: 240},
			{Pkg: "host", Scenarios: []string{"C15/concurrent"}, Shards: 8, QuickS: 60, ThoroughS: 240},
			{Pkg: "host", Scenarios: []string{"C15/set-race"}, Race: true, Shards: 1, QuickS: 60, ThoroughS: 240},
			{Pkg: "proc/internal/hc", Scenarios: []string{"C15/hysteresis"}, Shards: 1, QuickS: 60, ThoroughS: 240},
			{Pkg: "proc/internal/hc", Scenarios: []string{"C15/monitor-loop"}, Shards: 8, QuickS: 60, ThoroughS: 240},
			{Pkg: "proc/internal/hc", Scenarios: []string{"C15/hc-many-hosts"}, Shards: 9, QuickS: 150, ThoroughS: 200},
		},
	},
	{
		ID: "SELFTEST", Title: "engine litmus tests", Level: "model_checking",
		Rule:        "litmus programs with known outcome sets",
		Assumptions: engineAssumptions,
		Jobs: []Job{
			{Pkg: "verifrt/litmus", Scenarios: []string{"litmus"}, Shards: 1, QuickS: 60, ThoroughS: 120},
			{Pkg: "proc/redis", Scenarios: []string{"smoke"}, Shards: 1, QuickS: 60, ThoroughS: 120},
		},
	},
}

// A scenario that is shared with another property is explored to its full thorough budget under its home property;
// as a job of another property it gets at most 100 s in the thorough tier (its quick budget is unchanged).
func init() {
	for ci := range checks {
		c := &checks[ci]
		for ji := range c.Jobs {
			j := &c.Jobs[ji]
			home := false
			for _, s := range j.Scenarios {
				if strings.HasPrefix(s, c.ID+"/") {
					home = true
				}
			}
			if !home && c.ID != "SELFTEST" && j.ThoroughS > 100 {
				j.ThoroughS = 100
				if j.QuickS > j.ThoroughS {
					j.ThoroughS = j.QuickS
				}
			}
		}
	}
}
