// vcheck: instrument -> overlay -> build -> shard -> aggregate -> evidence.
package main

import (
	"crypto/sha256"
	"encoding/hex"
	"encoding/json"
	"flag"
	"fmt"
	"io/fs"
	"os"
	"os/exec"
	"path/filepath"
	"sort"
	"strconv"
	"strings"
	"sync"
	"syscall"
	"time"

	"verif/internal/rewrite"
)

var (
	verifDir = envOr("VERIF_DIR", "/verif")
	repoDir  = envOr("VERIF_REPO", "/repo")
)

func envOr(k, d string) string {
	if v := os.Getenv(k); v != "" {
		return v
	}
	return d
}

// instrumented packages (repo-relative); every non-test file in them is rewritten.
var instrPkgs = []string{
	"host", "proc", "proc/tcp", "proc/internal/net", "proc/internal/lb", "proc/internal/hc",
	"proc/internal/hc/atcp", "proc/internal/hc/redis", "proc/internal/hc/mysql",
	"proc/redis", "proc/redis/hotkey", "proc/redis/compressor", "proc/redis/compressor/snappy",
	"config", "controller",
}

type workerReport struct {
	Scenario      string           `json:"scenario"`
	Execs         int64            `json:"execs"`
	Steps         int64            `json:"steps"`
	ChoicePts     int64            `json:"choice_points"`
	ByClass       map[string]int64 `json:"choice_points_by_class"`
	MaxChoices    int              `json:"max_choices_in_one_exec"`
	Outcomes      map[string]int64 `json:"outcomes"`
	EndReasons    map[string]int64 `json:"end_reasons"`
	Complete      bool             `json:"complete"`
	BoundDone     json.RawMessage  `json:"bound_completed"`
	BoundAsked    json.RawMessage  `json:"bound_requested"`
	Violations    []violation      `json:"violations"`
	Samples       []interface{}    `json:"samples"`
	StateHashes   int64            `json:"distinct_trace_hashes"`
	States        int64            `json:"states"`
	Transitions   int64            `json:"transitions"`
	Distinct      int64            `json:"distinct_nontrivial"`
	Rule          string           `json:"rule"`
	Notes         []string         `json:"notes"`
	CustomSamples []interface{}    `json:"custom_samples"`
	WallS         float64          `json:"wall_s"`
	Errors        []string         `json:"errors"`
}

type violation struct {
	Scenario string          `json:"scenario"`
	Sig      string          `json:"sig"`
	Detail   string          `json:"detail"`
	Picks    []int           `json:"picks"`
	Input    json.RawMessage `json:"input,omitempty"`
	Trace    []string        `json:"trace,omitempty"`
	Replayed bool            `json:"replayed_identically"`
	Property string          `json:"property,omitempty"`
	Pkg      string          `json:"pkg,omitempty"`
}

type workerOutput struct {
	Reports []*workerReport `json:"reports"`
}

type knownFinding struct {
	Property string `json:"property"`
	Scenario string `json:"scenario,omitempty"` // empty = any scenario of the property
	Sig      string `json:"sig"`                // exact signature, or prefix when it ends in '*'
	Status   string `json:"status"`             // known | fixed
	Commit   string `json:"commit,omitempty"`
	What     string `json:"what"`
}

func main() {
	if len(os.Args) < 2 {
		usage()
	}
	switch os.Args[1] {
	case "run":
		os.Exit(cmdRun(os.Args[2:]))
	case "replay":
		os.Exit(cmdReplay(os.Args[2:]))
	case "build":
		os.Exit(cmdBuild(os.Args[2:]))
	case "manifest":
		os.Exit(cmdManifest())
	case "list":
		for _, c := range checks {
			fmt.Printf("%s  %s\n", c.ID, c.Title)
			for _, j := range c.Jobs {
				fmt.Printf("    %-22s %s\n", j.Pkg, strings.Join(j.Scenarios, ","))
			}
		}
	default:
		usage()
	}
}

func usage() {
	fmt.Fprintln(os.Stderr, "usage: vcheck run <ID> [--tier quick|thorough] | replay <file> | build | list")
	os.Exit(2)
}

func goEnv() []string {
	env := os.Environ()
	env = append(env, "GOFLAGS=-mod=mod", "GOPROXY=off", "GOSUMDB=off", "GOTOOLCHAIN=local", "CGO_ENABLED=0")
	return env
}

// ---- build ---------------------------------------------------------------

func hashTree(h interface{ Write([]byte) (int, error) }, root string, filter func(string) bool) {
	var files []string
	filepath.WalkDir(root, func(p string, d fs.DirEntry, err error) error {
		if err != nil {
			return nil
		}
		if d.IsDir() {
			n := d.Name()
			if n == ".git" || n == ".work" || n == "evidence" || n == "replays" || n == "bin" {
				return filepath.SkipDir
			}
			return nil
		}
		if filter(p) {
			files = append(files, p)
		}
		return nil
	})
	sort.Strings(files)
	for _, f := range files {
		b, err := os.ReadFile(f)
		if err != nil {
			continue
		}
		fmt.Fprintf(h.(interface {
			Write([]byte) (int, error)
		}), "%s\x00%d\x00", f, len(b))
		h.Write(b)
	}
}

func sourceHash() string {
	h := sha256.New()
	hashTree(h, repoDir, func(p string) bool {
		return strings.HasSuffix(p, ".go") || strings.HasSuffix(p, "go.mod") || strings.HasSuffix(p, "go.sum")
	})
	for _, d := range []string{"rt", "sim", "harness", "internal", "cmd"} {
		hashTree(h, filepath.Join(verifDir, d), func(p string) bool { return strings.HasSuffix(p, ".go") })
	}
	return hex.EncodeToString(h.Sum(nil))[:20]
}

var buildMu sync.Mutex

// prepare instruments the repository and writes the overlay; returns the work dir.
func prepare() (string, error) {
	buildMu.Lock()
	defer buildMu.Unlock()
	hash := sourceHash()
	work := filepath.Join(verifDir, ".work", hash)
	overlayPath := filepath.Join(work, "overlay.json")
	okPath := filepath.Join(work, "ok")
	if _, err := os.Stat(okPath); err == nil {
		now := time.Now()
		os.Chtimes(okPath, now, now) // in use
		return work, nil
	}
	// several vcheck processes may run at the same time: one of them instruments, the others wait
	os.MkdirAll(filepath.Join(verifDir, ".work"), 0o755)
	if lf, err := os.OpenFile(filepath.Join(verifDir, ".work", "lock"), os.O_CREATE|os.O_RDWR, 0o644); err == nil {
		syscall.Flock(int(lf.Fd()), syscall.LOCK_EX)
		defer func() { syscall.Flock(int(lf.Fd()), syscall.LOCK_UN); lf.Close() }()
		if _, err := os.Stat(okPath); err == nil {
			return work, nil
		}
	}
	// drop stale work dirs (keep disk use bounded); a directory used in the last hours may belong to a
	// running check of another tree state and is left alone
	if ents, err := os.ReadDir(filepath.Join(verifDir, ".work")); err == nil {
		for _, e := range ents {
			if e.Name() == hash || !e.IsDir() {
				continue
			}
			last := time.Time{}
			if st, err := os.Stat(filepath.Join(verifDir, ".work", e.Name(), "ok")); err == nil {
				last = st.ModTime()
			} else if di, err := e.Info(); err == nil {
				last = di.ModTime() // being built, or the output directory of a running check
			}
			if time.Since(last) > 3*time.Hour {
				os.RemoveAll(filepath.Join(verifDir, ".work", e.Name()))
			}
		}
	}
	if err := os.MkdirAll(filepath.Join(work, "src"), 0o755); err != nil {
		return "", err
	}
	t0 := time.Now()
	var patterns []string
	for _, p := range instrPkgs {
		patterns = append(patterns, "./"+p)
	}
	res, err := rewrite.Instrument(repoDir, patterns, goEnv())
	if err != nil {
		return "", fmt.Errorf("instrumentation failed: %v", err)
	}
	replace := map[string]string{}
	for i, orig := range res.SortedFiles() {
		rel, _ := filepath.Rel(repoDir, orig)
		dst := filepath.Join(work, "src", fmt.Sprintf("%03d_%s", i, strings.ReplaceAll(rel, "/", "__")))
		if err := os.WriteFile(dst, res.Files[orig], 0o644); err != nil {
			return "", err
		}
		replace[orig] = dst
	}
	// hide existing tests of instrumented packages and of packages with harnesses
	hide := map[string]bool{}
	for _, p := range instrPkgs {
		hide[p] = true
	}
	harnessRoot := filepath.Join(verifDir, "harness")
	filepath.WalkDir(harnessRoot, func(p string, d fs.DirEntry, err error) error {
		if err != nil || d.IsDir() || !strings.HasSuffix(p, ".go") {
			return nil
		}
		rel, _ := filepath.Rel(harnessRoot, p)
		hide[filepath.Dir(rel)] = true
		replace[filepath.Join(repoDir, rel)] = p
		return nil
	})
	for p := range hide {
		ents, _ := os.ReadDir(filepath.Join(repoDir, p))
		for _, e := range ents {
			if strings.HasSuffix(e.Name(), "_test.go") {
				replace[filepath.Join(repoDir, p, e.Name())] = ""
			}
		}
	}
	// runtime and simulators as virtual packages
	for _, pair := range [][2]string{{"rt", "verifrt"}, {"sim", "verifrt/sim"}} {
		root := filepath.Join(verifDir, pair[0])
		filepath.WalkDir(root, func(p string, d fs.DirEntry, err error) error {
			if err != nil || d.IsDir() || !strings.HasSuffix(p, ".go") {
				return nil
			}
			rel, _ := filepath.Rel(root, p)
			replace[filepath.Join(repoDir, pair[1], rel)] = p
			return nil
		})
	}
	b, _ := json.MarshalIndent(map[string]interface{}{"Replace": replace}, "", " ")
	if err := os.WriteFile(overlayPath, b, 0o644); err != nil {
		return "", err
	}
	// the overlay of the free-running (-race) build: the same harnesses and runtime over the code as it is
	// (real goroutines, channels, selects, locks, timers); only the files that dial use the in-memory network
	light, err := rewrite.InstrumentLight(repoDir)
	if err != nil {
		return "", fmt.Errorf("light instrumentation failed: %v", err)
	}
	raceReplace := map[string]string{}
	for k, v := range replace {
		if _, instrumented := res.Files[k]; !instrumented {
			raceReplace[k] = v
		}
	}
	i := 0
	for orig, content := range light.Files {
		rel, _ := filepath.Rel(repoDir, orig)
		dst := filepath.Join(work, "src", fmt.Sprintf("light_%03d_%s", i, strings.ReplaceAll(rel, "/", "__")))
		i++
		if err := os.WriteFile(dst, content, 0o644); err != nil {
			return "", err
		}
		raceReplace[orig] = dst
	}
	b, _ = json.MarshalIndent(map[string]interface{}{"Replace": raceReplace}, "", " ")
	if err := os.WriteFile(filepath.Join(work, "overlay-race.json"), b, 0o644); err != nil {
		return "", err
	}
	os.WriteFile(filepath.Join(work, "ok"), []byte(time.Now().String()), 0o644)
	fmt.Fprintf(os.Stderr, "[vcheck] instrumented %d files in %.1fs (%v)\n", len(res.Files), time.Since(t0).Seconds(), res.Stats)
	return work, nil
}

// buildTest builds the test binary of one repo package through the overlay.
func buildTest(work, pkg string) (string, error) { return buildTestMode(work, pkg, false) }

func buildTestMode(work, pkg string, race bool) (string, error) {
	bin := filepath.Join(work, strings.ReplaceAll(pkg, "/", "__")+".test")
	if race {
		bin += ".race"
	}
	buildMu.Lock()
	defer buildMu.Unlock()
	if _, err := os.Stat(bin); err == nil {
		return bin, nil
	}
	t0 := time.Now()
	overlay := "overlay.json"
	if race {
		overlay = "overlay-race.json"
	}
	args := []string{"test", "-c", "-o", bin, "-overlay", filepath.Join(work, overlay), "-tags", "verif", "-vet=off"}
	if race {
		args = append(args, "-race")
	}
	cmd := exec.Command("go", append(args, "./"+pkg)...)
	cmd.Dir = repoDir
	cmd.Env = goEnv()
	if race {
		cmd.Env = append(cmd.Env, "CGO_ENABLED=1")
	}
	out, err := cmd.CombinedOutput()
	if err != nil {
		return "", fmt.Errorf("build of %s failed: %v\n%s", pkg, err, out)
	}
	fmt.Fprintf(os.Stderr, "[vcheck] built %s in %.1fs\n", pkg, time.Since(t0).Seconds())
	return bin, nil
}

func cmdBuild(args []string) int {
	work, err := prepare()
	if err != nil {
		fmt.Println("ERROR:", err)
		return 2
	}
	pk := map[string]bool{}
	for _, c := range checks {
		for _, j := range c.Jobs {
			pk[j.Pkg] = true
		}
	}
	for _, a := range args {
		pk = map[string]bool{a: true}
	}
	rc := 0
	for p := range pk {
		if _, err := buildTest(work, p); err != nil {
			fmt.Println("ERROR:", err)
			rc = 2
		}
	}
	return rc
}

// ---- run -------------------------------------------------------------------

func cmdRun(args []string) int {
	fs := flag.NewFlagSet("run", flag.ExitOnError)
	tier := fs.String("tier", envOr("VERIF_TIER", "quick"), "quick|thorough")
	only := fs.String("scenario", "", "run only this scenario")
	budget := fs.Float64("budget", 0, "override wall-clock budget (s) per job")
	if len(args) < 1 {
		usage()
	}
	id := args[0]
	fs.Parse(args[1:])
	var chk *Check
	for i := range checks {
		if checks[i].ID == id {
			chk = &checks[i]
		}
	}
	if chk == nil {
		fmt.Println("ERROR: unknown check", id)
		return 2
	}
	seed, _ := strconv.ParseInt(os.Getenv("VERIF_SEED"), 10, 64)
	start := time.Now()
	work, err := prepare()
	if err != nil {
		fmt.Println("ERROR:", err)
		return 2
	}
	var all []*workerReport
	var errs []string
	for _, job := range chk.Jobs {
		scns := job.Scenarios
		if *only != "" {
			scns = nil
			for _, s := range job.Scenarios {
				if s == *only {
					scns = []string{s}
				}
			}
			if scns == nil {
				continue
			}
		}
		bin, err := buildTestMode(work, job.Pkg, job.Race)
		if err != nil {
			fmt.Println("ERROR:", err)
			return 2
		}
		b := job.QuickS
		if *tier == "thorough" {
			b = job.ThoroughS
		}
		if *budget > 0 {
			b = *budget
		}
		reps, es := runJob(bin, job, scns, *tier, b, seed)
		for _, r := range reps {
			for i := range r.Violations {
				r.Violations[i].Pkg = job.Pkg
			}
		}
		all = append(all, reps...)
		errs = append(errs, es...)
	}
	return finish(chk, *tier, seed, all, errs, time.Since(start).Seconds(), *only == "")
}

func runJob(bin string, job Job, scns []string, tier string, budgetS float64, seed int64) ([]*workerReport, []string) {
	type unit struct {
		scn   string
		shard int
		n     int
	}
	var units []unit
	for _, s := range scns {
		n := job.Shards
		if n <= 0 {
			n = 1
		}
		for i := 0; i < n; i++ {
			units = append(units, unit{s, i, n})
		}
	}
	// rotate by seed (the seed never changes what is explored)
	if len(units) > 0 {
		k := int(seed % int64(len(units)))
		if k < 0 {
			k = -k
		}
		units = append(units[k:], units[:k]...)
	}
	par := 16
	sem := make(chan struct{}, par)
	var mu sync.Mutex
	var reps []*workerReport
	var errs []string
	var wg sync.WaitGroup
	outDir, _ := os.MkdirTemp(filepath.Join(verifDir, ".work"), "out")
	defer os.RemoveAll(outDir)
	for ui, u := range units {
		wg.Add(1)
		sem <- struct{}{}
		go func(ui int, u unit) {
			defer wg.Done()
			defer func() { <-sem }()
			out := filepath.Join(outDir, fmt.Sprintf("w%d.json", ui))
			hard := time.Duration((budgetS*1.5 + 60) * float64(time.Second))
			cmd := exec.Command(bin, "-test.run", "^TestVerif$", "-test.timeout", hard.String(), "-test.count", "1")
			cmd.Dir = filepath.Join(repoDir, job.Pkg)
			if st, err := os.Stat(cmd.Dir); err != nil || !st.IsDir() {
				cmd.Dir = repoDir
			}
			cmd.Env = append(os.Environ(),
				"VERIF_SCENARIO="+u.scn, "VERIF_TIER="+tier,
				fmt.Sprintf("VERIF_SHARD=%d/%d", u.shard, u.n),
				fmt.Sprintf("VERIF_DEADLINE_S=%f", budgetS),
				"VERIF_OUT="+out, "GOMAXPROCS=2", "GOMEMLIMIT=3GiB")
			raceLog := filepath.Join(outDir, fmt.Sprintf("race%d", ui))
			if job.Race {
				runs := "200"
				if tier == "thorough" {
					runs = "2000"
				}
				cmd.Env = append(cmd.Env, "VERIF_RACE=1", "VERIF_RACE_RUNS="+runs, "VERIF_PROCS=8", "GOMAXPROCS=8",
					"GORACE=log_path="+raceLog+" halt_on_error=0 exitcode=0")
			}
			done := make(chan struct{})
			var cout []byte
			var cerr error
			go func() { cout, cerr = cmd.CombinedOutput(); close(done) }()
			select {
			case <-done:
			case <-time.After(hard + 30*time.Second):
				cmd.Process.Kill()
				<-done
			}
			mu.Lock()
			defer mu.Unlock()
			b, rerr := os.ReadFile(out)
			if rerr != nil {
				// the worker died. When the code under test (which runs inside the worker) paniced in one of its own
				// goroutines or hit a fatal runtime error, that is what the check observed: a crash of the process.
				if v, ok := crashViolation(u.scn, string(cout)); ok {
					reps = append(reps, &workerReport{Scenario: u.scn, Complete: false, Violations: []violation{v},
						Outcomes: map[string]int64{"violation: " + v.Sig: 1}, ByClass: map[string]int64{}, EndReasons: map[string]int64{}})
					return
				}
				errs = append(errs, fmt.Sprintf("worker %s shard %d/%d produced no report: %v\n%s", u.scn, u.shard, u.n, cerr, tail(string(cout), 4000)))
				return
			}
			var wo workerOutput
			if err := json.Unmarshal(b, &wo); err != nil {
				errs = append(errs, fmt.Sprintf("worker %s: bad report: %v", u.scn, err))
				return
			}
			if job.Race {
				for _, v := range parseRaceLogs(raceLog, u.scn) {
					if len(wo.Reports) > 0 {
						wo.Reports[0].Violations = append(wo.Reports[0].Violations, v)
					}
				}
			}
			reps = append(reps, wo.Reports...)
		}(ui, u)
	}
	wg.Wait()
	return reps, errs
}

// crashViolation recognises a panic / fatal error of the repository's code in the output of a dead worker.
func crashViolation(scn, out string) (violation, bool) {
	i := strings.Index("\n"+out, "\npanic: ")
	kind := "panic"
	if i < 0 {
		i = strings.Index("\n"+out, "fatal error: ")
		kind = "fatal error"
	}
	if i < 0 {
		return violation{}, false
	}
	rest := ("\n" + out)[i:]
	msg := strings.TrimSpace(strings.SplitN(strings.TrimPrefix(strings.TrimPrefix(rest, "\n"), "panic: "), "\n", 2)[0])
	msg = strings.TrimPrefix(msg, "fatal error: ")
	if len(msg) > 80 {
		msg = msg[:80]
	}
	where := ""
	lines := strings.Split(rest, "\n")
	for li, line := range lines {
		t := strings.TrimSpace(line)
		if strings.HasPrefix(t, "github.com/samaritan-proxy/samaritan/") && !strings.Contains(t, "/verifrt/") {
			if li+1 < len(lines) && strings.Contains(lines[li+1], "zz_verif") {
				continue
			}
			fn := strings.TrimPrefix(t, "github.com/samaritan-proxy/samaritan/")
			if j := strings.LastIndex(fn, "("); j > 0 {
				fn = fn[:j]
			}
			where = " @ " + fn
			break
		}
	}
	if where == "" {
		return violation{}, false // not in the repository's code: an error of the machinery
	}
	return violation{Scenario: scn, Sig: "process-died / " + kind + ": " + msg + where,
		Detail: "the process running the code under test died:\n" + tail(rest, 3000), Replayed: true, Input: json.RawMessage(`{"crash":true}`)}, true
}

// parseRaceLogs turns the race detector's reports into violations (one per distinct pair of functions).
func parseRaceLogs(prefix, scn string) []violation {
	files, _ := filepath.Glob(prefix + ".*")
	seen := map[string]bool{}
	var out []violation
	for _, f := range files {
		b, err := os.ReadFile(f)
		if err != nil {
			continue
		}
		for _, blk := range strings.Split(string(b), "WARNING: DATA RACE")[1:] {
			// the two access stacks come first, separated by blank lines; of each the innermost frame in the
			// repository's own (non-generated, non-harness) code names the access
			var fns []string
			for si, stack := range strings.Split(blk, "\n\n") {
				if si >= 2 {
					break
				}
				name := "<harness>"
				lines := strings.Split(stack, "\n")
				for li, line := range lines {
					t := strings.TrimSpace(line)
					if !strings.HasPrefix(t, "github.com/samaritan-proxy/samaritan/") || strings.Contains(t, "/verifrt/") || strings.Contains(t, "/pb/") {
						continue
					}
					if li+1 < len(lines) && strings.Contains(lines[li+1], "zz_verif") {
						continue // a frame of the harness
					}
					fn := strings.TrimPrefix(t, "github.com/samaritan-proxy/samaritan/")
					if i := strings.Index(fn, "("); i > 0 && !strings.HasPrefix(fn[i:], "(*") {
						fn = fn[:i]
					}
					if i := strings.LastIndex(fn, "()"); i > 0 {
						fn = fn[:i]
					}
					if i := strings.Index(fn, ".func"); i > 0 {
						fn = fn[:i]
					}
					name = fn
					break
				}
				fns = append(fns, name)
			}
			sort.Strings(fns)
			if acceptedRace(fns) {
				continue
			}
			sig := "data-race / " + strings.Join(fns, " vs ")
			if seen[sig] {
				continue
			}
			seen[sig] = true
			if len(blk) > 2500 {
				blk = blk[:2500]
			}
			out = append(out, violation{Scenario: scn, Sig: sig, Detail: "the race detector reported unsynchronised accesses in a free-running run of the harness body:\nWARNING: DATA RACE" + blk, Replayed: true, Input: json.RawMessage(`{"race":true}`)})
		}
	}
	return out
}

// acceptedRace: unsynchronised accesses the repository makes on purpose and that the controlled scheduler
// explores through access points (rewrite.RacyFields) instead of relying on their absence:
//   - the slot table (upstream.slots, "it's safe in x86-64 platform") and the instances reachable from it,
//     written by the refresh, read by the routing of every request;
//   - the service configuration of the redis processor, swapped by a plain pointer write in config.Update and
//     read by request goroutines (the configuration objects themselves are built by the caller of the update,
//     in the race pass that is the harness);
//   - the TCP processor's configuration pointer and balancer, swapped the same way;
//   - the endpoint slice of a SvcAddEvent, which aliases the configuration store's own slice.
func acceptedRace(fns []string) bool {
	if len(fns) != 2 {
		return false
	}
	if fns[0] == "<harness>" && fns[1] == "<harness>" {
		return true // both accesses are the harness's own: nothing about the repository
	}
	slots := map[string]bool{"proc/redis.(*upstream).chooseHost": true, "proc/redis.(*upstream).doSlotsRefresh": true, "proc/redis.parseClusterNodes": true, "proc/redis.parseClusterNodesLine": true}
	if slots[fns[0]] && slots[fns[1]] && !(fns[0] == fns[1] && fns[0] == "proc/redis.(*upstream).chooseHost") {
		return true // (the table's readers do not write anything: two routing calls racing with each other are not this family)
	}
	cfgReaders := map[string]bool{"proc/redis.(*compressFilter).Do": true, "proc/redis.(*compressFilter).Compress": true, "proc/redis.(*upstream).chooseHost": true, "proc/redis.(*upstream).createClient": true, "proc/redis.(*config).Raw": true, "proc/redis.(*config).Update": true}
	for i := 0; i < 2; i++ {
		if (fns[i] == "proc/redis.(*config).Update" || fns[i] == "<harness>") && cfgReaders[fns[1-i]] {
			return true
		}
	}
	// the TCP processor does the same with its configuration pointer and its balancer (tcpProc.cfg, tcpProc.lb:
	// plain writes in OnSvcConfigUpdate, read by HandleConn/dial of every connection)
	tcpCfg := map[string]bool{"proc/tcp.(*tcpProc).HandleConn": true, "proc/tcp.(*tcpProc).dial": true, "proc/tcp.(*tcpProc).OnSvcConfigUpdate": true}
	for i := 0; i < 2; i++ {
		if (fns[i] == "proc/tcp.(*tcpProc).OnSvcConfigUpdate" || fns[i] == "<harness>") && tcpCfg[fns[1-i]] {
			return true
		}
	}
	// a SvcAddEvent aliases the store's endpoint slice (the store shifts/appends in place under its lock, the
	// controller reads the event without it)
	for i := 0; i < 2; i++ {
		if fns[i] == "controller.endpointsToHosts" && (fns[1-i] == "config.(*Config).handleSvcEndpointUpdate" || fns[1-i] == "<harness>") {
			return true
		}
	}
	return false
}

func tail(s string, n int) string {
	if len(s) <= n {
		return s
	}
	return "..." + s[len(s)-n:]
}

func loadKnown() []knownFinding {
	b, err := os.ReadFile(filepath.Join(verifDir, "known_findings.json"))
	if err != nil {
		return nil
	}
	var k []knownFinding
	if err := json.Unmarshal(b, &k); err != nil {
		fmt.Println("ERROR: known_findings.json:", err)
		os.Exit(2)
	}
	return k
}

func matchKnown(k []knownFinding, prop string, v violation) *knownFinding {
	for i := range k {
		f := &k[i]
		if f.Property != prop || f.Status != "known" {
			continue
		}
		if f.Scenario != "" && f.Scenario != v.Scenario {
			continue
		}
		if strings.HasSuffix(f.Sig, "*") {
			if strings.HasPrefix(v.Sig, strings.TrimSuffix(f.Sig, "*")) {
				return f
			}
		} else if f.Sig == v.Sig {
			return f
		}
	}
	return nil
}

func finish(chk *Check, tier string, seed int64, reps []*workerReport, errs []string, wall float64, full bool) int {
	known := loadKnown()
	type agg struct {
		Scenario    string           `json:"scenario"`
		Execs       int64            `json:"executions"`
		Steps       int64            `json:"scheduler_steps"`
		States      int64            `json:"states"`
		Transitions int64            `json:"transitions"`
		Choices     map[string]int64 `json:"choice_points_by_class,omitempty"`
		Outcomes    map[string]int64 `json:"outcomes"`
		Ends        map[string]int64 `json:"end_reasons,omitempty"`
		Complete    bool             `json:"exhaustive_within_bound"`
		BoundDone   json.RawMessage  `json:"bound_completed,omitempty"`
		BoundAsked  json.RawMessage  `json:"bound_requested,omitempty"`
		Workers     int              `json:"workers"`
		Distinct    int64            `json:"distinct_nontrivial,omitempty"`
		Rule        string           `json:"rule,omitempty"`
		Notes       []string         `json:"notes,omitempty"`
	}
	byScn := map[string]*agg{}
	var order []string
	samples := []interface{}{}
	perScn := map[string]int{}
	var viols []violation
	seenV := map[string]bool{}
	for _, r := range reps {
		a := byScn[r.Scenario]
		if a == nil {
			a = &agg{Scenario: r.Scenario, Choices: map[string]int64{}, Outcomes: map[string]int64{}, Ends: map[string]int64{}, Complete: true}
			byScn[r.Scenario] = a
			order = append(order, r.Scenario)
		}
		a.Workers++
		a.Execs += r.Execs
		a.Steps += r.Steps
		if r.States > 0 || r.Transitions > 0 {
			a.States += r.States
			a.Transitions += r.Transitions
		} else {
			a.States += r.StateHashes
			a.Transitions += r.Steps
		}
		a.Distinct += r.Distinct
		if r.Rule != "" {
			a.Rule = r.Rule
		}
		a.Notes = append(a.Notes, r.Notes...)
		for k, v := range r.ByClass {
			a.Choices[k] += v
		}
		for k, v := range r.Outcomes {
			a.Outcomes[k] += v
		}
		for k, v := range r.EndReasons {
			a.Ends[k] += v
		}
		if !r.Complete {
			a.Complete = false
		}
		a.BoundDone, a.BoundAsked = r.BoundDone, r.BoundAsked
		for _, s := range r.Samples {
			if perScn[r.Scenario] < 2 && len(samples) < 16 {
				perScn[r.Scenario]++
				samples = append(samples, map[string]interface{}{"scenario": r.Scenario, "case": s})
			}
		}
		for _, s := range r.CustomSamples {
			if perScn[r.Scenario] < 3 && len(samples) < 16 {
				perScn[r.Scenario]++
				samples = append(samples, map[string]interface{}{"scenario": r.Scenario, "case": s})
			}
		}
		for _, e := range r.Errors {
			errs = append(errs, r.Scenario+": "+e)
		}
		for _, v := range r.Violations {
			key := v.Scenario + "\x00" + v.Sig
			if seenV[key] {
				continue
			}
			seenV[key] = true
			viols = append(viols, v)
		}
	}
	sort.Strings(order)
	var aggs []*agg
	var execs, steps, states, trans, distinct int64
	exhaustive := true
	outcomeKinds := 0
	for _, s := range order {
		a := byScn[s]
		aggs = append(aggs, a)
		execs += a.Execs
		steps += a.Steps
		states += a.States
		trans += a.Transitions
		distinct += a.Distinct
		outcomeKinds += len(a.Outcomes)
		if !a.Complete {
			exhaustive = false
		}
	}
	// every scenario shows at least one concrete case
	for _, s := range order {
		if perScn[s] == 0 {
			a := byScn[s]
			one := "(no case recorded)"
			for k := range a.Outcomes {
				if one == "(no case recorded)" || k < one {
					one = k
				}
			}
			samples = append(samples, map[string]interface{}{"scenario": s, "case": map[string]interface{}{"observed_outcome": one, "executions": a.Execs}})
		}
	}
	sort.Slice(viols, func(i, j int) bool { return viols[i].Scenario+viols[i].Sig < viols[j].Scenario+viols[j].Sig })

	rc := 0
	nviol := 0
	var knownLines []string
	for _, v := range viols {
		if !v.Replayed {
			errs = append(errs, fmt.Sprintf("%s: violation %q did not replay identically (nondeterminism in harness)", v.Scenario, v.Sig))
			continue
		}
		if f := matchKnown(known, chk.ID, v); f != nil {
			line := fmt.Sprintf("KNOWN-FINDING: property=%s %s [%s: %s]", chk.ID, f.What, v.Scenario, v.Sig)
			fmt.Println(line)
			knownLines = append(knownLines, line)
			continue
		}
		nviol++
		v.Property = chk.ID
		dir := filepath.Join(envOr("VERIF_REPLAY_DIR", filepath.Join(verifDir, "replays")), chk.ID)
		os.MkdirAll(dir, 0o755)
		h := sha256.Sum256([]byte(v.Scenario + v.Sig))
		path := filepath.Join(dir, sanitize(v.Scenario)+"-"+hex.EncodeToString(h[:])[:10]+".json")
		b, _ := json.MarshalIndent(v, "", " ")
		os.WriteFile(path, b, 0o644)
		fmt.Printf("VIOLATION property=%s replay=%s\n", chk.ID, path)
		fmt.Printf("  scenario=%s signature=%s\n  %s\n", v.Scenario, v.Sig, strings.ReplaceAll(tail(v.Detail, 1500), "\n", "\n  "))
		rc = 1
	}
	if len(errs) > 0 && rc == 0 {
		for _, e := range errs {
			fmt.Println("ERROR:", e)
		}
		rc = 2
	}

	// evidence
	if distinct == 0 {
		distinct = states
	}
	rule := chk.Rule
	if rule == "" {
		rule = "schedule scenarios: every execution is one distinct choice sequence (schedule x environment answers x harness input) run on the real code, states = distinct choice sequences, transitions = scheduler steps; history scenarios: states = canonical states or distinct histories, transitions = operations applied; a case is non-trivial when it differs from every other case"
	}
	cov := map[string]interface{}{
		"states":                        states,
		"transitions":                   trans,
		"traces_validated_against_impl": execs,
		"evaluations":                   execs,
		"distinct_nontrivial":           distinct,
		"rule":                          rule,
		"samples":                       samples,
		"exhaustive":                    exhaustive,
		"scenarios":                     aggs,
		"distinct_outcome_kinds":        outcomeKinds,
		"known_findings_reported":       knownLines,
		"explanation":                   chk.LevelText,
	}
	ev := map[string]interface{}{
		"property_id": chk.ID,
		"tier":        tier,
		"seed":        seed,
		"level":       chk.Level,
		"coverage":    cov,
		"assumptions": chk.Assumptions,
		"wall_s":      wall,
		"violations":  nviol,
	}
	if rc != 2 && full { // a run restricted to one scenario does not describe the check
		// (VERIF_EVIDENCE_DIR: runs against a scratch copy of the repository, e.g. with a seeded change,
		// must not overwrite the evidence of the real tree)
		evDir := envOr("VERIF_EVIDENCE_DIR", filepath.Join(verifDir, "evidence"))
		os.MkdirAll(evDir, 0o755)
		b, _ := json.MarshalIndent(ev, "", " ")
		os.WriteFile(filepath.Join(evDir, chk.ID+".json"), append(b, '\n'), 0o644)
	}
	fmt.Printf("[%s %s] executions=%d states=%d transitions=%d exhaustive=%v violations=%d known=%d wall=%.1fs\n",
		chk.ID, tier, execs, states, trans, exhaustive, nviol, len(knownLines), wall)
	for _, a := range aggs {
		fmt.Printf("   %-34s execs=%-9d steps=%-11d outcomes=%d complete=%v bound=%s\n", a.Scenario, a.Execs, a.Steps, len(a.Outcomes), a.Complete, string(a.BoundDone))
		if os.Getenv("VCHECK_OUTCOMES") != "" {
			for k, v := range a.Outcomes {
				fmt.Printf("      outcome %q x%d\n", k, v)
			}
		}
	}
	return rc
}

func sanitize(s string) string {
	return strings.Map(func(r rune) rune {
		if r >= 'a' && r <= 'z' || r >= 'A' && r <= 'Z' || r >= '0' && r <= '9' || r == '-' || r == '_' {
			return r
		}
		return '_'
	}, s)
}

// ---- replay ----------------------------------------------------------------

func cmdReplay(args []string) int {
	if len(args) < 1 {
		usage()
	}
	b, err := os.ReadFile(args[0])
	if err != nil {
		fmt.Println("ERROR:", err)
		return 2
	}
	var v violation
	if err := json.Unmarshal(b, &v); err != nil {
		fmt.Println("ERROR:", err)
		return 2
	}
	work, err := prepare()
	if err != nil {
		fmt.Println("ERROR:", err)
		return 2
	}
	if strings.Contains(string(v.Input), `"race":true`) {
		rbin, err := buildTestMode(work, v.Pkg, true)
		if err != nil {
			fmt.Println("ERROR:", err)
			return 2
		}
		dir, _ := os.MkdirTemp(filepath.Join(verifDir, ".work"), "race")
		defer os.RemoveAll(dir)
		cmd := exec.Command(rbin, "-test.run", "^TestVerif$", "-test.count", "1")
		cmd.Dir = repoDir
		cmd.Env = append(os.Environ(), "VERIF_SCENARIO="+v.Scenario, "VERIF_RACE=1", "VERIF_RACE_RUNS=2000", "VERIF_PROCS=8", "VERIF_OUT="+filepath.Join(dir, "out.json"),
			"GORACE=log_path="+filepath.Join(dir, "race")+" halt_on_error=0 exitcode=0")
		cmd.CombinedOutput()
		for _, rv := range parseRaceLogs(filepath.Join(dir, "race"), v.Scenario) {
			fmt.Println(rv.Detail)
			if rv.Sig == v.Sig {
				fmt.Printf("REPLAY-REPRODUCED %s\nVIOLATION property=%s replay=%s\n", v.Sig, v.Property, args[0])
				return 1
			}
		}
		fmt.Println("REPLAY-NOT-REPRODUCED", v.Sig)
		return 0
	}
	bin, err := buildTest(work, v.Pkg)
	if err != nil {
		fmt.Println("ERROR:", err)
		return 2
	}
	abs, _ := filepath.Abs(args[0])
	cmd := exec.Command(bin, "-test.run", "^TestVerif$", "-test.v", "-test.count", "1")
	cmd.Dir = filepath.Join(repoDir, v.Pkg)
	if st, err := os.Stat(cmd.Dir); err != nil || !st.IsDir() {
		cmd.Dir = repoDir
	}
	cmd.Env = append(os.Environ(), "VERIF_REPLAY="+abs)
	out, _ := cmd.CombinedOutput()
	fmt.Print(string(out))
	if strings.Contains(string(out), "REPLAY-REPRODUCED") {
		fmt.Printf("VIOLATION property=%s replay=%s\n", v.Property, abs)
		return 1
	}
	return 0
}

// ---- manifest ----------------------------------------------------------------

func cmdManifest() int {
	type level struct {
		Category  string `json:"category"`
		Text      string `json:"text"`
		DesignRef string `json:"design_ref"`
	}
	type mcheck struct {
		PropertyID string `json:"property_id"`
		Quick      string `json:"quick_cmd"`
		Thorough   string `json:"thorough_cmd"`
		Evidence   string `json:"evidence_file"`
		Replay     string `json:"replay_cmd_template"`
		Engine     string `json:"engine"`
		Level      level  `json:"level_claimed"`
		Note       string `json:"level_note"`
		Technique  string `json:"technique"`
	}
	type na struct {
		PropertyID string `json:"property_id"`
		Reason     string `json:"reason"`
	}
	var mc []mcheck
	claimed := map[string]bool{}
	var served []string
	for _, c := range checks {
		if !strings.HasPrefix(c.ID, "C") {
			continue
		}
		claimed[c.ID] = true
		served = append(served, c.ID)
		mc = append(mc, mcheck{
			PropertyID: c.ID,
			Quick:      "/verif/run.sh " + c.ID + " quick",
			Thorough:   "/verif/run.sh " + c.ID + " thorough",
			Evidence:   "/verif/evidence/" + c.ID + ".json",
			Replay:     "/verif/run.sh replay {path}",
			Engine:     "gomc",
			Level:      level{Category: c.Level, Text: c.LevelText, DesignRef: "DESIGN.md section 5, " + c.ID},
			Note:       strings.Join(c.Assumptions, "; "),
			Technique:  c.Technique,
		})
	}
	var nas []na
	for i := 1; i <= 20; i++ {
		id := fmt.Sprintf("C%02d", i)
		if !claimed[id] {
			nas = append(nas, na{id, "check not built yet (model-checking harness planned in DESIGN.md section 5); not claimed"})
		}
	}
	m := map[string]interface{}{
		"version":   1,
		"setup_cmd": "cd /verif && ./setup.sh",
		"hooks": map[string]interface{}{
			"guard":            "verif",
			"enable":           "no hooks are committed to /repo: vcheck rewrites the sources of the current working tree into a build overlay (go test -overlay ... -tags verif) on every run",
			"baseline_off_cmd": "cd /repo && GOFLAGS=-mod=mod GOPROXY=off GOSUMDB=off GOTOOLCHAIN=local go test -json -vet=off -count=1 -timeout 25m ./...",
			"source_commits":   []string{},
			"add_only":         true,
		},
		"engines": []map[string]interface{}{{
			"name": "gomc", "path": "/verif/rt/sched + /verif/internal/rewrite + /verif/cmd/vcheck", "serves_properties": served,
			"kind_free_text": "hand-written stateless model checker for Go: source rewriter + controlled cooperative scheduler over real goroutines (preemption/deviation-bounded DFS, replayable choice lists), explicit-state BFS over operation histories with canonical-state de-duplication, bounded-exhaustive input enumeration",
		}},
		"checks":         mc,
		"not_applicable": nas,
		"notes":          "exit 0 = held on everything explored (KNOWN-FINDING lines allowed), 1 = VIOLATION, 2 = tooling ERROR. See DESIGN.md.",
	}
	if nas == nil {
		m["not_applicable"] = []na{}
	}
	b, _ := json.MarshalIndent(m, "", " ")
	if err := os.WriteFile(filepath.Join(verifDir, "MANIFEST.json"), append(b, '\n'), 0o644); err != nil {
		fmt.Println("ERROR:", err)
		return 2
	}
	return 0
}
