#!/bin/sh
# offline setup: build the driver, pre-build the instrumented test binaries, run the engine self-test
export GOFLAGS=-mod=mod GOPROXY=off GOSUMDB=off GOTOOLCHAIN=local
cd /verif || exit 2
mkdir -p bin evidence replays
go build -o bin/vcheck ./cmd/vcheck || exit 2
bin/vcheck build || exit 2
bin/vcheck run SELFTEST || exit 2
