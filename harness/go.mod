module verif-overlay-harness

go 1.21
