//go:build go1.21

package hotrestart

import (
	"bytes"
	"encoding/json"
	"fmt"
	"io"
	"net"
	"os"
	"strings"
	"sync"
	"syscall"
	"testing"
	"time"
	"unsafe"

	"github.com/samaritan-proxy/samaritan/verifrt/hutil"
	"github.com/samaritan-proxy/samaritan/verifrt/sched"
)

func TestVerif(t *testing.T) { hutil.Quiet(); sched.Main(t) }

// ---------------------------------------------------------------------------
// C17 (I) frames: the real readMessage/sendMessage over real unix sockets.
//
// alphabet  type in {0..10,255}; payload length n in [0,4100]; declared length in
//           {n-2..n+2, 0, 1, 4092..4096, 65535}; plus raw frames of 1 and 2 bytes
// oracle    no panic; a frame whose declared length exceeds the bytes it carries (or that the 4096-byte
//           read can hold) is rejected; anything accepted yields exactly (type, declared, payload[:declared]);
//           well-formed frames are accepted; sendMessage -> readMessage round-trips
// ---------------------------------------------------------------------------

var sockSeq int

func c17pair() (*net.UnixConn, *net.UnixConn, func()) {
	sockSeq++
	name := fmt.Sprintf("@verif_c17_%d_%d", os.Getpid(), sockSeq)
	l, err := net.ListenUnix("unix", &net.UnixAddr{Name: name, Net: "unix"})
	if err != nil {
		panic(err)
	}
	c, err := net.DialUnix("unix", nil, &net.UnixAddr{Name: name, Net: "unix"})
	if err != nil {
		panic(err)
	}
	s, err := l.AcceptUnix()
	if err != nil {
		panic(err)
	}
	return c, s, func() { c.Close(); s.Close(); l.Close() }
}

type c17frame struct {
	Type     int `json:"type"`
	N        int `json:"n"`
	Declared int `json:"declared"`
	Raw      int `json:"raw,omitempty"` // raw short frame of this many bytes
}

func c17payload(n int) []byte {
	b := make([]byte, n)
	for i := range b {
		b[i] = byte(1 + (i*7)%250)
	}
	return b
}

func c17class(f c17frame) string {
	switch {
	case f.Raw > 0:
		return "short-header"
	case f.Declared == f.N+1:
		return "declared=actual+1"
	case f.Declared > f.N:
		return "declared>actual"
	case f.Declared < f.N:
		return "declared<actual"
	case 3+f.N > 4096:
		return "larger-than-read-size"
	}
	return "well-formed"
}

// c17one sends one frame and reads it with the real readMessage.
func c17one(c, s *net.UnixConn, f c17frame) (sig, detail string) {
	var frame, payload []byte
	if f.Raw > 0 {
		frame = []byte{byte(f.Type), 0}[:f.Raw]
	} else {
		payload = c17payload(f.N)
		frame = append([]byte{byte(f.Type), byte(f.Declared >> 8), byte(f.Declared)}, payload...)
	}
	if _, err := c.Write(frame); err != nil {
		return "harness-write-failed", err.Error()
	}
	var msg *message
	var err error
	func() {
		defer func() {
			if r := recover(); r != nil {
				sig, detail = "panic / "+c17class(f), fmt.Sprintf("frame %+v: %v", f, r)
			}
		}()
		msg, err = readMessage(s)
	}()
	// drain what a 4096-byte read left behind
	if rest := len(frame) - 4096; rest > 0 {
		buf := make([]byte, rest)
		s.SetReadDeadline(time.Now().Add(5 * time.Second))
		for got := 0; got < rest; {
			n, e := s.Read(buf[got:])
			if e != nil {
				return "harness-drain-failed", e.Error()
			}
			got += n
		}
		s.SetReadDeadline(time.Time{})
	}
	if sig != "" {
		return
	}
	avail := len(frame) - 3
	if len(frame) > 4096 {
		avail = 4093
	}
	if f.Raw > 0 {
		if err == nil {
			return "accepted-frame-without-header", fmt.Sprintf("frame of %d bytes accepted as %+v", f.Raw, msg)
		}
		return "", ""
	}
	if f.Declared > avail {
		if err == nil {
			return "accepted-truncated-frame / " + c17class(f), fmt.Sprintf("frame %+v carries %d payload bytes but declares %d; accepted with data len %d (last byte %v)", f, avail, f.Declared, len(msg.Data), msg.Data[len(msg.Data)-1:])
		}
		return "", ""
	}
	if err != nil {
		if f.Declared == f.N && len(frame) <= 4096 {
			return "rejected-well-formed-frame", fmt.Sprintf("frame %+v: %v", f, err)
		}
		return "", "" // carrying more than declared may be rejected
	}
	if int(msg.Type) != f.Type || int(msg.Len) != f.Declared || !bytes.Equal(msg.Data, payload[:f.Declared]) {
		return "decoded-frame-differs / " + c17class(f), fmt.Sprintf("frame %+v decoded as type %d len %d data-ok=%v", f, msg.Type, msg.Len, bytes.Equal(msg.Data, payload[:min(f.Declared, len(payload))]))
	}
	return "", ""
}

func c17frames(env sched.Env) *sched.Report {
	rep := &sched.Report{Outcomes: map[string]int64{}, Complete: true}
	c, s, done := c17pair()
	defer done()
	sigs := map[string]bool{}
	types := []int{0, 1, 2, 3, 4, 5, 6, 7, 8, 9, 10, 255}
	step := 1
	run := func(f c17frame) {
		rep.Execs++
		sched.Progress(nil)
		sched.Progress(f)
		sig, detail := c17one(c, s, f)
		rep.Outcomes[c17class(f)]++
		if sig != "" {
			if !sigs[sig] {
				sigs[sig] = true
				rep.Violations = append(rep.Violations, sched.CustomViolation("C17/frames", sig, detail, f))
			}
			if sig[:5] == "panic" || sig[:7] == "harness" {
				// socket state is unknown after a panic: start over with a fresh pair
				done()
				c, s, done = c17pair()
			}
		}
	}
	for ti, typ := range types {
		if ti%env.NShards != env.Shard {
			continue
		}
		run(c17frame{Type: typ, Raw: 1})
		run(c17frame{Type: typ, Raw: 2})
		for n := 0; n <= 4100; n += step {
			decl := map[int]bool{0: true, 1: true, 4092: true, 4093: true, 4094: true, 4095: true, 4096: true, 65535: true}
			for d := n - 2; d <= n+2; d++ {
				if d >= 0 {
					decl[d] = true
				}
			}
			for d := range decl {
				run(c17frame{Type: typ, N: n, Declared: d})
			}
		}
	}
	// round trip through the real sender
	var held *message
	var heldWant []byte
	if env.Shard == 0 {
		for typ := 0; typ <= 10; typ++ {
			for n := 0; n <= 4093; n++ {
				rep.Execs++
				sched.Progress(nil)
				p := append([]byte{}, c17payload(n)...)
				if n%2 == 1 {
					for i := range p {
						p[i] ^= 0xff // consecutive frames differ in every byte
					}
				}
				if err := sendMessage(c, &message{Type: messageType(typ), Len: uint16(n), Data: p}); err != nil {
					continue
				}
				m, err := readMessage(s)
				if err != nil || int(m.Type) != typ || int(m.Len) != n || !bytes.Equal(m.Data, p) {
					sig := "round-trip-differs"
					if !sigs[sig] {
						sigs[sig] = true
						rep.Violations = append(rep.Violations, sched.CustomViolation("C17/frames", sig, fmt.Sprintf("type %d len %d: err %v", typ, n, err), c17frame{Type: typ, N: n, Declared: n}))
					}
				}
				// a frame that was received keeps its content while the next frame is received
				if held != nil && !bytes.Equal(held.Data, heldWant) {
					sig := "received-frame-changed-by-a-later-read"
					if !sigs[sig] {
						sigs[sig] = true
						rep.Violations = append(rep.Violations, sched.CustomViolation("C17/frames", sig, fmt.Sprintf("the payload (%d bytes) of the frame received before changed when the next frame (type %d len %d) was read", len(heldWant), typ, n), c17frame{Type: typ, N: n, Declared: n}))
					}
				}
				if err == nil {
					held, heldWant = m, p
				}
			}
		}
	}
	rep.Distinct = rep.Execs
	rep.Rule = "each evaluation is a distinct (type, payload length, declared length) frame sent in one write and read by the real readMessage; classes: well-formed, declared>actual, declared<actual, larger than the 4096-byte read, short header"
	rep.CustomSamples = []interface{}{c17frame{Type: 1, N: 2, Declared: 3}, c17frame{Type: 7, N: 4093, Declared: 4094}, c17frame{Type: 255, N: 10, Declared: 8}}
	return rep
}

// ---------------------------------------------------------------------------
// C17 (H) hand-over: the real Restarter over a scripted Instance.
//
// alphabet  requests admin | localconf | drain | terminate | unknown(99) ; sequences up to length 4/5;
//           a first child that drops after k requests (k = 0..len) or mid-request (header only),
//           or sends a malformed frame, or sends a request and is gone before its reply can be written,
//           followed by a second child doing the full sequence; a child that sends a malformed frame before its
//           k-th request and carries on (the request is written once the frame was taken); every type byte 0..255 that is not a request;
//           a child connecting while accept fails with EMFILE (own process with a lowered descriptor limit)
// oracle    one instance call per request, in request order; each acknowledged with the matching reply
//           type; unknown -> unknown reply; the second child completes
// ---------------------------------------------------------------------------

type scriptedInst struct {
	mu    sync.Mutex
	id    int
	calls []string
	gate  chan struct{} // when set, the next step waits for it (the requesting child goes away meanwhile)
	slow  time.Duration // every step takes that long (draining listeners, flushing configuration ... take time)
	began chan string   // when set, receives the name of every step as it begins
}

func (s *scriptedInst) ID() int       { return s.id }
func (s *scriptedInst) ParentID() int { return 0 }
func (s *scriptedInst) log(c string) {
	s.mu.Lock()
	g := s.gate
	s.gate = nil
	s.mu.Unlock()
	if g != nil {
		<-g
	}
	if s.began != nil {
		s.began <- c
	}
	if s.slow > 0 && c != "kill" {
		time.Sleep(s.slow)
	}
	s.mu.Lock()
	s.calls = append(s.calls, c)
	s.mu.Unlock()
}
func (s *scriptedInst) ShutdownAdmin()     { s.log("admin") }
func (s *scriptedInst) DrainListeners()    { s.log("drain") }
func (s *scriptedInst) ShutdownLocalConf() { s.log("localconf") }
func (s *scriptedInst) Shutdown()          { s.log("shutdown") }
func (s *scriptedInst) snapshot() []string {
	s.mu.Lock()
	defer s.mu.Unlock()
	return append([]string{}, s.calls...)
}

type reqKind struct {
	name  string
	typ   messageType
	reply messageType
	call  string
}

var reqKinds = []reqKind{
	{"admin", shutdownAdminReq, shutdownAdminReply, "admin"},
	{"localconf", shutdownLocalConfReq, shutdownLocalConfReply, "localconf"},
	{"drain", drainListenersReq, drainListenersReply, "drain"},
	{"terminate", terminateReq, terminateReply, "kill"},
	{"unknown", messageType(99), unknownReply, ""},
}

type c17seq struct {
	Seq  []int  `json:"seq"`
	Drop string `json:"drop,omitempty"` // "", "after:k", "header:k", "garbage:k"
	// Dies: the terminate signal takes effect (sequences that end with the terminate request only)
	Dies bool `json:"dies,omitempty"`
	K    int  `json:"k,omitempty"`
	// SlowMs: every hand-over step of the old process takes that long
	SlowMs int `json:"slow_ms,omitempty"`
	// Pipelined: the child does not wait for an acknowledgement before it sends its next request: it sends it as soon
	// as the old process has begun the step before (so that the frames are never merged into one read), and reads the
	// acknowledgements at the end
	Pipelined bool `json:"pipelined,omitempty"`
}

var instSeq int

// c17acceptErrorChild (own process: it plays with the descriptor limit): a child connects to the control socket
// while the old process is out of file descriptors - accept fails with EMFILE, a temporary error -, gives up and
// disappears; once descriptors are available again a later child must get its requests performed and acknowledged.
func c17acceptErrorChild(in json.RawMessage) string {
	inst := &scriptedInst{id: (os.Getpid()%100000)*10000 + 4242}
	r, err := New(inst)
	if err != nil {
		return ""
	}
	defer r.Shutdown()
	first, err := syscall.Socket(syscall.AF_UNIX, syscall.SOCK_STREAM|syscall.SOCK_CLOEXEC, 0)
	if err != nil {
		return ""
	}
	var old syscall.Rlimit
	if syscall.Getrlimit(syscall.RLIMIT_NOFILE, &old) != nil {
		return ""
	}
	lim := old
	if lim.Cur > 256 {
		lim.Cur = 256
	}
	if syscall.Setrlimit(syscall.RLIMIT_NOFILE, &lim) != nil {
		return ""
	}
	var hogs []int
	for {
		fd, err := syscall.Open("/dev/null", syscall.O_RDONLY|syscall.O_CLOEXEC, 0)
		if err == syscall.EINTR {
			continue
		}
		if err != nil {
			break
		}
		hogs = append(hogs, fd)
	}
	if err := syscall.Connect(first, &syscall.SockaddrUnix{Name: genDomainSocketName(inst.id)}); err != nil {
		return ""
	}
	time.Sleep(400 * time.Millisecond) // several accept attempts fail meanwhile
	syscall.Close(first)
	for _, fd := range hogs {
		syscall.Close(fd)
	}
	syscall.Setrlimit(syscall.RLIMIT_NOFILE, &old)
	time.Sleep(300 * time.Millisecond)
	c, err := net.DialUnix("unix", nil, &net.UnixAddr{Name: genDomainSocketName(inst.id), Net: "unix"})
	if err != nil {
		return "later-child-cannot-connect / after accept ran out of descriptors"
	}
	defer c.Close()
	for _, k := range []reqKind{reqKinds[0], reqKinds[2]} {
		if err := sendMessage(c, &message{Type: k.typ}); err != nil {
			return "send-failed / after accept ran out of descriptors"
		}
		c.SetReadDeadline(time.Now().Add(5 * time.Second))
		m, err := readMessage(c)
		if err != nil || m.Type != k.reply {
			return "no-acknowledgement / " + k.name + " / after accept ran out of descriptors"
		}
	}
	if calls := inst.snapshot(); len(calls) != 2 {
		return "steps-differ-from-requests / after accept ran out of descriptors"
	}
	return ""
}

func c17typeClass(t int) string {
	switch {
	case t == 0:
		return "0"
	case t <= int(unknownReply):
		return "a reply type"
	}
	return "beyond the defined types"
}

func c17handover(cs c17seq) (sig, detail string) {
	instSeq++
	inst := &scriptedInst{id: (os.Getpid()%100000)*10000 + instSeq%10000, slow: time.Duration(cs.SlowMs) * time.Millisecond}
	var killMu sync.Mutex
	oldKill := kill
	var r *Restarter
	kill = func(pid int, sg syscall.Signal) error {
		killMu.Lock()
		defer killMu.Unlock()
		inst.log("kill")
		if cs.Dies && r != nil {
			// the signal really arrives: the process's handler shuts the instance down, which closes the
			// control socket and the children's connections, while the request handler is still running
			go r.Shutdown()
			select {
			case <-r.quit:
			case <-time.After(2 * time.Second):
			}
			time.Sleep(20 * time.Millisecond)
		}
		return nil
	}
	defer func() { kill = oldKill }()
	var err error
	r, err = New(inst)
	if err != nil {
		return "harness-restarter-new-failed", err.Error()
	}
	defer r.Shutdown()
	dial := func() *net.UnixConn {
		c, err := net.DialUnix("unix", nil, &net.UnixAddr{Name: genDomainSocketName(inst.id), Net: "unix"})
		if err != nil {
			return nil
		}
		return c
	}
	exchange := func(c *net.UnixConn, k reqKind) (string, string) {
		if err := sendMessage(c, &message{Type: k.typ}); err != nil {
			return "send-failed", err.Error()
		}
		c.SetReadDeadline(time.Now().Add(30 * time.Second))
		m, err := readMessage(c)
		if err != nil {
			return "no-acknowledgement / " + k.name, err.Error()
		}
		if m.Type != k.reply {
			return "wrong-reply-type / " + k.name, fmt.Sprintf("got reply type %d want %d", m.Type, k.reply)
		}
		return "", ""
	}
	var want []string
	if cs.Drop == "alltypes" {
		// every type byte that is not one of the four requests, on one connection: each gets the unknown reply
		c := dial()
		if c == nil {
			return "first-child-cannot-connect", ""
		}
		defer c.Close()
		for t := 0; t <= 255; t++ {
			mt := messageType(t)
			if mt == shutdownAdminReq || mt == shutdownLocalConfReq || mt == drainListenersReq || mt == terminateReq {
				continue
			}
			if s, d := exchange(c, reqKind{"unknown", mt, unknownReply, ""}); s != "" {
				return s + fmt.Sprintf(" / type byte class %s", c17typeClass(t)), fmt.Sprintf("type byte %d: %s", t, d)
			}
		}
		if calls := inst.snapshot(); len(calls) != 0 {
			return "instance-step-for-unknown-request", fmt.Sprint(calls)
		}
		return "", ""
	}
	if cs.Drop != "" && !strings.HasSuffix(cs.Drop, "-stays") {
		c1 := dial()
		if c1 == nil {
			return "first-child-cannot-connect", ""
		}
		for i := 0; i < cs.K && i < len(cs.Seq); i++ {
			k := reqKinds[cs.Seq[i]]
			if s, d := exchange(c1, k); s != "" {
				return s + " / first child", d
			}
			if k.call != "" {
				want = append(want, k.call)
			}
			if k.call == "kill" {
				for w := 0; w < 3000 && len(inst.snapshot()) < len(want); w++ {
					time.Sleep(10 * time.Millisecond)
				}
			}
		}
		switch cs.Drop {
		case "noreply":
			// the child sends a request and is gone before the reply can be written: the step still counts,
			// the reply cannot be delivered
			g := make(chan struct{})
			inst.mu.Lock()
			inst.gate = g
			inst.mu.Unlock()
			k := reqKinds[cs.Seq[cs.K%len(cs.Seq)]]
			if k.call == "" || k.call == "kill" {
				k = reqKinds[0]
			}
			sendMessage(c1, &message{Type: k.typ})
			want = append(want, k.call)
			c1.Close()
			time.Sleep(20 * time.Millisecond)
			close(g)
			for w := 0; w < 3000 && len(inst.snapshot()) < len(want); w++ {
				time.Sleep(10 * time.Millisecond)
			}
		case "header":
			c1.Write([]byte{byte(shutdownAdminReq), 0})
		case "garbage":
			c1.Write([]byte{byte(shutdownAdminReq), 0xff, 0xff, 1, 2, 3})
		}
		c1.Close()
	}
	c2 := dial()
	if c2 == nil {
		return "second-child-cannot-connect", ""
	}
	defer c2.Close()
	if cs.Pipelined {
		// every request is written before any acknowledgement is read: the steps must still be performed one after
		// the other in request order, and acknowledged in that order
		inst.mu.Lock()
		inst.began = make(chan string, 16)
		inst.mu.Unlock()
		for _, ki := range cs.Seq {
			if err := sendMessage(c2, &message{Type: reqKinds[ki].typ}); err != nil {
				return "send-failed / pipelined requests", err.Error()
			}
			if reqKinds[ki].call != "" {
				select {
				case <-inst.began:
				case <-time.After(10 * time.Second):
					return "step-not-begun / pipelined requests", fmt.Sprintf("%v: step %s did not begin within 10 s", cs.Seq, reqKinds[ki].name)
				}
			} else {
				time.Sleep(30 * time.Millisecond) // (no step to wait for: give the old process time to read the frame)
			}
		}
		for i, ki := range cs.Seq {
			k := reqKinds[ki]
			c2.SetReadDeadline(time.Now().Add(30 * time.Second))
			// (the acknowledgements may arrive merged: this child reads the stream frame by frame)
			hdr := make([]byte, 3)
			_, err := io.ReadFull(c2, hdr)
			m := &message{Type: messageType(hdr[0]), Len: uint16(hdr[1])<<8 | uint16(hdr[2])}
			if err == nil && m.Len > 0 {
				m.Data = make([]byte, m.Len)
				_, err = io.ReadFull(c2, m.Data)
			}
			if err != nil {
				return "no-acknowledgement / " + k.name + " / pipelined requests", fmt.Sprintf("request %d of %v: %v", i, cs.Seq, err)
			}
			if m.Type != k.reply {
				return "acknowledgements-out-of-order / pipelined requests", fmt.Sprintf("request %d of %v (%s): got reply type %d want %d; steps so far %v", i, cs.Seq, k.name, m.Type, k.reply, inst.snapshot())
			}
			if k.call != "" {
				want = append(want, k.call)
			}
		}
		for w := 0; w < 300 && len(inst.snapshot()) < len(want); w++ {
			time.Sleep(10 * time.Millisecond)
		}
		if got := inst.snapshot(); fmt.Sprint(got) != fmt.Sprint(want) {
			return "steps-out-of-order-or-missing / pipelined requests", fmt.Sprintf("%v: instance saw %v want %v", cs.Seq, got, want)
		}
		return "", ""
	}
	for i, ki := range cs.Seq {
		k := reqKinds[ki]
		if strings.HasSuffix(cs.Drop, "-stays") && i == cs.K {
			// the child sends a malformed frame and stays: the frame is rejected and the requests that follow on the same
			// connection are performed and acknowledged as usual. The next request is only written once the old process
			// has taken the malformed frame out of the socket (so that the two are never merged into one read); if
			// that cannot be observed the case is left out.
			if cs.Drop == "header-stays" {
				c2.Write([]byte{byte(shutdownAdminReq), 0})
			} else {
				c2.Write([]byte{byte(shutdownAdminReq), 0xff, 0xff, 1, 2, 3})
			}
			if !c17waitTaken(c2, 10*time.Second) {
				return "", ""
			}
		}
		if s, d := exchange(c2, k); s != "" {
			who := ""
			if strings.HasSuffix(cs.Drop, "-stays") {
				who = " / after a malformed frame on the same connection"
			} else if cs.Drop != "" {
				who = " / after a dropped child (" + cs.Drop + ")"
			}
			return s + who, fmt.Sprintf("request %d of %v: %s", i, cs.Seq, d)
		}
		if k.call != "" {
			want = append(want, k.call)
		}
		got := inst.snapshot()
		// terminate is acknowledged before the signal is sent (the process is about to die), so the
		// kill may lag behind its acknowledgement; it must have happened before the next request is read.
		if k.call == "kill" && fmt.Sprint(got) == fmt.Sprint(want[:len(want)-1]) {
			for w := 0; w < 3000; w++ {
				time.Sleep(10 * time.Millisecond)
				if got = inst.snapshot(); len(got) == len(want) {
					break
				}
			}
		}
		if fmt.Sprint(got) != fmt.Sprint(want) {
			return "steps-differ-from-requests / " + k.name, fmt.Sprintf("after request %d of %v: instance saw %v want %v", i, cs.Seq, got, want)
		}
	}
	return "", ""
}

// c17waitTaken waits until the peer has read everything this end wrote (the socket's count of unread sent bytes,
// SIOCOUTQ, is back to zero); false if that did not happen in time or the count is not available.
func c17waitTaken(c *net.UnixConn, limit time.Duration) bool {
	rc, err := c.SyscallConn()
	if err != nil {
		return false
	}
	deadline := time.Now().Add(limit)
	for time.Now().Before(deadline) {
		var n int32 = -1
		var errno syscall.Errno
		rc.Control(func(fd uintptr) {
			_, _, errno = syscall.Syscall(syscall.SYS_IOCTL, fd, uintptr(syscall.TIOCOUTQ), uintptr(unsafe.Pointer(&n)))
		})
		if errno != 0 {
			return false
		}
		if n == 0 {
			return true
		}
		time.Sleep(time.Millisecond)
	}
	return false
}

func c17sequences(env sched.Env) *sched.Report {
	rep := &sched.Report{Outcomes: map[string]int64{}, Complete: true}
	maxLen := 4
	if env.Tier == "thorough" {
		maxLen = 5
	}
	sigs := map[string]bool{}
	n := 0
	if env.Shard == 0 {
		rep.Execs++
		sched.Progress(nil)
		acs := c17seq{Drop: "accept-error"}
		if res := sched.RunIsolated("C17/handover", acs, 60*time.Second, 1024); res.Sig != "" {
			sigs[res.Sig] = true
			rep.Violations = append(rep.Violations, sched.CustomViolation("C17/handover", res.Sig, res.Detail, acs))
		}
		rep.Execs++
		sched.Progress(nil)
		cs := c17seq{Drop: "alltypes"}
		if sig, detail := c17handover(cs); sig != "" {
			sigs[sig] = true
			rep.Violations = append(rep.Violations, sched.CustomViolation("C17/handover", sig, detail, cs))
		}
	}
	var rec func(seq []int)
	rec = func(seq []int) {
		if len(seq) > 0 {
			var cases []c17seq
			cases = append(cases, c17seq{Seq: seq})
			if reqKinds[seq[len(seq)-1]].call == "kill" {
				terminates := 0
				for _, k := range seq {
					if reqKinds[k].call == "kill" {
						terminates++
					}
				}
				if terminates == 1 {
					cases = append(cases, c17seq{Seq: seq, Dies: true})
				}
			}
			// a child that does not wait for the acknowledgements (steps of 150 ms, so that a step is still running when
			// the next request is read)
			allSteps := true
			for _, k := range seq {
				allSteps = allSteps && reqKinds[k].call != ""
			}
			if len(seq) >= 2 && len(seq) <= 3 && allSteps { // (an unknown request has no step to wait for: its frame could be merged with the next one)
				cases = append(cases, c17seq{Seq: seq, Pipelined: true, SlowMs: 150})
			}
			// steps that take their time: each single step, and the full hand-over
			if len(seq) == 1 && reqKinds[seq[0]].call != "" && reqKinds[seq[0]].call != "kill" || fmt.Sprint(seq) == "[0 1 2 3]" {
				cases = append(cases, c17seq{Seq: seq, SlowMs: 1300})
				if env.Tier == "thorough" {
					cases = append(cases, c17seq{Seq: seq, SlowMs: 3500})
				}
			}
			if len(seq) <= 3 {
				for k := 0; k <= len(seq); k++ {
					cases = append(cases, c17seq{Seq: seq, Drop: "after", K: k}, c17seq{Seq: seq, Drop: "header", K: k}, c17seq{Seq: seq, Drop: "garbage", K: k})
					if k < len(seq) {
						cases = append(cases, c17seq{Seq: seq, Drop: "header-stays", K: k}, c17seq{Seq: seq, Drop: "garbage-stays", K: k})
					}
					if len(seq) <= 2 {
						cases = append(cases, c17seq{Seq: seq, Drop: "noreply", K: k})
					}
				}
			}
			for _, cs := range cases {
				n++
				if n%env.NShards != env.Shard {
					continue
				}
				if sched.PastDeadline(env.Deadline) {
					rep.Complete = false
					return
				}
				rep.Execs++
				sched.Progress(nil)
				rep.Transitions += int64(len(cs.Seq))
				sched.Progress(cs)
				sig, detail := c17handover(cs)
				if sig != "" {
					rep.Outcomes["violation: "+sig]++
					if !sigs[sig] {
						sigs[sig] = true
						rep.Violations = append(rep.Violations, sched.CustomViolation("C17/handover", sig, detail, cs))
					}
				} else {
					rep.Outcomes["ok"]++
				}
			}
		}
		if len(seq) == maxLen {
			return
		}
		for k := range reqKinds {
			rec(append(append([]int{}, seq...), k))
		}
	}
	rec(nil)
	rep.States = rep.Execs
	rep.Distinct = rep.Execs
	rep.CustomSamples = []interface{}{c17seq{Seq: []int{0, 1, 2, 3}}, c17seq{Seq: []int{2, 4}, Drop: "header", K: 1}}
	return rep
}

func init() {
	sched.Register(&sched.Scenario{Name: "C17/frames", Custom: c17frames, ReplayCustom: func(in json.RawMessage) []sched.Failure {
		var f c17frame
		json.Unmarshal(in, &f)
		c, s, done := c17pair()
		defer done()
		sig, detail := c17one(c, s, f)
		fmt.Printf("frame %+v -> %s %s\n", f, sig, detail)
		if sig == "" {
			return nil
		}
		return []sched.Failure{{Sig: sig, Detail: detail}}
	}})
	sched.Register(&sched.Scenario{Name: "C17/handover", Custom: c17sequences, Child: c17acceptErrorChild, ReplayCustom: func(in json.RawMessage) []sched.Failure {
		var cs c17seq
		json.Unmarshal(in, &cs)
		sig, detail := c17handover(cs)
		fmt.Printf("case %+v -> %s %s\n", cs, sig, detail)
		if sig == "" {
			return nil
		}
		return []sched.Failure{{Sig: sig, Detail: detail}}
	}})
}
