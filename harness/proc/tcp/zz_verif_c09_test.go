//go:build go1.21

package tcp

import (
	"fmt"
	"strings"

	"github.com/samaritan-proxy/samaritan/host"
	"github.com/samaritan-proxy/samaritan/pb/config/service"
	"github.com/samaritan-proxy/samaritan/proc"
	"github.com/samaritan-proxy/samaritan/verifrt/sched"
	"github.com/samaritan-proxy/samaritan/verifrt/vnet"
)

// ---------------------------------------------------------------------------
// C09 (S) tcp processor stop: the real tcpProc with its real listener on the virtual network.
//
// alphabet  sessions 0 | 1 idle relayed connection | 2 connections ; relays established | still connecting to the
//           backend when Stop is called (the connects complete afterwards) ; backend well behaved (finishes when the
//           proxy finishes) | unresponsive (never reads, writes or closes) ; action Stop | StopListen then Stop
// bound     P, F, Sel (see Setup); the idle-timeout deadline is a virtual timer the harness lets fire, so
//           "bounded time" = at most the configured idle timeout
// oracle    Stop returns; the port is closed; every downstream and upstream connection of the proxy is closed;
//           no goroutine of the processor is left; after StopListen no later client is served
// ---------------------------------------------------------------------------

func c09tcpBody() {
	nconn := sched.Choose(sched.ClsInput, 3, "connections")
	backend := []string{"well-behaved", "unresponsive"}[sched.Choose(sched.ClsInput, 2, "backend")]
	action := []string{"stop", "drain+stop"}[sched.Choose(sched.ClsInput, 2, "action")]
	connecting := nconn > 0 && sched.Choose(sched.ClsInput, 2, "stop while the connects to the backend are in progress") == 1
	restore := proc.VerifSetListenFunc(vnet.Listen)
	sched.OnReset(restore)
	addr := "10.4.0.1:80"
	ln, _ := vnet.Listen("tcp", addr)
	sched.GoServer("backend", func() {
		for {
			c, err := ln.Accept()
			if err != nil {
				return
			}
			vc := c.(*vnet.VConn)
			vc.Label = "backend"
			if backend == "well-behaved" {
				sched.GoServer("backend-conn", func() {
					buf := make([]byte, 64)
					for {
						if _, err := vc.Read(buf); err != nil {
							vc.Close()
							return
						}
					}
				})
			}
		}
	})
	p := vfTCPProc(vfTCPConfig(service.LoadBalancePolicy_ROUND_ROBIN, 0), host.New(addr))
	p.Start()
	sched.WaitQuiescent()
	if connecting {
		vnet.HoldDials(true, addr) // the backend is slow to accept: the connects complete only after Stop was called
	}
	for i := 0; i < nconn; i++ {
		c, err := vnet.DialConn(vfTCPAddr)
		if err != nil {
			sched.Fail("harness-dial", err.Error())
		}
		c.Label = "client"
		c.Write([]byte("hello"))
	}
	sched.WaitQuiescent()
	stopped, drained := false, false
	sched.GoNamed("stopper", func() {
		if action == "drain+stop" {
			p.StopListen()
			drained = true
		}
		p.Stop()
		stopped = true
	})
	if connecting {
		sched.WaitQuiescent()
		vnet.HoldDials(false)
	}
	sched.Settle(4) // lets the idle-timeout deadlines expire if Stop depends on them
	tag := fmt.Sprintf("connections=%d backend=%s action=%s connecting=%v", nconn, backend, action, connecting)
	_ = drained
	if !stopped {
		var who []string
		for _, b := range sched.LiveNonServer() {
			who = append(who, b.Name+":"+b.Kind)
		}
		sched.Fail("tcp-stop-never-returns / backend "+backend, fmt.Sprintf("%s; threads left: %s", tag, strings.Join(who, ", ")))
	}
	if vnet.Bound(vfTCPAddr) {
		sched.Fail("listening-socket-left-open-after-stop / tcp", tag)
	}
	for _, vc := range vnet.Conns() {
		if vc.Label == "client" || vc.Label == "backend" {
			continue
		}
		if !vc.IsClosed() && !vc.WasReset() {
			sched.Fail("connection-left-open-after-stop / tcp", fmt.Sprintf("%s: %s", tag, vc))
		}
	}
	for _, b := range sched.LiveNonServer() {
		sched.Fail("goroutine-left-after-stop / tcp / "+b.Name, fmt.Sprintf("%s: %s parked in %s", tag, b.Name, b.Kind))
	}
	sched.SetOutcome(tag)
}

func init() {
	sched.Register(&sched.Scenario{Name: "C09/tcp-stop", Setup: func(tier string) (sched.Config, func()) {
		b := sched.Bounds{P: 1, F: 1, Sel: 1}
		if tier == "thorough" {
			b = sched.Bounds{P: 2, F: 2, Sel: 1}
		}
		return sched.Config{Bounds: b, Iterative: true, MaxSteps: 100000}, c09tcpBody
	}})
}
