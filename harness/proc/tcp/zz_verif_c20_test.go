//go:build go1.21

package tcp

import (
	"fmt"

	"github.com/samaritan-proxy/samaritan/host"
	"github.com/samaritan-proxy/samaritan/pb/config/service"
	"github.com/samaritan-proxy/samaritan/proc"
	"github.com/samaritan-proxy/samaritan/verifrt/sched"
	"github.com/samaritan-proxy/samaritan/verifrt/vnet"
)

// ---------------------------------------------------------------------------
// C20 (H) tcp: traffic and fault histories on the real TCP processor with its real listener.
//
// alphabet  connect | disconnect oldest client | backend a down | backend a up | remove host a | backend closes its
//           connections ; connection limit 2 ; ending: close every client | Stop with the clients still open
// bound     depth (quick 4, thorough 5)
// oracle    downstream and upstream: active-connection gauge back to its start value, total = destroyed;
//           no gauge below its start value at any quiescent point
// ---------------------------------------------------------------------------

var c20tcpOps = []string{"connect", "disconnect", "backend-down", "backend-up", "remove-host", "backend-closes"}

type c20tcpSnap struct{ dT, dD, dA, uT, uD, uA uint64 }

func c20tcpTake(p *tcpProc) c20tcpSnap {
	d, u := p.stats.Downstream, p.stats.Upstream
	return c20tcpSnap{d.CxTotal.Value(), d.CxDestroyTotal.Value(), d.CxActive.Value(), u.CxTotal.Value(), u.CxDestroyTotal.Value(), u.CxActive.Value()}
}

func c20tcpBody(depth int) func() {
	return func() {
		restore := proc.VerifSetListenFunc(vnet.Listen)
		sched.OnReset(restore)
		addrA, addrB := "10.3.0.1:80", "10.3.0.2:80"
		var lnA vnet.Listener
		var backendConns []*vnet.VConn
		serve := func(addr string) vnet.Listener {
			ln, _ := vnet.Listen("tcp", addr)
			sched.GoServer("backend-"+addr, func() {
				for {
					c, err := ln.Accept()
					if err != nil {
						return
					}
					vc := c.(*vnet.VConn)
					backendConns = append(backendConns, vc)
					// a backend finishes its side once the client side is finished
					sched.GoServer("backend-conn", func() {
						buf := make([]byte, 64)
						for {
							if _, err := vc.Read(buf); err != nil {
								vc.Close()
								return
							}
						}
					})
				}
			})
			return ln
		}
		lnA = serve(addrA)
		serve(addrB)
		p := vfTCPProc(vfTCPConfig(service.LoadBalancePolicy_ROUND_ROBIN, 2), host.New(addrA), host.New(addrB))
		start := c20tcpTake(p)
		p.Start()
		sched.WaitQuiescent()
		var clients []*vnet.VConn
		var hist []string
		ending := []string{"close-clients", "stop-with-open-clients"}[sched.Choose(sched.ClsInput, 2, "ending")]
		aDown := false
		for step := 0; step < depth; step++ {
			op := c20tcpOps[sched.Choose(sched.ClsInput, len(c20tcpOps), "op")]
			hist = append(hist, op)
			switch op {
			case "connect":
				if c, err := vnet.DialConn(vfTCPAddr); err == nil {
					c.Label = "client"
					clients = append(clients, c)
				}
			case "disconnect":
				for _, c := range clients {
					if !c.IsClosed() {
						c.Close()
						break
					}
				}
			case "backend-down":
				if !aDown {
					lnA.Close()
					aDown = true
				}
			case "backend-up":
				if aDown {
					lnA = serve(addrA)
					aDown = false
				}
			case "remove-host":
				p.OnSvcHostRemove([]*host.Host{host.New(addrA)})
			case "backend-closes":
				for _, c := range backendConns {
					if !c.IsClosed() {
						c.Close()
					}
				}
			}
			sched.WaitQuiescent()
			now := c20tcpTake(p)
			if int64(now.dA-start.dA) < 0 || int64(now.uA-start.uA) < 0 {
				sched.Fail("active-connection-gauge-below-zero / tcp", fmt.Sprintf("history %v", hist))
			}
		}
		judge := func(when string) {
			now := c20tcpTake(p)
			where := fmt.Sprintf("history %v, %s", hist, when)
			if now.dA != start.dA {
				sched.Fail("active-connection-gauge-not-zero / tcp downstream / "+when, fmt.Sprintf("%s: gauge moved by %d", where, int64(now.dA-start.dA)))
			}
			if t, d := now.dT-start.dT, now.dD-start.dD; t != d {
				sched.Fail("connections-total-differs-from-destroyed / tcp downstream / "+when, fmt.Sprintf("%s: total %d destroyed %d", where, t, d))
			}
			if now.uA != start.uA {
				sched.Fail("active-connection-gauge-not-zero / tcp upstream / "+when, fmt.Sprintf("%s: gauge moved by %d", where, int64(now.uA-start.uA)))
			}
			if t, d := now.uT-start.uT, now.uD-start.uD; t != d {
				sched.Fail("connections-total-differs-from-destroyed / tcp upstream / "+when, fmt.Sprintf("%s: total %d destroyed %d", where, t, d))
			}
		}
		if ending == "close-clients" {
			for _, c := range clients {
				if !c.IsClosed() {
					c.Close()
				}
			}
			sched.WaitQuiescent()
			judge("all clients closed")
		}
		stopped := false
		sched.GoNamed("stopper", func() { p.Stop(); stopped = true })
		sched.WaitQuiescent()
		if stopped {
			if ending == "close-clients" {
				judge("after stop")
			} else {
				judge("stopped with connections open")
			}
		}
		sched.SetOutcome(ending)
	}
}

func init() {
	sched.Register(&sched.Scenario{Name: "C20/tcp", Setup: func(tier string) (sched.Config, func()) {
		d := 4
		if tier == "thorough" {
			d = 5
		}
		return sched.Config{Bounds: sched.Bounds{}, MaxSteps: 200000}, c20tcpBody(d)
	}})
}

// ---------------------------------------------------------------------------
// C20 (S) two relayed connections end at the same moment (both clients close, their host is removed, the backend
// closes them, or the service is stopped): the accounting of one connection must not disturb the other's.
//
// bound     all schedules P1 F1 (quick) / P2 F1 (thorough) from the moment the connections end; plain reads and
//           writes of statistic values are scheduling points of their own, and a thread arriving at one is run last
//           (sched.YieldAt)
// oracle    afterwards (and after Stop) the active gauges are back, totals equal destroyed, both sides
// ---------------------------------------------------------------------------

func c20tcpConcurrentBody() {
	sched.SetQuiet(true)
	how := []string{"clients-close", "host-removed", "backend-closes", "stop"}[sched.Choose(sched.ClsInput, 4, "ending")]
	restore := proc.VerifSetListenFunc(vnet.Listen)
	sched.OnReset(restore)
	addr := "10.3.0.1:80"
	var backendConns []*vnet.VConn
	ln, _ := vnet.Listen("tcp", addr)
	sched.GoServer("backend", func() {
		for {
			c, err := ln.Accept()
			if err != nil {
				return
			}
			vc := c.(*vnet.VConn)
			backendConns = append(backendConns, vc)
			sched.GoServer("backend-conn", func() {
				buf := make([]byte, 64)
				for {
					if _, err := vc.Read(buf); err != nil {
						vc.Close()
						return
					}
				}
			})
		}
	})
	p := vfTCPProc(vfTCPConfig(service.LoadBalancePolicy_ROUND_ROBIN, 0), host.New(addr))
	start := c20tcpTake(p)
	p.Start()
	sched.WaitQuiescent()
	var clients []*vnet.VConn
	for i := 0; i < 2; i++ {
		c, err := vnet.DialConn(vfTCPAddr)
		if err != nil {
			sched.Fail("harness-dial", err.Error())
			return
		}
		c.Label = "client"
		c.Write([]byte("hello"))
		clients = append(clients, c)
	}
	sched.WaitQuiescent()
	sched.SetQuiet(false)
	// a thread about to read or overwrite a statistic value directly (not through an atomic add) is run last
	sched.YieldAt("stats.")
	stopped := false
	switch how {
	case "clients-close":
		for _, c := range clients {
			c.Close()
		}
	case "host-removed":
		p.OnSvcHostRemove([]*host.Host{host.New(addr)})
	case "backend-closes":
		for _, c := range backendConns {
			c.Close()
		}
	case "stop":
		sched.GoNamed("stopper", func() { p.Stop(); stopped = true })
	}
	sched.WaitQuiescent()
	sched.SetQuiet(true)
	for _, c := range clients {
		if !c.IsClosed() {
			c.Close()
		}
	}
	sched.WaitQuiescent()
	if how != "stop" {
		sched.GoNamed("stopper", func() { p.Stop(); stopped = true })
		sched.WaitQuiescent()
	}
	if !stopped {
		return // a hanging Stop belongs to C09
	}
	now := c20tcpTake(p)
	where := fmt.Sprintf("two connections ending at once (%s)", how)
	if now.dA != start.dA {
		sched.Fail("active-connection-gauge-not-zero / tcp downstream / connections ending at once", fmt.Sprintf("%s: gauge moved by %d", where, int64(now.dA-start.dA)))
	}
	if now.uA != start.uA {
		sched.Fail("active-connection-gauge-not-zero / tcp upstream / connections ending at once", fmt.Sprintf("%s: gauge moved by %d", where, int64(now.uA-start.uA)))
	}
	if t, d := now.dT-start.dT, now.dD-start.dD; t != d {
		sched.Fail("connections-total-differs-from-destroyed / tcp downstream / connections ending at once", fmt.Sprintf("%s: total %d destroyed %d", where, t, d))
	}
	if t, d := now.uT-start.uT, now.uD-start.uD; t != d {
		sched.Fail("connections-total-differs-from-destroyed / tcp upstream / connections ending at once", fmt.Sprintf("%s: total %d destroyed %d", where, t, d))
	}
	sched.SetOutcome(how)
}

func init() {
	sched.Register(&sched.Scenario{Name: "C20/tcp-concurrent-close", Setup: func(tier string) (sched.Config, func()) {
		b := sched.Bounds{P: 1, F: 1}
		if tier == "thorough" {
			b = sched.Bounds{P: 2, F: 1}
		}
		return sched.Config{Bounds: b, Iterative: true, MaxSteps: 200000}, c20tcpConcurrentBody
	}})
}
