//go:build go1.21

package tcp

import (
	"fmt"
	"sort"
	"strings"
	"time"

	"github.com/samaritan-proxy/samaritan/host"
	pbhc "github.com/samaritan-proxy/samaritan/pb/config/hc"
	"github.com/samaritan-proxy/samaritan/pb/config/service"
	"github.com/samaritan-proxy/samaritan/verifrt/sched"
	"github.com/samaritan-proxy/samaritan/verifrt/vnet"
	"github.com/samaritan-proxy/samaritan/verifrt/vrand"
)

// ---------------------------------------------------------------------------
// C06 (H): membership / health histories interleaved with connection arrivals on the real TCP processor.
//
// hosts     a, b main; c backup (each a virtual backend recording what it accepts)
// alphabet  add h | remove h (also announced with the other type) | replace-all {a} / {b,c} / {a,b,c} (fresh objects) | mark h unhealthy | mark h healthy | a late health result
//           for the host object a had at the start (stale once a was removed or re-added) | client connects |
//           oldest client disconnects ; policy round robin | random | least connection (every random outcome)
//           membership changes use fresh host objects that only carry the address, as the controller does
// bound     depth (quick 3, thorough 4)
// oracle    every connection is relayed to a member that is marked healthy in the preferred tier at selection
//           time (backup only when no main host is healthy); with no usable host the client connection is
//           closed; when a host is removed every established connection to it is closed on both sides; a connection
//           relayed to a usable member is not closed by the proxy
// ---------------------------------------------------------------------------

var c06addrs = map[string]string{"a": "10.2.0.1:80", "b": "10.2.0.2:80", "c": "10.2.0.3:80"}
var c06types = map[string]host.Type{"a": host.TypeMain, "b": host.TypeMain, "c": host.TypeBackup}

type c06backend struct {
	name  string
	conns []*vnet.VConn
}

type c06conn struct {
	client  *vnet.VConn
	backend string
	bconn   *vnet.VConn
}

type c06world struct {
	p        *tcpProc
	backends map[string]*c06backend
	members  map[string]bool
	healthy  map[string]bool
	conns    []*c06conn
	nconn    int
	// types: the type each address was announced with last (the registry may announce a member again with another one)
	types map[string]host.Type
}

func c06setup(policy service.LoadBalancePolicy, initial []string) *c06world {
	w := &c06world{backends: map[string]*c06backend{}, members: map[string]bool{}, healthy: map[string]bool{}, types: map[string]host.Type{}}
	for n, t := range c06types {
		w.types[n] = t
	}
	for _, n := range []string{"a", "b", "c"} {
		be := &c06backend{name: n}
		w.backends[n] = be
		ln, _ := vnet.Listen("tcp", c06addrs[n])
		sched.GoServer("backend-"+n, func() {
			for {
				c, err := ln.Accept()
				if err != nil {
					return
				}
				vc := c.(*vnet.VConn)
				vc.Label = "backend-" + be.name
				be.conns = append(be.conns, vc)
			}
		})
	}
	var hs []*host.Host
	for _, n := range initial {
		hs = append(hs, host.NewWithType(c06addrs[n], c06types[n]))
		w.members[n], w.healthy[n] = true, true
	}
	w.p = vfTCPProc(vfTCPConfig(policy, 0), hs...)
	return w
}

func (w *c06world) usable() []string {
	var main, backup []string
	for n := range w.members {
		if !w.healthy[n] {
			continue
		}
		if w.types[n] == host.TypeMain {
			main = append(main, n)
		} else {
			backup = append(backup, n)
		}
	}
	if len(main) > 0 {
		sort.Strings(main)
		return main
	}
	sort.Strings(backup)
	return backup
}

func (w *c06world) stored(n string) *host.Host {
	for _, h := range w.p.hostSet.All() {
		if h.Addr == c06addrs[n] {
			return h
		}
	}
	return nil
}

// connect opens one client connection and reports which backend got it ("" = client was closed).
func (w *c06world) connect() *c06conn {
	w.nconn++
	client, proxySide := vnet.Pipe()
	client.Label, proxySide.Label = fmt.Sprintf("client%d", w.nconn), "proxy-downstream"
	before := map[string]int{}
	for n, be := range w.backends {
		before[n] = len(be.conns)
	}
	sched.GoNamed(fmt.Sprintf("HandleConn%d", w.nconn), func() { w.p.HandleConn(proxySide); proxySide.Close() })
	sched.WaitQuiescent()
	c := &c06conn{client: client}
	for n, be := range w.backends {
		if len(be.conns) > before[n] {
			c.backend = n
			c.bconn = be.conns[len(be.conns)-1]
		}
	}
	return c
}

func c06histBody(depth int) func() {
	return func() {
		vrand.RandIsInput()
		vrand.IntRange = 6
		sched.OnReset(func() { vrand.IntRange = 1 })
		policy := []service.LoadBalancePolicy{service.LoadBalancePolicy_ROUND_ROBIN, service.LoadBalancePolicy_RANDOM, service.LoadBalancePolicy_LEAST_CONNECTION}[sched.Choose(sched.ClsInput, 3, "policy")]
		w := c06setup(policy, []string{"a", "b", "c"})
		var hist []string
		ops := []string{"add a", "add b", "add c", "remove a", "remove b", "remove c", "remove-as-other-type a", "replace {a}", "replace {b,c}", "replace {a,b,c}", "remove a,b", "remove b,a", "unhealthy a", "unhealthy b", "unhealthy c", "healthy a", "healthy b", "connect", "disconnect", "late-unhealthy a", "late-healthy a", "re-add a", "connect-first-dial-fails", "re-add-as-other-type a", "config-update", "config-update-rejected", "flap a"}
		// round robin: while neither membership nor health changes, any len(usable) consecutive selections visit every
		// usable host once (configuration updates that keep the policy do not disturb the rotation)
		var rrWindow []string
		lastUsable := strings.Join(w.usable(), ",")
		// the host object a health check started on at the beginning; its late results must not count once the
		// address was removed or re-added as a fresh object
		origA := w.stored("a")
		for step := 0; step < depth; step++ {
			op := ops[sched.Choose(sched.ClsInput, len(ops), "op")]
			hist = append(hist, op)
			f := strings.Fields(op)
			// (the rotation is only required to go on while the usable hosts stay what they are: an event that leaves
			// them unchanged - a backup's health while main hosts serve, a member announced again, a removal of an
			// address that is no member - does not disturb it)
			if cur := strings.Join(w.usable(), ","); cur != lastUsable {
				rrWindow = nil
				lastUsable = cur
			}
			switch f[0] {
			case "flap":
				// one failed health check result and then a passing one between two connections
				if h := w.stored(f[1]); h != nil {
					w.p.hostSet.MarkHostUnhealthy(h)
					w.p.hostSet.MarkHostHealthy(h)
					w.healthy[f[1]] = true
					rrWindow = nil
				}
			case "config-update-rejected":
				// an update that changes the balancing policy and carries a health check the monitor rejects (the send
				// string of its checker is not a quoted string): it is refused as a whole, the service keeps reporting
				// and using the policy it had
				other := service.LoadBalancePolicy_RANDOM
				if policy == service.LoadBalancePolicy_RANDOM {
					other = service.LoadBalancePolicy_ROUND_ROBIN
				}
				cfg := vfTCPConfig(other, 0)
				cfg.HealthCheck = &pbhc.HealthCheck{Interval: 10 * time.Second, Timeout: time.Second, RiseThreshold: 1, FallThreshold: 1,
					Checker: &pbhc.HealthCheck_AtcpChecker{AtcpChecker: &pbhc.ATCPChecker{Action: []*pbhc.ATCPChecker_Action{{Send: []byte("hello"), Expect: []byte(`"x"`)}}}}}
				if err := w.p.OnSvcConfigUpdate(cfg); err == nil {
					sched.Fail("harness-config-update-not-rejected", fmt.Sprintf("%s history %v", policy, hist))
				}
				if got := w.p.Config().GetLbPolicy(); got != policy {
					sched.Fail("reported-policy-changed-by-rejected-update", fmt.Sprintf("%s history %v: the service now reports %s", policy, hist, got))
				}
			case "config-update":
				// a configuration update that keeps the balancing policy (another idle timeout)
				cfg := vfTCPConfig(policy, 0)
				cfg.IdleTimeout = vfDur(time.Duration(11+step) * time.Minute)
				if err := w.p.OnSvcConfigUpdate(cfg); err != nil {
					sched.Fail("harness-config-update", err.Error())
				}
			case "re-add-as-other-type":
				// the registry announces a member again, now with the other type (main <-> backup)
				if w.members[f[1]] {
					other := host.TypeBackup
					if w.types[f[1]] == host.TypeBackup {
						other = host.TypeMain
					}
					w.p.OnSvcHostAdd([]*host.Host{host.NewWithType(c06addrs[f[1]], other)})
					w.types[f[1]] = other
					w.healthy[f[1]] = true
				}
			case "add":
				if !w.members[f[1]] {
					w.p.OnSvcHostAdd([]*host.Host{host.NewWithType(c06addrs[f[1]], c06types[f[1]])})
					w.members[f[1]], w.healthy[f[1]] = true, true
					w.types[f[1]] = c06types[f[1]]
				}
			case "re-add":
				// the registry announces a member again: the controller hands over a fresh object for the address
				if w.members[f[1]] {
					w.p.OnSvcHostAdd([]*host.Host{host.NewWithType(c06addrs[f[1]], c06types[f[1]])})
					w.healthy[f[1]] = true
					w.types[f[1]] = c06types[f[1]]
				}
			case "connect-first-dial-fails":
				// the first connect attempt of this connection is refused and, while it is pending, another usable
				// host is marked unhealthy: whatever the proxy does next, it must not relay to a host that is not
				// usable any more
				us := w.usable()
				if len(us) < 2 {
					break
				}
				failed := false
				var marked string
				vnet.SetDialHook(func(addr string) error {
					if failed {
						return nil
					}
					failed = true
					for _, n := range us {
						if c06addrs[n] != addr {
							marked = n
							w.p.hostSet.MarkHostUnhealthy(w.stored(n))
							w.healthy[n] = false
							break
						}
					}
					return vnet.ErrRefused
				})
				c := w.connect()
				vnet.SetDialHook(nil)
				w.conns = append(w.conns, c)
				if c.backend != "" {
					ok := false
					for _, u := range w.usable() {
						ok = ok || u == c.backend
					}
					if !ok {
						sched.Fail("connection-relayed-to-unhealthy-host / after a refused first connect", fmt.Sprintf("%s history %v: %s was marked unhealthy while the first connect was pending, the connection was then relayed to %s", policy, hist, marked, c.backend))
					}
				}
			case "remove-as-other-type":
				// the registry announces the removal with a descriptor whose type differs from the stored host's
				other := host.TypeBackup
				if w.types[f[1]] == host.TypeBackup {
					other = host.TypeMain
				}
				w.p.OnSvcHostRemove([]*host.Host{host.NewWithType(c06addrs[f[1]], other)})
				delete(w.members, f[1])
				delete(w.healthy, f[1])
			case "remove":
				var hs []*host.Host
				for _, n := range strings.Split(f[1], ",") {
					hs = append(hs, host.NewWithType(c06addrs[n], c06types[n]))
					delete(w.members, n)
					delete(w.healthy, n)
				}
				w.p.OnSvcHostRemove(hs)
			case "replace":
				var hs []*host.Host
				names := strings.Split(strings.Trim(f[1], "{}"), ",")
				for _, n := range names {
					hs = append(hs, host.NewWithType(c06addrs[n], c06types[n]))
				}
				w.p.OnSvcAllHostReplace(hs)
				w.members, w.healthy = map[string]bool{}, map[string]bool{}
				for _, n := range names {
					w.members[n], w.healthy[n] = true, true
					w.types[n] = c06types[n]
				}
			case "unhealthy", "healthy":
				if h := w.stored(f[1]); h != nil {
					if f[0] == "unhealthy" {
						w.p.hostSet.MarkHostUnhealthy(h)
					} else {
						w.p.hostSet.MarkHostHealthy(h)
					}
					w.healthy[f[1]] = f[0] == "healthy"
				}
			case "late-unhealthy", "late-healthy":
				cur := w.stored("a")
				if f[0] == "late-unhealthy" {
					w.p.hostSet.MarkHostUnhealthy(origA)
				} else {
					w.p.hostSet.MarkHostHealthy(origA)
				}
				if cur == origA {
					w.healthy["a"] = f[0] == "late-healthy"
				}
			case "connect":
				us := w.usable()
				c := w.connect()
				w.conns = append(w.conns, c)
				switch {
				case len(us) == 0 && c.backend != "":
					sched.Fail("connection-relayed-although-no-usable-host", fmt.Sprintf("%s history %v: relayed to %s", policy, hist, c.backend))
				case len(us) == 0:
					if !c.client.Peer().IsClosed() {
						sched.Fail("client-not-closed-when-no-usable-host", fmt.Sprintf("%s history %v", policy, hist))
					}
				case c.backend == "":
					sched.Fail("connection-not-relayed-although-a-host-is-usable", fmt.Sprintf("%s history %v: usable %v", policy, hist, us))
				default:
					ok := false
					for _, u := range us {
						if u == c.backend {
							ok = true
						}
					}
					if ok && (c.client.Peer().IsClosed() || c.bconn.Peer().IsClosed()) {
						sched.Fail("connection-to-usable-host-closed-at-once", fmt.Sprintf("%s history %v: relayed to %s, which is a usable member, but the proxy closed the connection right away (downstream closed=%v upstream closed=%v)", policy, hist, c.backend, c.client.Peer().IsClosed(), c.bconn.Peer().IsClosed()))
					}
					if ok && policy == service.LoadBalancePolicy_ROUND_ROBIN {
						rrWindow = append(rrWindow, c.backend)
						if n := len(us); len(rrWindow) >= n {
							seen := map[string]bool{}
							for _, b := range rrWindow[len(rrWindow)-n:] {
								seen[b] = true
							}
							if len(seen) != n {
								sched.Fail("round-robin-rotation-disturbed / unchanged hosts", fmt.Sprintf("history %v: the last %d selections %v do not visit each of the usable hosts %v once", hist, n, rrWindow[len(rrWindow)-n:], us))
							}
						}
					}
					if !ok {
						why := "connection-relayed-to-unusable-host"
						switch {
						case !w.members[c.backend]:
							why = "connection-relayed-to-removed-host"
						case !w.healthy[c.backend]:
							why = "connection-relayed-to-unhealthy-host"
						case w.types[c.backend] == host.TypeBackup:
							why = "connection-relayed-to-backup-while-main-is-healthy"
						}
						sched.Fail(why, fmt.Sprintf("%s history %v: relayed to %s, usable %v", policy, hist, c.backend, us))
					}
				}
			case "disconnect":
				for _, c := range w.conns {
					if c.backend != "" && !c.client.IsClosed() {
						c.client.Close()
						break
					}
				}
			}
			sched.WaitQuiescent()
			// the per-host connection count (what least-connection compares) never exceeds the established connections
			open := map[string]uint64{}
			for _, c := range w.conns {
				if c.backend != "" && !c.bconn.Peer().IsClosed() { // (the proxy's own end of the upstream connection)
					open[c.backend]++
				}
			}
			for _, n := range []string{"a", "b", "c"} {
				if !w.members[n] {
					continue
				}
				// (a member announced again is a fresh object that starts counting at 0: fewer is tolerated, more is not)
				if h := w.stored(n); h != nil && h.ConnCount() > open[n] {
					sched.Fail("host-counted-with-more-connections-than-established", fmt.Sprintf("%s history %v: host %s is counted with %d connections, %d are established", policy, hist, n, h.ConnCount(), open[n]))
				}
			}
			// connections to hosts that are not members any more must be closed on both sides
			for _, c := range w.conns {
				if c.backend == "" || w.members[c.backend] || c.client.IsClosed() {
					continue
				}
				if !c.client.Peer().IsClosed() || !c.bconn.Peer().IsClosed() {
					sched.Fail("connection-to-removed-host-left-open", fmt.Sprintf("%s history %v: connection to %s (downstream closed=%v upstream closed=%v)", policy, hist, c.backend, c.client.Peer().IsClosed(), c.bconn.Peer().IsClosed()))
				}
			}
		}
		sched.SetOutcome(policy.String())
	}
}

// C06 (S): one connection arrival racing one membership / health change.
func c06raceBody() {
	vrand.RandIsInput()
	vrand.IntRange = 6
	sched.OnReset(func() { vrand.IntRange = 1 })
	policy := []service.LoadBalancePolicy{service.LoadBalancePolicy_ROUND_ROBIN, service.LoadBalancePolicy_LEAST_CONNECTION}[sched.Choose(sched.ClsInput, 2, "policy")]
	change := []string{"remove a", "unhealthy a", "replace {b,c}", "remove a+b", "replace {c,a,b}", "policy update"}[sched.Choose(sched.ClsInput, 6, "change")]
	w := c06setup(policy, []string{"a", "b", "c"})
	before := w.usable()
	client, proxySide := vnet.Pipe()
	client.Label, proxySide.Label = "client", "proxy-downstream"
	sched.GoNamed("HandleConn", func() { w.p.HandleConn(proxySide); proxySide.Close() })
	sched.GoNamed("change", func() {
		switch change {
		case "remove a":
			w.p.OnSvcHostRemove([]*host.Host{host.New(c06addrs["a"])})
			delete(w.members, "a")
		case "unhealthy a":
			w.p.hostSet.MarkHostUnhealthy(w.stored("a"))
			w.healthy["a"] = false
		case "replace {b,c}":
			w.p.OnSvcAllHostReplace([]*host.Host{host.NewWithType(c06addrs["b"], host.TypeMain), host.NewWithType(c06addrs["c"], host.TypeBackup)})
			delete(w.members, "a")
		case "policy update": // the balancing policy (and with it the configuration pointer) is swapped at run time
			np := service.LoadBalancePolicy_LEAST_CONNECTION
			if policy == np {
				np = service.LoadBalancePolicy_RANDOM
			}
			if err := w.p.OnSvcConfigUpdate(vfTCPConfig(np, 0)); err != nil {
				sched.Fail("config-update-rejected / tcp", err.Error())
			}
		case "replace {c,a,b}": // the backup host is listed first
			w.p.OnSvcAllHostReplace([]*host.Host{host.NewWithType(c06addrs["c"], host.TypeBackup), host.NewWithType(c06addrs["a"], host.TypeMain), host.NewWithType(c06addrs["b"], host.TypeMain)})
		case "remove a+b":
			w.p.OnSvcHostRemove([]*host.Host{host.New(c06addrs["a"]), host.New(c06addrs["b"])})
			delete(w.members, "a")
			delete(w.members, "b")
		}
	})
	sched.WaitQuiescent()
	after := w.usable()
	got := ""
	var bconn *vnet.VConn
	for n, be := range w.backends {
		if len(be.conns) > 0 {
			got, bconn = n, be.conns[0]
		}
	}
	allowed := map[string]bool{}
	for _, u := range append(before, after...) {
		allowed[u] = true
	}
	if got != "" && !allowed[got] {
		sched.Fail("connection-relayed-to-unusable-host / racing "+change, fmt.Sprintf("%s: relayed to %s, usable before %v after %v", policy, got, before, after))
	}
	if got == "" && !client.Peer().IsClosed() {
		sched.Fail("client-neither-relayed-nor-closed / racing "+change, policy.String())
	}
	if got != "" && !w.members[got] && (!client.Peer().IsClosed() || !bconn.Peer().IsClosed()) {
		sched.Fail("connection-to-removed-host-left-open / racing "+change, fmt.Sprintf("%s: connection to %s stays open (downstream closed=%v upstream closed=%v)", policy, got, client.Peer().IsClosed(), bconn.Peer().IsClosed()))
	}
	sched.SetOutcome(fmt.Sprintf("%s %s -> %s", policy, change, got))
}

func init() {
	sched.Register(&sched.Scenario{Name: "C06/histories", Setup: func(tier string) (sched.Config, func()) {
		d := 3
		if tier == "thorough" {
			d = 4
		}
		return sched.Config{Bounds: sched.Bounds{}, MaxSteps: 100000}, c06histBody(d)
	}})
	sched.Register(&sched.Scenario{Name: "C06/race", Setup: func(tier string) (sched.Config, func()) {
		b := sched.Bounds{P: 1, F: 1, Sel: 1}
		if tier == "thorough" {
			b = sched.Bounds{P: 2, F: 1, Sel: 1}
		}
		return sched.Config{Bounds: b, Iterative: true, MaxSteps: 100000}, c06raceBody
	}})
}
