//go:build go1.21

package tcp

import (
	"bytes"
	"fmt"
	"io"
	"net"
	"strings"
	"testing"
	"time"

	"github.com/samaritan-proxy/samaritan/host"
	"github.com/samaritan-proxy/samaritan/pb/common"
	"github.com/samaritan-proxy/samaritan/pb/config/protocol"
	"github.com/samaritan-proxy/samaritan/pb/config/service"
	"github.com/samaritan-proxy/samaritan/proc"
	"github.com/samaritan-proxy/samaritan/proc/internal/log"
	"github.com/samaritan-proxy/samaritan/stats"
	"github.com/samaritan-proxy/samaritan/verifrt/hutil"
	"github.com/samaritan-proxy/samaritan/verifrt/sched"
	"github.com/samaritan-proxy/samaritan/verifrt/vnet"
	vsync "github.com/samaritan-proxy/samaritan/verifrt/vsync"
)

func TestVerif(t *testing.T) { hutil.Quiet(); sched.Main(t) }

func vfDur(d time.Duration) *time.Duration { return &d }

var vfTCPStats = proc.NewStats(stats.CreateScope("service.verif-tcp"))

const vfTCPAddr = "127.0.0.1:7100"

func vfTCPConfig(policy service.LoadBalancePolicy, limit uint32) *service.Config {
	return &service.Config{
		Listener:       &service.Listener{Address: &common.Address{Ip: "127.0.0.1", Port: 7100}, ConnectionLimit: limit},
		ConnectTimeout: vfDur(time.Second),
		IdleTimeout:    vfDur(10 * time.Minute),
		Protocol:       protocol.TCP,
		LbPolicy:       policy,
	}
}

// vfTCPProc builds the real TCP processor dialling through the virtual network.
func vfTCPProc(cfg *service.Config, hosts ...*host.Host) *tcpProc {
	old := dialTimeout
	dialTimeout = func(network, address string, timeout time.Duration) (net.Conn, error) {
		c, err := vnet.Dial(network, address)
		if err == nil {
			c.(*vnet.VConn).Label = "proxy-upstream"
		}
		return c, err
	}
	sched.OnReset(func() { dialTimeout = old })
	p, err := newProc("verif", cfg, hosts, vfTCPStats, log.New("[verif]"))
	if err != nil {
		panic(err)
	}
	return p
}

func pattern(n int, seed byte) []byte {
	b := make([]byte, n)
	for i := range b {
		b[i] = byte(i*131>>3) ^ byte(i) ^ seed
	}
	return b
}

// ---------------------------------------------------------------------------
// C05 (S)+(I): one relayed connection through the real HandleConn / pipeConn with pooled buffers.
//
// alphabet  stream lengths client->backend and backend->client from {0,1,16383,16384,16385,40000} (quick: a
//           subset of the pairs), position dependent content; writer chunk sizes {whole, 4096, and 1 / 7 for
//           streams <= 64 bytes}; who finishes first: client half-closes | backend half-closes | both |
//           client closes fully; copy buffer size 16 KiB or shrunk to 8 bytes (more loop iterations)
// bound     P, F (see Setup); read sizes as ENV deviations in the thorough tier
// oracle    each side receives exactly the bytes the other side sent, in order; end-of-stream only after the
//           last byte; after one direction ended the other direction's bytes still arrive
// ---------------------------------------------------------------------------

var c05lens = []int{0, 1, 16383, 16384, 16385, 40000}

func c05body(tier string) func() {
	return func() {
		pairs := [][2]int{{0, 0}, {1, 1}, {16384, 0}, {0, 16385}, {16383, 16385}, {40000, 1}, {1, 40000}, {40000, 40000}, {16385, 16384}, {64, 33}}
		if tier == "thorough" {
			pairs = nil
			for _, a := range c05lens {
				for _, b := range c05lens {
					pairs = append(pairs, [2]int{a, b})
				}
			}
			pairs = append(pairs, [2]int{64, 33}, [2]int{7, 64})
		}
		pr := pairs[sched.Choose(sched.ClsInput, len(pairs), "lengths")]
		chunkMode := sched.Choose(sched.ClsInput, 3, "chunks") // 0 whole, 1 4096, 2 small (1 and 7)
		order := []string{"client-first", "backend-first", "both", "client-full-close"}[sched.Choose(sched.ClsInput, 4, "finish")]
		smallBuf := sched.Choose(sched.ClsInput, 2, "bufsize") == 1
		if tier == "thorough" {
			vnet.EnableShortReads()
		}
		if chunkMode == 2 && (pr[0] > 64 || pr[1] > 64) {
			chunkMode = 1
		}
		if smallBuf {
			if pr[0] > 64 || pr[1] > 64 {
				smallBuf = false
			} else {
				old := bufSize
				bufSize = 8
				sched.OnReset(func() { bufSize = old })
			}
		}
		up, down := pattern(pr[0], 0x5a), pattern(pr[1], 0xa5)
		chunks := func(b []byte, second bool) [][]byte {
			size := len(b)
			switch chunkMode {
			case 1:
				size = 4096
			case 2:
				size = 1
				if second {
					size = 7
				}
			}
			if size == 0 {
				size = 1
			}
			var out [][]byte
			for len(b) > 0 {
				n := size
				if n > len(b) {
					n = len(b)
				}
				out = append(out, b[:n])
				b = b[n:]
			}
			return out
		}

		backendAddr := "10.1.0.1:80"
		ln, _ := vnet.Listen("tcp", backendAddr)
		p := vfTCPProc(vfTCPConfig(service.LoadBalancePolicy_ROUND_ROBIN, 0), host.New(backendAddr))
		client, proxySide := vnet.Pipe()
		client.Label, proxySide.Label = "client", "proxy-downstream"

		var gotUp, gotDown bytes.Buffer
		var upErr, downErr error
		var wg vsync.WaitGroup
		wg.Add(4)
		var backend *vnet.VConn
		backendReady := make(chan struct{}, 1)
		sched.GoNamed("HandleConn", func() { p.HandleConn(proxySide); proxySide.Close() })
		sched.GoNamed("backend-reader", func() {
			defer wg.Done()
			c, err := ln.Accept()
			if err != nil {
				upErr = err
				sched.SendV(backendReady, struct{}{})
				return
			}
			backend = c.(*vnet.VConn)
			backend.Label = "backend"
			sched.SendV(backendReady, struct{}{})
			_, upErr = io.Copy(&gotUp, backend)
		})
		sched.GoNamed("backend-writer", func() {
			defer wg.Done()
			sched.RecvV(backendReady)
			if backend == nil {
				return
			}
			if order == "client-first" || order == "client-full-close" {
				// backend answers only after it saw the client's end of stream? no: it just sends; who
				// finishes first is decided by when each side half-closes
			}
			for _, ch := range chunks(down, true) {
				if _, err := backend.Write(ch); err != nil {
					return
				}
			}
			if order != "client-first" && order != "client-full-close" {
				backend.CloseWrite()
			}
		})
		sched.GoNamed("client-writer", func() {
			defer wg.Done()
			for _, ch := range chunks(up, false) {
				if _, err := client.Write(ch); err != nil {
					return
				}
			}
			switch order {
			case "client-first", "both":
				client.CloseWrite()
			case "client-full-close":
				// handled by the reader after it has everything it can get
			}
		})
		sched.GoNamed("client-reader", func() {
			defer wg.Done()
			_, downErr = io.Copy(&gotDown, client)
		})
		sched.WaitQuiescent()
		// whoever has not finished yet finishes now (the other direction must have kept flowing)
		switch order {
		case "client-first":
			if !bytes.Equal(gotDown.Bytes(), down) {
				sched.Fail("bytes-lost-after-peer-half-closed / backend->client", fmt.Sprintf("lengths %v: client received %d of %d bytes while the backend is still open", pr, gotDown.Len(), len(down)))
			}
			if backend != nil {
				backend.CloseWrite()
			}
		case "backend-first":
			if !bytes.Equal(gotUp.Bytes(), up) {
				sched.Fail("bytes-lost-after-peer-half-closed / client->backend", fmt.Sprintf("lengths %v: backend received %d of %d bytes while the client is still open", pr, gotUp.Len(), len(up)))
			}
			client.CloseWrite()
		case "client-full-close":
			client.Close()
			if backend != nil {
				backend.CloseWrite()
			}
		}
		sched.WaitQuiescent()
		tag := fmt.Sprintf("lengths %v chunks=%d finish=%s smallbuf=%v", pr, chunkMode, order, smallBuf)
		cmp := func(dir string, got, want []byte) {
			if bytes.Equal(got, want) {
				return
			}
			kind := "bytes-differ"
			switch {
			case len(got) < len(want) && bytes.Equal(got, want[:len(got)]):
				kind = "bytes-dropped-at-end"
			case len(got) > len(want):
				kind = "bytes-added"
			}
			i := 0
			for i < len(got) && i < len(want) && got[i] == want[i] {
				i++
			}
			sched.Fail(kind+" / "+dir, fmt.Sprintf("%s: %d bytes received, %d sent, first difference at %d", tag, len(got), len(want), i))
		}
		cmp("client->backend", gotUp.Bytes(), up)
		if order != "client-full-close" {
			cmp("backend->client", gotDown.Bytes(), down)
		}
		for _, b := range sched.LiveNonServer() {
			if b.Name == "backend-reader" || b.Name == "client-reader" {
				if order == "client-full-close" && b.Name == "client-reader" {
					continue
				}
				sched.Fail("end-of-stream-never-delivered / "+strings.TrimSuffix(b.Name, "-reader"), fmt.Sprintf("%s: %s still waits in %s", tag, b.Name, b.Kind))
			}
			if b.Name == "HandleConn" {
				sched.Fail("relay-never-finishes", fmt.Sprintf("%s: HandleConn parked in %s", tag, b.Kind))
			}
		}
		_ = upErr
		_ = downErr
		sched.SetOutcome(fmt.Sprintf("up=%d down=%d %s", gotUp.Len(), gotDown.Len(), order))
	}
}

// two connections in parallel share the buffer pool
func c05twoBody() {
	old := bufSize
	bufSize = 8
	sched.OnReset(func() { bufSize = old })
	backendAddr := "10.1.0.1:80"
	ln, _ := vnet.Listen("tcp", backendAddr)
	p := vfTCPProc(vfTCPConfig(service.LoadBalancePolicy_ROUND_ROBIN, 0), host.New(backendAddr))
	// backends echo what they receive
	sched.GoServer("backend-accept", func() {
		for {
			c, err := ln.Accept()
			if err != nil {
				return
			}
			sched.GoServer("backend-echo", func() {
				buf := make([]byte, 64)
				for {
					n, err := c.Read(buf)
					if n > 0 {
						c.Write(buf[:n])
					}
					if err != nil {
						c.Close()
						return
					}
				}
			})
		}
	})
	var wg vsync.WaitGroup
	results := make([][]byte, 2)
	msgs := [][]byte{pattern(20, 1), pattern(20, 2)}
	for i := 0; i < 2; i++ {
		i := i
		client, proxySide := vnet.Pipe()
		sched.GoNamed(fmt.Sprintf("HandleConn%d", i), func() { p.HandleConn(proxySide); proxySide.Close() })
		wg.Add(1)
		sched.GoNamed(fmt.Sprintf("client%d", i), func() {
			defer wg.Done()
			client.Write(msgs[i])
			client.CloseWrite()
			b, _ := io.ReadAll(client)
			results[i] = b
		})
	}
	wg.Wait()
	for i := range msgs {
		if !bytes.Equal(results[i], msgs[i]) {
			sched.Fail("bytes-differ / two connections sharing the buffer pool", fmt.Sprintf("connection %d sent %x, got back %x", i, msgs[i], results[i]))
		}
	}
	sched.SetOutcome("ok")
}

// C05 (S) pacing: a steady stream whose chunks are closer together than the idle timeout but which lasts
// longer than the idle timeout must be relayed completely (the virtual clock advances between chunks).
func c05pacedBody() {
	gapDiv := []int{5, 3, 2}[sched.Choose(sched.ClsInput, 3, "gap")]
	dir := sched.Choose(sched.ClsInput, 2, "direction")
	backendAddr := "10.1.0.1:80"
	ln, _ := vnet.Listen("tcp", backendAddr)
	cfg := vfTCPConfig(service.LoadBalancePolicy_ROUND_ROBIN, 0)
	cfg.IdleTimeout = vfDur(time.Second)
	p := vfTCPProc(cfg, host.New(backendAddr))
	client, proxySide := vnet.Pipe()
	client.Label, proxySide.Label = "client", "proxy-downstream"
	sched.GoNamed("HandleConn", func() { p.HandleConn(proxySide); proxySide.Close() })
	var backend *vnet.VConn
	var got bytes.Buffer
	sched.GoNamed("acceptor", func() {
		c, err := ln.Accept()
		if err == nil {
			backend = c.(*vnet.VConn)
		}
	})
	sched.WaitQuiescent()
	if backend == nil {
		sched.Fail("harness-no-backend-connection", "")
	}
	src, dst := client, backend
	if dir == 1 {
		src, dst = backend, client
	}
	sched.GoNamed("reader", func() { io.Copy(&got, dst) })
	var sent []byte
	chunks := 3 * gapDiv // lasts three idle timeouts
	for i := 0; i < chunks; i++ {
		ch := pattern(10, byte(i))
		sent = append(sent, ch...)
		if _, err := src.Write(ch); err != nil {
			break
		}
		sched.WaitQuiescent()
		sched.AdvanceTime(int64(time.Second) / int64(gapDiv))
		sched.WaitQuiescent()
	}
	if !bytes.Equal(got.Bytes(), sent) {
		sched.Fail("bytes-dropped-at-end / steady stream longer than the idle timeout", fmt.Sprintf("chunks every 1/%d of the idle timeout: %d of %d bytes arrived", gapDiv, got.Len(), len(sent)))
	}
	sched.SetOutcome(fmt.Sprintf("gap=1/%d dir=%d", gapDiv, dir))
}

func init() {
	sched.Register(&sched.Scenario{Name: "C05/paced", Setup: func(tier string) (sched.Config, func()) {
		b := sched.Bounds{F: 1}
		if tier == "thorough" {
			b = sched.Bounds{P: 1, F: 1}
		}
		return sched.Config{Bounds: b, Iterative: true, MaxSteps: 200000}, c05pacedBody
	}})
	sched.Register(&sched.Scenario{Name: "C05/relay", Setup: func(tier string) (sched.Config, func()) {
		b := sched.Bounds{P: 1, F: 1}
		if tier == "thorough" {
			b = sched.Bounds{P: 2, F: 1, Env: 1}
		}
		return sched.Config{Bounds: b, Iterative: true, MaxSteps: 200000}, c05body(tier)
	}})
	sched.Register(&sched.Scenario{Name: "C05/two-connections", Setup: func(tier string) (sched.Config, func()) {
		b := sched.Bounds{P: 1, F: 1}
		if tier == "thorough" {
			b = sched.Bounds{P: 2, F: 2}
		}
		return sched.Config{Bounds: b, Iterative: true, MaxSteps: 200000}, c05twoBody
	}})
}
