//go:build go1.21

package tcp

import (
	"bytes"
	"fmt"
	"io"
	"time"

	"github.com/samaritan-proxy/samaritan/host"
	"github.com/samaritan-proxy/samaritan/pb/config/service"
	"github.com/samaritan-proxy/samaritan/proc"
	"github.com/samaritan-proxy/samaritan/verifrt/sched"
	"github.com/samaritan-proxy/samaritan/verifrt/vnet"
)

// ---------------------------------------------------------------------------
// C05 (S) back-pressure: a receiver that reads late. Socket buffers are bounded (vnet.SetWindow), so the
// sender, the proxy's copy loop and the proxy's write towards the receiver all block until the receiver reads;
// the connection comes in through the real listener (socket options the processor or listener set are modelled by
// the virtual network: linger, TCP_USER_TIMEOUT).
//
// alphabet  direction (backend->client | client->backend) x socket buffer {64, 4096} x stream length
//           {3 buffers + 1, 40000} x the receiver starts reading after {0 s, 11 s, 61 s, 9 min} (idle timeout 10 min)
// bound     all schedules P0 F1 (quick) / P1 F1 (thorough)
// oracle    the receiver gets exactly the bytes sent, then end-of-stream; afterwards the other direction
//           still carries data
// ---------------------------------------------------------------------------

func c05slowBody() {
	dir := sched.Choose(sched.ClsInput, 2, "direction")
	window := []int{64, 4096}[sched.Choose(sched.ClsInput, 2, "socket-buffer")]
	long := sched.Choose(sched.ClsInput, 2, "length")
	stall := []time.Duration{0, 11 * time.Second, 61 * time.Second, 9 * time.Minute}[sched.Choose(sched.ClsInput, 4, "stall")]
	n := 3*window + 1
	if long == 1 {
		n = 40000
	}
	restore := proc.VerifSetListenFunc(vnet.Listen)
	sched.OnReset(restore)
	vnet.SetWindow(window)
	backendAddr := "10.1.0.1:80"
	ln, _ := vnet.Listen("tcp", backendAddr)
	var backend *vnet.VConn
	sched.GoServer("acceptor", func() {
		c, err := ln.Accept()
		if err == nil {
			backend = c.(*vnet.VConn)
			backend.Label = "backend"
		}
	})
	p := vfTCPProc(vfTCPConfig(service.LoadBalancePolicy_ROUND_ROBIN, 0), host.New(backendAddr))
	p.Start()
	sched.WaitQuiescent()
	client, err := vnet.DialConn(vfTCPAddr)
	if err != nil {
		sched.Fail("harness-dial", err.Error())
		return
	}
	client.Label = "client"
	sched.WaitQuiescent()
	if backend == nil {
		sched.Fail("harness-no-backend-connection", "")
		return
	}
	src, dst := backend, client
	names := "backend->client"
	if dir == 1 {
		src, dst = client, backend
		names = "client->backend"
	}
	data := pattern(n, 0x5a)
	var werr error
	sched.GoNamed("sender", func() {
		_, werr = src.Write(data)
		src.CloseWrite()
	})
	sched.WaitQuiescent()
	if stall > 0 {
		sched.AdvanceTime(int64(stall)) // the receiver is busy with something else; nobody is idle for 10 minutes
		sched.WaitQuiescent()
	}
	var got bytes.Buffer
	var rerr error
	done := false
	sched.GoNamed("receiver", func() { _, rerr = io.Copy(&got, dst); done = true })
	sched.WaitQuiescent()
	tag := fmt.Sprintf("%s, socket buffers of %d bytes, %d bytes, receiver starts reading after %v", names, window, n, stall)
	switch {
	case !done:
		sched.Fail("stream-never-ends / slow receiver", fmt.Sprintf("%s: %d bytes arrived, no end-of-stream", tag, got.Len()))
	case rerr != nil || werr != nil || !bytes.Equal(got.Bytes(), data):
		sched.Fail("bytes-lost / slow receiver / "+names, fmt.Sprintf("%s: %d of %d bytes arrived (receiver: %v, sender: %v)", tag, got.Len(), n, rerr, werr))
	}
	// the other direction is still open
	back := []byte("still here")
	if _, err := dst.Write(back); err != nil {
		sched.Fail("other-direction-closed / slow receiver", fmt.Sprintf("%s: %v", tag, err))
	}
	buf := make([]byte, len(back))
	var berr error
	sched.GoNamed("back-reader", func() { _, berr = io.ReadFull(src, buf) })
	sched.WaitQuiescent()
	if berr != nil || !bytes.Equal(buf, back) {
		sched.Fail("other-direction-closed / slow receiver", fmt.Sprintf("%s: %q arrived (%v)", tag, buf, berr))
	}
	sched.SetOutcome(fmt.Sprintf("%s w=%d n=%d stall=%v", names, window, n, stall))
}

func init() {
	sched.Register(&sched.Scenario{Name: "C05/slow-receiver", Setup: func(tier string) (sched.Config, func()) {
		b := sched.Bounds{F: 1}
		if tier == "thorough" {
			b = sched.Bounds{P: 1, F: 1}
		}
		return sched.Config{Bounds: b, Iterative: true, MaxSteps: 400000}, c05slowBody
	}})
}
