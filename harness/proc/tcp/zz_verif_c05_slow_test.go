//go:build go1.21

package tcp

import (
	"bytes"
	"fmt"
	"io"
	"time"

	"github.com/samaritan-proxy/samaritan/host"
	"github.com/samaritan-proxy/samaritan/pb/config/service"
	"github.com/samaritan-proxy/samaritan/proc"
	"github.com/samaritan-proxy/samaritan/verifrt/sched"
	"github.com/samaritan-proxy/samaritan/verifrt/vnet"
)

// ---------------------------------------------------------------------------
// C05 (S) back-pressure: a receiver that reads late. Socket buffers are bounded (vnet.SetWindow), so the
// sender, the proxy's copy loop and the proxy's write towards the receiver all block until the receiver reads;
// the connection comes in through the real listener (socket options the processor or listener set are modelled by
// the virtual network: linger, TCP_USER_TIMEOUT).
//
// alphabet  direction (backend->client | client->backend) x socket buffer {64, 4096} x stream length
//           {3 buffers + 1, 40000} x the receiver starts reading after {0 s, 11 s, 61 s, 9 min} x idle timeout 10 min |
//           0 (connections never time out)
// bound     all schedules P0 F1 (quick) / P1 F1 (thorough)
// oracle    the receiver gets exactly the bytes sent, then end-of-stream; afterwards the other direction
//           still carries data
// ---------------------------------------------------------------------------

func c05slowBody() {
	dir := sched.Choose(sched.ClsInput, 2, "direction")
	window := []int{64, 4096}[sched.Choose(sched.ClsInput, 2, "socket-buffer")]
	long := sched.Choose(sched.ClsInput, 2, "length")
	stall := []time.Duration{0, 11 * time.Second, 61 * time.Second, 9 * time.Minute}[sched.Choose(sched.ClsInput, 4, "stall")]
	noIdle := sched.Choose(sched.ClsInput, 2, "idle timeout") == 1 // idle_timeout: 0s = connections never time out
	n := 3*window + 1
	if long == 1 {
		n = 40000
	}
	restore := proc.VerifSetListenFunc(vnet.Listen)
	sched.OnReset(restore)
	vnet.SetWindow(window)
	backendAddr := "10.1.0.1:80"
	ln, _ := vnet.Listen("tcp", backendAddr)
	var backend *vnet.VConn
	sched.GoServer("acceptor", func() {
		c, err := ln.Accept()
		if err == nil {
			backend = c.(*vnet.VConn)
			backend.Label = "backend"
		}
	})
	cfg := vfTCPConfig(service.LoadBalancePolicy_ROUND_ROBIN, 0)
	if noIdle {
		cfg.IdleTimeout = vfDur(0)
	}
	p := vfTCPProc(cfg, host.New(backendAddr))
	p.Start()
	sched.WaitQuiescent()
	client, err := vnet.DialConn(vfTCPAddr)
	if err != nil {
		sched.Fail("harness-dial", err.Error())
		return
	}
	client.Label = "client"
	sched.WaitQuiescent()
	if backend == nil {
		sched.Fail("harness-no-backend-connection", "")
		return
	}
	src, dst := backend, client
	names := "backend->client"
	if dir == 1 {
		src, dst = client, backend
		names = "client->backend"
	}
	data := pattern(n, 0x5a)
	var werr error
	sched.GoNamed("sender", func() {
		_, werr = src.Write(data)
		src.CloseWrite()
	})
	sched.WaitQuiescent()
	if stall > 0 {
		sched.AdvanceTime(int64(stall)) // the receiver is busy with something else; nobody is idle for 10 minutes
		sched.WaitQuiescent()
	}
	var got bytes.Buffer
	var rerr error
	done := false
	sched.GoNamed("receiver", func() { _, rerr = io.Copy(&got, dst); done = true })
	sched.WaitQuiescent()
	tag := fmt.Sprintf("%s, socket buffers of %d bytes, %d bytes, receiver starts reading after %v", names, window, n, stall)
	if noIdle {
		tag += ", idle timeout 0 (none)"
	}
	switch {
	case !done:
		sched.Fail("stream-never-ends / slow receiver", fmt.Sprintf("%s: %d bytes arrived, no end-of-stream", tag, got.Len()))
	case rerr != nil || werr != nil || !bytes.Equal(got.Bytes(), data):
		sched.Fail("bytes-lost / slow receiver / "+names, fmt.Sprintf("%s: %d of %d bytes arrived (receiver: %v, sender: %v)", tag, got.Len(), n, rerr, werr))
	}
	// the other direction is still open
	back := []byte("still here")
	if _, err := dst.Write(back); err != nil {
		sched.Fail("other-direction-closed / slow receiver", fmt.Sprintf("%s: %v", tag, err))
	}
	buf := make([]byte, len(back))
	var berr error
	sched.GoNamed("back-reader", func() { _, berr = io.ReadFull(src, buf) })
	sched.WaitQuiescent()
	if berr != nil || !bytes.Equal(buf, back) {
		sched.Fail("other-direction-closed / slow receiver", fmt.Sprintf("%s: %q arrived (%v)", tag, buf, berr))
	}
	sched.SetOutcome(fmt.Sprintf("%s w=%d n=%d stall=%v", names, window, n, stall))
}

func init() {
	sched.Register(&sched.Scenario{Name: "C05/slow-receiver", Setup: func(tier string) (sched.Config, func()) {
		b := sched.Bounds{F: 1}
		if tier == "thorough" {
			b = sched.Bounds{P: 1, F: 1}
		}
		return sched.Config{Bounds: b, Iterative: true, MaxSteps: 400000}, c05slowBody
	}})
}

// ---------------------------------------------------------------------------
// C05 (S) several clients arrive at the same moment (they wait in the listener's accept queue together) and are
// relayed to an echoing backend.
//
// alphabet  2 or 3 clients, each sending its own 40-byte pattern and half-closing
// bound     all schedules P1 F1 (quick) / P2 F1 (thorough) from the moment the clients connect
// oracle    every client reads back exactly its own bytes, then end-of-stream; every backend connection carried the
//           bytes of exactly one client
// ---------------------------------------------------------------------------

func c05arrivalsBody() {
	sched.SetQuiet(true)
	nc := 2 + sched.Choose(sched.ClsInput, 2, "clients")
	restore := proc.VerifSetListenFunc(vnet.Listen)
	sched.OnReset(restore)
	backendAddr := "10.1.0.1:80"
	ln, _ := vnet.Listen("tcp", backendAddr)
	var seen [][]byte
	sched.GoServer("backend", func() {
		for {
			c, err := ln.Accept()
			if err != nil {
				return
			}
			vc := c.(*vnet.VConn)
			vc.Label = "backend"
			idx := len(seen)
			seen = append(seen, nil)
			sched.GoServer("backend-conn", func() {
				buf := make([]byte, 64)
				for {
					n, err := vc.Read(buf)
					if n > 0 {
						seen[idx] = append(seen[idx], buf[:n]...)
						vc.Write(buf[:n])
					}
					if err != nil {
						vc.Close()
						return
					}
				}
			})
		}
	})
	p := vfTCPProc(vfTCPConfig(service.LoadBalancePolicy_ROUND_ROBIN, 0), host.New(backendAddr))
	p.Start()
	sched.WaitQuiescent()
	sched.SetQuiet(false)
	clients := make([]*vnet.VConn, nc)
	got := make([]bytes.Buffer, nc)
	done := make([]bool, nc)
	for i := 0; i < nc; i++ {
		c, err := vnet.DialConn(vfTCPAddr)
		if err != nil {
			sched.Fail("harness-dial", err.Error())
			return
		}
		c.Label = "client"
		clients[i] = c
	}
	for i := 0; i < nc; i++ {
		i := i
		sched.GoNamed(fmt.Sprintf("client%d", i), func() {
			clients[i].Write(pattern(40, byte(16*(i+1))))
			clients[i].CloseWrite()
			io.Copy(&got[i], clients[i])
			done[i] = true
		})
	}
	sched.WaitQuiescent()
	sched.SetQuiet(true)
	for i := 0; i < nc; i++ {
		want := pattern(40, byte(16*(i+1)))
		switch {
		case !done[i]:
			sched.Fail("stream-never-ends / clients arriving together", fmt.Sprintf("%d clients: client %d read %d bytes and no end-of-stream", nc, i, got[i].Len()))
		case !bytes.Equal(got[i].Bytes(), want):
			sched.Fail("bytes-differ / clients arriving together", fmt.Sprintf("%d clients: client %d sent %x and read back %x", nc, i, want, got[i].Bytes()))
		}
	}
	for bi, b := range seen {
		ok := len(b) == 0
		for i := 0; i < nc; i++ {
			ok = ok || bytes.Equal(b, pattern(40, byte(16*(i+1))))
		}
		if !ok {
			sched.Fail("backend-connection-carries-mixed-streams / clients arriving together", fmt.Sprintf("%d clients: backend connection %d received %x", nc, bi, b))
		}
	}
	sched.SetOutcome(fmt.Sprint(nc))
}

func init() {
	sched.Register(&sched.Scenario{Name: "C05/arrivals", Setup: func(tier string) (sched.Config, func()) {
		b := sched.Bounds{P: 1, F: 1}
		if tier == "thorough" {
			b = sched.Bounds{P: 2, F: 1}
		}
		return sched.Config{Bounds: b, Iterative: true, MaxSteps: 400000}, c05arrivalsBody
	}})
}
