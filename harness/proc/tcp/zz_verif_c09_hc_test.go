//go:build go1.21

package tcp

import (
	"fmt"
	"io"
	"time"

	"github.com/samaritan-proxy/samaritan/host"
	pbhc "github.com/samaritan-proxy/samaritan/pb/config/hc"
	"github.com/samaritan-proxy/samaritan/pb/config/service"
	"github.com/samaritan-proxy/samaritan/proc"
	"github.com/samaritan-proxy/samaritan/verifrt/sched"
	"github.com/samaritan-proxy/samaritan/verifrt/vnet"
)

// ---------------------------------------------------------------------------
// C09 (S) a TCP service whose health-check configuration is updated while it runs, then Stop.
//
// alphabet  initial health check none | redis | advanced TCP ; update to: the same checker with another interval |
//           the other checker kind | none->redis ; one check round before and one after the update; 0/1 client
// bound     all schedules P1 F1 Sel1 (quick) / P2 F1 Sel1 (thorough)
// oracle    Stop returns; no goroutine of the processor or of a monitor is left; every connection the proxy opened
//           is closed; the backend sees no health check after Stop returned (three further intervals)
// ---------------------------------------------------------------------------

func c09hcCfg(kind string, interval time.Duration) *pbhc.HealthCheck {
	switch kind {
	case "redis":
		return &pbhc.HealthCheck{Interval: interval, Timeout: time.Second, RiseThreshold: 1, FallThreshold: 1,
			Checker: &pbhc.HealthCheck_RedisChecker{RedisChecker: &pbhc.RedisChecker{}}}
	case "atcp":
		return &pbhc.HealthCheck{Interval: interval, Timeout: time.Second, RiseThreshold: 1, FallThreshold: 1,
			Checker: &pbhc.HealthCheck_AtcpChecker{AtcpChecker: &pbhc.ATCPChecker{Action: []*pbhc.ATCPChecker_Action{{Send: []byte(`"*1\r\n$4\r\nping\r\n"`), Expect: []byte(`"PONG"`)}}}}}
	}
	return nil
}

func c09tcpHealthBody() {
	from := []string{"none", "redis", "atcp"}[sched.Choose(sched.ClsInput, 3, "initial")]
	to := []string{"same-kind-other-interval", "other-kind"}[sched.Choose(sched.ClsInput, 2, "update")]
	withClient := sched.Choose(sched.ClsInput, 2, "client") == 1
	restore := proc.VerifSetListenFunc(vnet.Listen)
	sched.OnReset(restore)
	addr := "10.4.0.1:6379"
	ln, _ := vnet.Listen("tcp", addr)
	accepted := 0
	sched.GoServer("backend", func() {
		for {
			c, err := ln.Accept()
			if err != nil {
				return
			}
			accepted++
			vc := c.(*vnet.VConn)
			vc.Label = "backend"
			sched.GoServer("backend-conn", func() {
				buf := make([]byte, len("*1\r\n$4\r\nping\r\n"))
				for {
					if _, err := io.ReadFull(vc, buf); err != nil {
						vc.Close()
						return
					}
					vc.Write([]byte("+PONG\r\n"))
				}
			})
		}
	})
	cfg := vfTCPConfig(service.LoadBalancePolicy_ROUND_ROBIN, 0)
	cfg.HealthCheck = c09hcCfg(from, 10*time.Second)
	p := vfTCPProc(cfg, host.New(addr))
	p.Start()
	sched.WaitQuiescent()
	if withClient {
		c, err := vnet.DialConn(vfTCPAddr)
		if err != nil {
			sched.Fail("harness-dial", err.Error())
			return
		}
		c.Label = "client"
		c.Write([]byte("*1\r\n$4\r\nping\r\n"))
	}
	sched.AdvanceTime(int64(10 * time.Second)) // a check round
	sched.WaitQuiescent()
	upd := vfTCPConfig(service.LoadBalancePolicy_ROUND_ROBIN, 0)
	kind := from
	switch {
	case from == "none":
		kind = "redis"
	case to == "other-kind" && from == "redis":
		kind = "atcp"
	case to == "other-kind" && from == "atcp":
		kind = "redis"
	}
	upd.HealthCheck = c09hcCfg(kind, 5*time.Second)
	if err := p.OnSvcConfigUpdate(upd); err != nil {
		sched.Fail("harness-config-update", err.Error())
		return
	}
	sched.WaitQuiescent()
	sched.AdvanceTime(int64(10 * time.Second))
	sched.WaitQuiescent()
	stopped := false
	sched.GoNamed("stopper", func() { p.Stop(); stopped = true })
	sched.Settle(4)
	tag := fmt.Sprintf("health check %s -> %s (%s), client=%v", from, kind, to, withClient)
	if !stopped {
		sched.Fail("tcp-stop-never-returns / after a health-check update", tag)
		return
	}
	seen := accepted
	for i := 0; i < 3; i++ {
		sched.AdvanceTime(int64(10 * time.Second))
		sched.WaitQuiescent()
	}
	if accepted != seen {
		sched.Fail("health-checks-continue-after-stop / tcp", fmt.Sprintf("%s: the backend accepted %d more connection(s) after Stop had returned", tag, accepted-seen))
	}
	for _, vc := range vnet.Conns() {
		if vc.Label == "client" || vc.Label == "backend" {
			continue
		}
		if !vc.IsClosed() && !vc.WasReset() {
			sched.Fail("connection-left-open-after-stop / tcp / after a health-check update", fmt.Sprintf("%s: %s", tag, vc))
		}
	}
	for _, b := range sched.LiveNonServer() {
		sched.Fail("goroutine-left-after-stop / tcp / after a health-check update", fmt.Sprintf("%s: %s parked in %s", tag, b.Name, b.Kind))
	}
	sched.SetOutcome(tag)
}

func init() {
	sched.Register(&sched.Scenario{Name: "C09/tcp-healthcheck-update", Setup: func(tier string) (sched.Config, func()) {
		b := sched.Bounds{P: 1, F: 1, Sel: 1}
		if tier == "thorough" {
			b = sched.Bounds{P: 2, F: 1, Sel: 1}
		}
		return sched.Config{Bounds: b, Iterative: true, MaxSteps: 200000}, c09tcpHealthBody
	}})
}
