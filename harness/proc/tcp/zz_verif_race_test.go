//go:build go1.21

package tcp

import (
	"io"
	"net"
	"runtime"
	"sync"

	"github.com/samaritan-proxy/samaritan/host"
	"github.com/samaritan-proxy/samaritan/pb/config/service"
	"github.com/samaritan-proxy/samaritan/proc"
	"github.com/samaritan-proxy/samaritan/verifrt/sched"
	"github.com/samaritan-proxy/samaritan/verifrt/vnet"
)

// ---------------------------------------------------------------------------
// Race pass for the TCP processor (assumption check for C05, C06, C09/tcp-stop, C20/tcp): the unmodified
// code (real goroutines, locks, pools; only the network is the in-memory one) relays three clients'
// connections to echoing backends while hosts are removed, re-added, replaced and marked, the balancing
// policy is switched and finally the processor is stopped - in a binary built with -race.
// ---------------------------------------------------------------------------

func tcpStackRace() {
	vnet.FreeReset()
	addrs := []string{"10.3.0.1:80", "10.3.0.2:80", "10.3.0.3:80"}
	var lns []net.Listener
	var backends sync.WaitGroup
	for _, a := range addrs {
		ln, err := vnet.Listen("tcp", a)
		if err != nil {
			panic(err)
		}
		lns = append(lns, ln)
		backends.Add(1)
		go func() {
			defer backends.Done()
			for {
				c, err := ln.Accept()
				if err != nil {
					return
				}
				backends.Add(1)
				go func() {
					defer backends.Done()
					io.Copy(c, c)
					c.Close()
				}()
			}
		}()
	}
	mk := func() []*host.Host {
		return []*host.Host{host.NewWithType(addrs[2], host.TypeBackup), host.NewWithType(addrs[0], host.TypeMain), host.NewWithType(addrs[1], host.TypeMain)}
	}
	restore := proc.VerifSetListenFunc(vnet.Listen)
	defer restore()
	p := vfTCPProc(vfTCPConfig(service.LoadBalancePolicy_ROUND_ROBIN, 0), mk()...)
	p.Start()
	var wg sync.WaitGroup
	for ci := 0; ci < 3; ci++ {
		ci := ci
		wg.Add(1)
		go func() {
			defer wg.Done()
			for i := 0; i < 5; i++ {
				a, err := vnet.DialConn(vfTCPAddr)
				if err != nil {
					runtime.Gosched() // the listener is not bound yet
					continue
				}
				data := pattern(20000+ci, byte(i))
				done := make(chan struct{})
				go func() {
					defer close(done)
					buf := make([]byte, 4096)
					for {
						if _, err := a.Read(buf); err != nil {
							return
						}
					}
				}()
				for off := 0; off < len(data); off += 3000 {
					end := off + 3000
					if end > len(data) {
						end = len(data)
					}
					if _, err := a.Write(data[off:end]); err != nil {
						break
					}
				}
				a.CloseWrite()
				<-done
				a.Close()
			}
		}()
	}
	wg.Add(1)
	go func() {
		defer wg.Done()
		steps := []func(){
			func() { p.OnSvcHostRemove([]*host.Host{host.New(addrs[0])}) },
			func() { p.OnSvcHostAdd([]*host.Host{host.NewWithType(addrs[0], host.TypeMain)}) },
			func() {
				for _, h := range p.hostSet.All() {
					if h.Addr == addrs[1] {
						p.hostSet.MarkHostUnhealthy(h)
						p.hostSet.MarkHostHealthy(h)
					}
				}
			},
			func() { p.OnSvcAllHostReplace(mk()) },
			func() { p.OnSvcConfigUpdate(vfTCPConfig(service.LoadBalancePolicy_LEAST_CONNECTION, 0)) },
			func() { p.OnSvcHostRemove([]*host.Host{host.New(addrs[1]), host.New(addrs[2])}) },
			func() { p.OnSvcConfigUpdate(vfTCPConfig(service.LoadBalancePolicy_RANDOM, 0)) },
			func() { p.OnSvcAllHostReplace(mk()) },
		}
		for _, st := range steps {
			for i := 0; i < 50; i++ {
				runtime.Gosched()
			}
			st()
		}
	}()
	wg.Wait()
	p.Stop()
	for _, ln := range lns {
		ln.Close()
	}
	backends.Wait()
}

func init() {
	sched.Register(&sched.Scenario{Name: "C05/stack-race", Race: tcpStackRace})
}
