//go:build go1.21

package tcp

import (
	"encoding/json"
	"fmt"
	"io"
	"time"

	"github.com/samaritan-proxy/samaritan/host"
	"github.com/samaritan-proxy/samaritan/pb/config/service"
	"github.com/samaritan-proxy/samaritan/proc"
	"github.com/samaritan-proxy/samaritan/verifrt/sched"
	"github.com/samaritan-proxy/samaritan/verifrt/vnet"
)

// ---------------------------------------------------------------------------
// C15 (H) hysteresis inside a running TCP service: only check results move a host between healthy and unhealthy.
//
// alphabet  backend goes down | comes back | one health-check round (redis checker on the virtual network) | a client
//           connects (its dial to the backend fails while the backend is down) ; thresholds rise = fall = 2
// bound     every history of length <= 5 (quick) / 6 (thorough)
// oracle    the host is reported usable until more than `fall` consecutive checks failed, and unusable until more
//           than `rise` consecutive checks succeeded (any contrary check result restarts the count); client
//           connections - served or refused - are not check results
// ---------------------------------------------------------------------------

type c15tcpCase struct {
	Ops []int `json:"ops"`
}

var c15tcpOps = []string{"backend-down", "backend-up", "check-round", "client-connects"}

func c15tcpRun(cs c15tcpCase) (sig, detail string) {
	body := func() {
		restore := proc.VerifSetListenFunc(vnet.Listen)
		sched.OnReset(restore)
		addr := "10.4.0.1:6379"
		up := false
		var closeLn func()
		bringUp := func() {
			if up {
				return
			}
			l, err := vnet.Listen("tcp", addr)
			if err != nil {
				sched.Fail("harness-listen", err.Error())
				return
			}
			up = true
			closeLn = func() { l.Close() }
			sched.GoServer("backend", func() {
				for {
					c, err := l.Accept()
					if err != nil {
						return
					}
					vc := c.(*vnet.VConn)
					vc.Label = "backend"
					sched.GoServer("backend-conn", func() {
						buf := make([]byte, len("*1\r\n$4\r\nping\r\n"))
						for {
							if _, err := io.ReadFull(vc, buf); err != nil {
								vc.Close()
								return
							}
							vc.Write([]byte("+PONG\r\n"))
						}
					})
				}
			})
		}
		bringUp()
		cfg := vfTCPConfig(service.LoadBalancePolicy_ROUND_ROBIN, 0)
		cfg.HealthCheck = c09hcCfg("redis", 10*time.Second)
		cfg.HealthCheck.RiseThreshold, cfg.HealthCheck.FallThreshold = 2, 2
		h := host.New(addr)
		p := vfTCPProc(cfg, h)
		p.Start()
		sched.WaitQuiescent()
		healthy, fails, oks := true, 0, 0
		var hist []string
		for _, op := range cs.Ops {
			hist = append(hist, c15tcpOps[op])
			switch op {
			case 0:
				if up {
					closeLn()
					up = false
				}
			case 1:
				bringUp()
			case 2:
				sched.AdvanceTime(int64(10 * time.Second))
				sched.WaitQuiescent()
				if up {
					oks, fails = oks+1, 0
					if !healthy && oks > 2 {
						healthy = true
					}
				} else {
					fails, oks = fails+1, 0
					if healthy && fails > 2 {
						healthy = false
					}
				}
			case 3:
				c, err := vnet.DialConn(vfTCPAddr)
				if err != nil {
					sched.Fail("harness-dial", err.Error())
					return
				}
				c.Label = "client"
				c.Write([]byte("*1\r\n$4\r\nping\r\n"))
				sched.WaitQuiescent()
				c.Close()
			}
			sched.WaitQuiescent()
			usable := len(p.hostSet.Healthy()) == 1
			if usable != healthy {
				sig = "health-flips-without-enough-contrary-check-results / tcp service"
				if usable {
					sig = "health-does-not-flip-after-enough-contrary-check-results / tcp service"
				}
				detail = fmt.Sprintf("history %v (rise = fall = 2): the host is reported usable=%v, %d consecutive failed and %d consecutive successful checks since the last flip", hist, usable, fails, oks)
				return
			}
		}
		stopped := false
		sched.GoNamed("stopper", func() { p.Stop(); stopped = true })
		sched.Settle(4)
		_ = stopped
	}
	e := sched.RunOnce(nil, sched.Options{MaxSteps: 400000}, body)
	for _, f := range e.Failures {
		sig, detail = f.Sig, f.Detail
	}
	return
}

func c15tcpDials(env sched.Env) *sched.Report {
	rep := &sched.Report{Outcomes: map[string]int64{}, Complete: true}
	depth := 5
	if env.Tier == "thorough" {
		depth = 6
	}
	sigs := map[string]bool{}
	n := 0
	var rec func(ops []int)
	rec = func(ops []int) {
		if len(ops) == depth {
			n++
			if n%env.NShards != env.Shard {
				return
			}
			if sched.PastDeadline(env.Deadline) {
				rep.Complete = false
				return
			}
			cs := c15tcpCase{append([]int{}, ops...)}
			sched.Progress(cs)
			sig, detail := c15tcpRun(cs)
			rep.Execs++
			sched.Progress(nil)
			rep.Transitions += int64(len(ops))
			if sig != "" {
				rep.Outcomes["violation: "+sig]++
				if !sigs[sig] {
					sigs[sig] = true
					rep.Violations = append(rep.Violations, sched.CustomViolation("C15/tcp-dials", sig, detail, cs))
				}
			} else {
				rep.Outcomes["ok"]++
			}
			return
		}
		for op := range c15tcpOps {
			rec(append(ops, op))
		}
	}
	rec(nil)
	rep.States, rep.Distinct = rep.Execs, rep.Execs
	rep.CustomSamples = []interface{}{c15tcpCase{[]int{0, 2, 3, 3, 2}}}
	return rep
}

func init() {
	sched.Register(&sched.Scenario{Name: "C15/tcp-dials", Custom: c15tcpDials, ReplayCustom: func(in json.RawMessage) []sched.Failure {
		var cs c15tcpCase
		json.Unmarshal(in, &cs)
		if sig, detail := c15tcpRun(cs); sig != "" {
			return []sched.Failure{{Sig: sig, Detail: detail}}
		}
		return nil
	}})
}
