//go:build go1.21

// Package syscall: stand-in for proc/internal/syscall/syscall_linux.go in the verification build. The
// original reaches the kernel through the raw file descriptor of a *net.TCPConn; connections of the virtual
// network have none, so the option is recorded on the virtual connection, which models what the kernel does
// with it (vnet.SetUserTimeout).
package syscall

import (
	"fmt"
	"net"
	"time"

	"github.com/samaritan-proxy/samaritan/verifrt/vnet"
)

// SetTCPUserTimeout sets the TCP user timeout on a connection's socket
func SetTCPUserTimeout(conn net.Conn, timeout time.Duration) error {
	if vc, ok := conn.(*vnet.VConn); ok {
		vc.SetUserTimeout(timeout)
	}
	return nil
}

// GetTCPUserTimeout gets the TCP user timeout on a connection's socket
func GetTCPUserTimeout(conn net.Conn) (opt int, err error) {
	vc, ok := conn.(*vnet.VConn)
	if !ok {
		return 0, fmt.Errorf("conn is not a virtual TCP connection. got %T", conn)
	}
	return int(vc.UserTimeout() / time.Millisecond), nil
}
