//go:build go1.21

package lb

import (
	"fmt"
	"testing"

	"github.com/samaritan-proxy/samaritan/host"
	"github.com/samaritan-proxy/samaritan/pb/config/service"
	"github.com/samaritan-proxy/samaritan/verifrt/hutil"
	"github.com/samaritan-proxy/samaritan/verifrt/sched"
	vsync "github.com/samaritan-proxy/samaritan/verifrt/vsync"
)

func TestVerif(t *testing.T) { hutil.Quiet(); sched.Main(t) }

// ---------------------------------------------------------------------------
// C06 (S) round robin under concurrent picks, (I) random and least-connection over every random outcome.
//
// alphabet  n in {1,2,3} hosts, k in {1,2} rounds, the n*k picks spread over 2 or 3 threads (INPUT)
// bound     all schedules within P (quick 3, thorough 4), delays unbounded
// oracle    every host is picked exactly k times in n*k picks; random / least-connection only return members
//           of the list; least-connection never returns the strictly busier of its two samples
// ---------------------------------------------------------------------------

func mkHosts(n int) []*host.Host {
	hs := make([]*host.Host, n)
	for i := range hs {
		hs[i] = host.New(fmt.Sprintf("10.0.0.%d:80", i+1))
	}
	return hs
}

func c06rrBody() {
	n := 1 + sched.Choose(sched.ClsInput, 3, "hosts")
	k := 1 + sched.Choose(sched.ClsInput, 2, "rounds")
	threads := 2 + sched.Choose(sched.ClsInput, 2, "threads")
	hs := mkHosts(n)
	b := New(service.LoadBalancePolicy_ROUND_ROBIN)
	counts := map[*host.Host]int{}
	total := n * k
	var wg vsync.WaitGroup
	per := make([]int, threads)
	for i := 0; i < total; i++ {
		per[i%threads]++
	}
	for t := 0; t < threads; t++ {
		m := per[t]
		if m == 0 {
			continue
		}
		wg.Add(1)
		sched.Go(func() {
			defer wg.Done()
			for i := 0; i < m; i++ {
				h := b.PickHost(hs)
				counts[h]++ // harness bookkeeping; threads run one at a time
			}
		})
	}
	wg.Wait()
	for i, h := range hs {
		if counts[h] != k {
			sched.Fail("round-robin-uneven-under-concurrent-picks", fmt.Sprintf("%d hosts, %d picks on %d threads: host %d was picked %d times, expected %d (%v)", n, total, threads, i, counts[h], k, counts))
		}
	}
	sched.SetOutcome(fmt.Sprintf("n=%d k=%d", n, k))
}

func c06randRun(env sched.Env) *sched.Report {
	rep := &sched.Report{Outcomes: map[string]int64{}, Complete: true}
	sigs := map[string]bool{}
	fail := func(sig, detail string) {
		if !sigs[sig] {
			sigs[sig] = true
			rep.Violations = append(rep.Violations, sched.CustomViolation("C06/random-leastconn", sig, detail, detail))
		}
	}
	oldRand := randInt
	defer func() { randInt = oldRand }()
	for n := 1; n <= 3; n++ {
		hs := mkHosts(n)
		in := func(h *host.Host) int {
			for i, x := range hs {
				if x == h {
					return i
				}
			}
			return -1
		}
		// random: every draw
		for r := 0; r < 2*n+1; r++ {
			rr := r
			randInt = func() int { return rr }
			rep.Execs++
			sched.Progress(nil)
			before := append([]*host.Host{}, hs...)
			if h := New(service.LoadBalancePolicy_RANDOM).PickHost(hs); in(h) < 0 {
				fail("random-picks-outside-the-list", fmt.Sprintf("n=%d draw=%d", n, r))
			}
			for i := range hs {
				if hs[i] != before[i] {
					fail("balancer-reorders-the-callers-host-list / random", fmt.Sprintf("n=%d draw=%d", n, r))
					copy(hs, before)
					break
				}
			}
		}
		// least connection: every assignment of connection counts in {0,1,2}^n x every pair of draws
		total := 1
		for i := 0; i < n; i++ {
			total *= 3
		}
		for a := 0; a < total; a++ {
			hs = mkHosts(n)
			x := a
			conns := make([]int, n)
			for i := 0; i < n; i++ {
				conns[i] = x % 3
				x /= 3
				for c := 0; c < conns[i]; c++ {
					hs[i].IncConnCount()
				}
			}
			for d1 := 0; d1 < n; d1++ {
				for d2 := 0; d2 < n; d2++ {
					seq := []int{d1, d2}
					idx := 0
					randInt = func() int { v := seq[idx%2]; idx++; return v + 3*n*idx }
					rep.Execs++
					sched.Progress(nil)
					before := append([]*host.Host{}, hs...)
					h := New(service.LoadBalancePolicy_LEAST_CONNECTION).PickHost(hs)
					for i := range hs {
						if hs[i] != before[i] {
							// the list is the caller's (the host set's shared, sorted usable view)
							fail("balancer-reorders-the-callers-host-list / least connection", fmt.Sprintf("n=%d conns=%v draws=%v: position %d changed", n, conns, seq, i))
							copy(hs, before)
							break
						}
					}
					pi := in(h)
					if pi < 0 {
						fail("least-connection-picks-outside-the-list", fmt.Sprintf("n=%d conns=%v draws=%v", n, conns, seq))
						continue
					}
					// the two samples (draw values are reduced modulo n by the balancer)
					s1, s2 := (d1+3*n*1)%n, (d2+3*n*2)%n
					least := conns[s1]
					if conns[s2] < least {
						least = conns[s2]
					}
					if pi != s1 && pi != s2 {
						fail("least-connection-returns-neither-sample", fmt.Sprintf("n=%d conns=%v samples=%d,%d picked %d", n, conns, s1, s2, pi))
					} else if conns[pi] > least {
						fail("least-connection-prefers-the-busier-sample", fmt.Sprintf("n=%d conns=%v samples=%d,%d picked %d", n, conns, s1, s2, pi))
					}
				}
			}
		}
		// empty list
		for _, p := range []service.LoadBalancePolicy{service.LoadBalancePolicy_RANDOM, service.LoadBalancePolicy_LEAST_CONNECTION, service.LoadBalancePolicy_ROUND_ROBIN} {
			rep.Execs++
			sched.Progress(nil)
			if New(p).PickHost(nil) != nil {
				fail("pick-from-empty-list-not-nil", p.String())
			}
		}
	}
	// sequences of picks: whatever a balancer remembers from earlier picks, every pick is made from the list it is
	// given now. Two consecutive picks of one balancer from every ordered pair of lists over 3 hosts (the second
	// list may lack the host picked first: it was removed, became unhealthy or belongs to the other tier), every
	// connection-count assignment in {0,2}^3, every draw.
	{
		all := mkHosts(3)
		idxOf := func(h *host.Host) int {
			for i, x := range all {
				if x == h {
					return i
				}
			}
			return -1
		}
		sub := func(mask int) []*host.Host {
			var l []*host.Host
			for i := 0; i < 3; i++ {
				if mask&(1<<i) != 0 {
					l = append(l, all[i])
				}
			}
			return l
		}
		for _, pol := range []service.LoadBalancePolicy{service.LoadBalancePolicy_LEAST_CONNECTION, service.LoadBalancePolicy_RANDOM, service.LoadBalancePolicy_ROUND_ROBIN} {
			for m1 := 1; m1 < 8; m1++ {
				for m2 := 1; m2 < 8; m2++ {
					for cm := 0; cm < 8; cm++ {
						for d := 0; d < 3; d++ {
							for i := 0; i < 3; i++ {
								for all[i].ConnCount() > 0 {
									all[i].DecConnCount()
								}
								if cm&(1<<i) != 0 {
									all[i].IncConnCount()
									all[i].IncConnCount()
								}
							}
							dd, k := d, 0
							randInt = func() int { k++; return dd + k }
							rep.Execs++
							sched.Progress(nil)
							b := New(pol)
							l1, l2 := sub(m1), sub(m2)
							h1 := b.PickHost(l1)
							h2 := b.PickHost(l2)
							in2 := false
							for _, x := range l2 {
								in2 = in2 || x == h2
							}
							if !in2 {
								fail("pick-outside-the-list-it-was-given / "+pol.String()+" / after an earlier pick from another list", fmt.Sprintf("first list %v -> host %d, second list %v -> host %d (connections mask %03b, draw %d)", l1, idxOf(h1), l2, idxOf(h2), cm, d))
							}
						}
					}
				}
			}
		}
		// balancers are per service: the rotation of one round-robin balancer is not disturbed by the picks of another
		for n := 2; n <= 3; n++ {
			for other := 1; other <= 3; other++ {
				rep.Execs++
				sched.Progress(nil)
				hsA, hsB := mkHosts(n), mkHosts(3)
				a, b := New(service.LoadBalancePolicy_ROUND_ROBIN), New(service.LoadBalancePolicy_ROUND_ROBIN)
				count := map[*host.Host]int{}
				for i := 0; i < 2*n; i++ {
					count[a.PickHost(hsA)]++
					for j := 0; j < other; j++ {
						b.PickHost(hsB)
					}
				}
				for _, h := range hsA {
					if count[h] != 2 {
						fail("round-robin-rotation-disturbed / by another service's balancer", fmt.Sprintf("service A picks %d times from %d hosts while service B picks %d times in between: host %s was picked %d times", 2*n, n, other, h.Addr, count[h]))
						break
					}
				}
			}
		}
	}
	rep.States = rep.Execs
	rep.Distinct = rep.Execs
	rep.CustomSamples = []interface{}{"least connection: conns=[2 0 1] draws=(0,1)"}
	return rep
}

func init() {
	sched.Register(&sched.Scenario{Name: "C06/round-robin", Setup: func(tier string) (sched.Config, func()) {
		b := sched.Bounds{P: 3, F: -1}
		if tier == "thorough" {
			b.P = 4
		}
		return sched.Config{Bounds: b, Iterative: true}, c06rrBody
	}})
	sched.Register(&sched.Scenario{Name: "C06/random-leastconn", Custom: c06randRun})
}
