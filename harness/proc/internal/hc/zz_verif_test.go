//go:build go1.21

package hc

import (
	"encoding/json"
	"errors"
	"fmt"
	"testing"
	"time"

	hostpkg "github.com/samaritan-proxy/samaritan/host"
	pbhc "github.com/samaritan-proxy/samaritan/pb/config/hc"
	"github.com/samaritan-proxy/samaritan/proc/internal/log"
	"github.com/samaritan-proxy/samaritan/verifrt/hutil"
	"github.com/samaritan-proxy/samaritan/verifrt/sched"
)

func TestVerif(t *testing.T) { sched.Main(t) }

// ---------------------------------------------------------------------------
// C15 (H) hysteresis: the real Monitor.checkHostAndUpdateStatus with a scripted
// checker, every sequence of check outcomes.
//
// alphabet  outcome in {ok, fail}; thresholds rise, fall in {0,1,2,3}
// bound     sequence length 2*(max(rise,fall)+2)+2 (quick: +0, thorough: +2)
// oracle    a flip happens only when the last max(N,1) results (incl. the current one) were all
//           contrary to the state; N+2 consecutive contrary results always flip; the usable view of
//           the host set follows the flag
// ---------------------------------------------------------------------------

type scripted struct{ next bool }

func (s *scripted) Check(addr string, timeout time.Duration) error {
	if s.next {
		return nil
	}
	return errors.New("scripted failure")
}

type c15hyst struct {
	Rise, Fall uint32
	Seq        []bool
	// Reset: the monitor is created with other thresholds (Rise0/Fall0) and brought to Rise/Fall by a run-time
	// configuration update before the first check
	Reset        bool
	Rise0, Fall0 uint32
}

func runHyst(c c15hyst) (string, string) {
	h := hostpkg.New("10.0.0.1:1")
	set := hostpkg.NewSet(h)
	chk := &scripted{}
	mkcfg := func(rise, fall uint32) *pbhc.HealthCheck {
		return &pbhc.HealthCheck{Interval: time.Second, Timeout: time.Second, RiseThreshold: rise, FallThreshold: fall,
			Checker: &pbhc.HealthCheck_TcpChecker{TcpChecker: &pbhc.TCPChecker{}}}
	}
	r0, f0 := c.Rise, c.Fall
	if c.Reset {
		r0, f0 = c.Rise0, c.Fall0
	}
	m, err := NewMonitor(mkcfg(r0, f0), set, log.New("verif"))
	if err != nil || m == nil {
		return "harness-cannot-create-monitor", fmt.Sprint(err)
	}
	if c.Reset {
		if err := m.ResetHealthCheck(mkcfg(c.Rise, c.Fall)); err != nil {
			return "config-update-rejected", err.Error()
		}
	}
	m.checker = chk
	state := true // healthy
	run := 0      // consecutive results contrary to state
	for i, ok := range c.Seq {
		chk.next = ok
		m.checkHostAndUpdateStatus(h)
		now := h.IsHealthy()
		if ok != state {
			run++
		} else {
			run = 0
		}
		n := int(c.Fall)
		if !state {
			n = int(c.Rise)
		}
		need := n
		if need < 1 {
			need = 1
		}
		if now != state {
			if ok == state {
				return "flip-on-agreeing-result", fmt.Sprintf("step %d: state %v flipped after a result that agrees with it", i, state)
			}
			if run < need {
				return "flip-too-early", fmt.Sprintf("step %d: flipped to %v after %d consecutive contrary results, threshold %d", i, now, run, n)
			}
			state = now
			run = 0
		} else if run >= n+2 {
			return "no-flip-after-sustained-results", fmt.Sprintf("step %d: still %v after %d consecutive contrary results, threshold %d", i, state, run, n)
		}
		usable := len(set.Healthy()) == 1
		if usable != now {
			return "usable-view-does-not-follow-flag", fmt.Sprintf("step %d: flag %v but Healthy() has %d hosts", i, now, len(set.Healthy()))
		}
	}
	return "", ""
}

func c15hysteresis(env sched.Env) *sched.Report {
	hutil.Quiet()
	rep := &sched.Report{Outcomes: map[string]int64{}, Complete: true}
	extra := 0
	if env.Tier == "thorough" {
		extra = 3
	}
	sig := map[string]bool{}
	flips := map[string]bool{}
	for rise := uint32(0); rise <= 3; rise++ {
		for fall := uint32(0); fall <= 3; fall++ {
			mx := rise
			if fall > mx {
				mx = fall
			}
			L := 2*(int(mx)+2) + 2 + extra
			for bits := 0; bits < 1<<uint(L); bits++ {
				seq := make([]bool, L)
				for i := range seq {
					seq[i] = bits>>uint(i)&1 == 1
				}
				c := c15hyst{Rise: rise, Fall: fall, Seq: seq}
				if bits%4 == 3 {
					// a quarter of the sequences run on a monitor that was created with other thresholds
					c.Reset, c.Rise0, c.Fall0 = true, (rise+2)%4, (fall+1)%4
				}
				o, d := runHyst(c)
				rep.Execs++
				sched.Progress(nil)
				rep.Transitions += int64(L)
				if o != "" {
					rep.Outcomes["violation: "+o]++
					s := fmt.Sprintf("%s / rise=%d fall=%d", o, rise, fall)
					if !sig[s] {
						sig[s] = true
						rep.Violations = append(rep.Violations, sched.CustomViolation("C15/hysteresis", s, d, c))
					}
				} else {
					rep.Outcomes["ok"]++
				}
				flips[fmt.Sprintf("%d/%d/%d", rise, fall, bits&0xff)] = true
			}
		}
	}
	rep.States = int64(len(flips))
	rep.Distinct = rep.Execs
	rep.CustomSamples = append(rep.CustomSamples, "rise=2 fall=1 outcomes=[fail fail ok ok ok fail ...] (every 0/1 sequence of the stated length)")
	return rep
}

func init() {
	sched.Register(&sched.Scenario{Name: "C15/hysteresis", Custom: c15hysteresis, ReplayCustom: func(in json.RawMessage) []sched.Failure {
		var c c15hyst
		json.Unmarshal(in, &c)
		o, d := runHyst(c)
		if o == "" {
			return nil
		}
		return []sched.Failure{{Sig: fmt.Sprintf("%s / rise=%d fall=%d", o, c.Rise, c.Fall), Detail: d}}
	}})
}

// ---------------------------------------------------------------------------
// C15 (S) monitor loop: the real Monitor.Start() loop with its ticker on the virtual clock, its fan-out of
// checks over a channel and a wait group, two hosts and a scripted checker.
//
// alphabet  per tick and host an outcome ok|fail: every sequence of 5 ticks for host a (host b always the
//           opposite of a's previous outcome), thresholds rise=1 fall=1 and rise=2 fall=2 (INPUT)
// bound     P, F (see Setup); one tick per virtual second
// oracle    after every tick: each host's flag and the usable view follow the hysteresis rule of the
//           sequential check (flip only after > threshold consecutive contrary results)
// ---------------------------------------------------------------------------

type perHost struct{ next map[string]bool }

func (s *perHost) Check(addr string, timeout time.Duration) error {
	if s.next[addr] {
		return nil
	}
	return errors.New("scripted failure")
}

func c15loopBody() {
	thr := uint32(1 + sched.Choose(sched.ClsInput, 2, "threshold"))
	bits := sched.Choose(sched.ClsInput, 32, "outcomes")
	a, b := hostpkg.New("10.0.0.1:1"), hostpkg.New("10.0.0.2:1")
	set := hostpkg.NewSet(a, b)
	chk := &perHost{next: map[string]bool{}}
	cfg := &pbhc.HealthCheck{Interval: time.Second, Timeout: time.Second, RiseThreshold: thr, FallThreshold: thr,
		Checker: &pbhc.HealthCheck_TcpChecker{TcpChecker: &pbhc.TCPChecker{}}}
	m, err := NewMonitor(cfg, set, log.New("verif"))
	if err != nil || m == nil {
		sched.Fail("harness-newmonitor", fmt.Sprint(err))
	}
	m.checker = chk
	m.Start()
	sched.WaitQuiescent()
	type st struct {
		healthy bool
		run     int
	}
	state := map[*hostpkg.Host]*st{a: {true, 0}, b: {true, 0}}
	prevA := true
	for tick := 0; tick < 5; tick++ {
		okA := bits>>uint(tick)&1 == 1
		okB := !prevA
		prevA = okA
		chk.next[a.Addr], chk.next[b.Addr] = okA, okB
		sched.AdvanceTime(int64(time.Second))
		sched.WaitQuiescent()
		for hi, h := range []*hostpkg.Host{a, b} {
			ok := []bool{okA, okB}[hi]
			s := state[h]
			if ok != s.healthy {
				s.run++
			} else {
				s.run = 0
			}
			want := s.healthy
			if s.run > int(thr) {
				want = !s.healthy
			}
			if h.IsHealthy() != want {
				sched.Fail("monitor-loop-flag-differs-from-hysteresis-rule", fmt.Sprintf("threshold %d outcomes %05b tick %d host %s: flag %v, rule says %v (run %d)", thr, bits, tick, h.Addr, h.IsHealthy(), want, s.run))
			}
			if want != s.healthy {
				s.healthy, s.run = want, 0
			}
		}
		usable := map[string]bool{}
		for _, h := range set.Healthy() {
			usable[h.Addr] = true
		}
		for _, h := range []*hostpkg.Host{a, b} {
			s := state[h]
			if usable[h.Addr] != s.healthy {
				sched.Fail("monitor-loop-usable-view-differs-from-flags", fmt.Sprintf("threshold %d outcomes %05b tick %d host %s", thr, bits, tick, h.Addr))
			}
		}
	}
	stopped := false
	sched.GoNamed("stopper", func() { m.Stop(); stopped = true })
	sched.WaitQuiescent()
	if !stopped {
		sched.Fail("monitor-stop-never-returns", "")
	}
	sched.SetOutcome(fmt.Sprintf("thr=%d", thr))
}

func init() {
	sched.Register(&sched.Scenario{Name: "C15/monitor-loop", Setup: func(tier string) (sched.Config, func()) {
		b := sched.Bounds{P: 0, F: 1}
		if tier == "thorough" {
			b = sched.Bounds{P: 1, F: 1, Sel: 1}
		}
		return sched.Config{Bounds: b, Iterative: true, MaxSteps: 100000}, c15loopBody
	}})
}

// ---------------------------------------------------------------------------
// C09 (H) health monitor with more hosts than its check concurrency: one check round over n hosts for n around
// MaximumConcurrency (the fan-out channel and the number of workers are capped there), then Stop.
// oracle    the round ends, every host was checked once, Stop returns (a service's Stop starts with it)
// ---------------------------------------------------------------------------

type countingChecker struct{ n map[string]int }

func (c *countingChecker) Check(addr string, timeout time.Duration) error {
	c.n[addr]++
	return nil
}

func c09manyHostsBody() {
	n := []int{MaximumConcurrency - 1, MaximumConcurrency, MaximumConcurrency + 1, MaximumConcurrency + 60}[sched.Choose(sched.ClsInput, 4, "hosts")]
	var hs []*hostpkg.Host
	for i := 0; i < n; i++ {
		hs = append(hs, hostpkg.New(fmt.Sprintf("10.%d.%d.%d:80", 1+i/65536, (i/256)%256, i%256)))
	}
	set := hostpkg.NewSet(hs...)
	cfg := &pbhc.HealthCheck{Interval: time.Second, Timeout: time.Second, RiseThreshold: 1, FallThreshold: 1,
		Checker: &pbhc.HealthCheck_TcpChecker{TcpChecker: &pbhc.TCPChecker{}}}
	m, err := NewMonitor(cfg, set, log.New("verif"))
	if err != nil || m == nil {
		sched.Fail("harness-newmonitor", fmt.Sprint(err))
		return
	}
	chk := &countingChecker{n: map[string]int{}}
	m.checker = chk
	m.Start()
	sched.WaitQuiescent()
	sched.AdvanceTime(int64(time.Second))
	sched.WaitQuiescent()
	stopped := false
	sched.GoNamed("stopper", func() { m.Stop(); stopped = true })
	sched.WaitQuiescent()
	if !stopped {
		sched.Fail("monitor-stop-never-returns / more hosts than the check concurrency", fmt.Sprintf("%d hosts (concurrency cap %d): Stop did not return after one check round; %d hosts were checked", n, MaximumConcurrency, len(chk.n)))
		return
	}
	if len(chk.n) != n {
		sched.Fail("hosts-not-checked / more hosts than the check concurrency", fmt.Sprintf("%d hosts, %d checked in one round", n, len(chk.n)))
	}
	sched.SetOutcome(fmt.Sprint(n))
}

// ---------------------------------------------------------------------------
// C15 (H) more hosts than the check concurrency, some of them failing: every result counts for the host it was
// obtained from.
// alphabet  n in {cap+1, cap+60, 2*cap+5}; the failing hosts are the first 40 | the last 40 | every 50th (by address);
//           3 rounds, fall threshold 1
// oracle    after every round a host is unusable exactly if its own checks failed more than fall-threshold times
// ---------------------------------------------------------------------------

type scriptedChecker struct {
	fails map[string]bool
	n     map[string]int
}

func (c *scriptedChecker) Check(addr string, timeout time.Duration) error {
	c.n[addr]++
	if c.fails[addr] {
		return fmt.Errorf("scripted failure")
	}
	return nil
}

func c15manyHostsBody() {
	n := []int{MaximumConcurrency + 1, MaximumConcurrency + 60, 2*MaximumConcurrency + 5}[sched.Choose(sched.ClsInput, 3, "hosts")]
	which := sched.Choose(sched.ClsInput, 3, "failing hosts")
	var hs []*hostpkg.Host
	chk := &scriptedChecker{fails: map[string]bool{}, n: map[string]int{}}
	for i := 0; i < n; i++ {
		a := fmt.Sprintf("10.%d.%d.%d:80", 1+i/65536, (i/256)%256, i%256)
		hs = append(hs, hostpkg.New(a))
		if which == 0 && i < 40 || which == 1 && i >= n-40 || which == 2 && i%50 == 7 {
			chk.fails[a] = true
		}
	}
	set := hostpkg.NewSet(hs...)
	cfg := &pbhc.HealthCheck{Interval: time.Second, Timeout: time.Second, RiseThreshold: 1, FallThreshold: 1,
		Checker: &pbhc.HealthCheck_TcpChecker{TcpChecker: &pbhc.TCPChecker{}}}
	m, err := NewMonitor(cfg, set, log.New("verif"))
	if err != nil || m == nil {
		sched.Fail("harness-newmonitor", fmt.Sprint(err))
		return
	}
	m.checker = chk
	m.Start()
	sched.WaitQuiescent()
	tag := fmt.Sprintf("%d hosts (concurrency cap %d), failing hosts: %s", n, MaximumConcurrency, []string{"the first 40", "the last 40", "every 50th"}[which])
	for round := 1; round <= 3; round++ {
		sched.AdvanceTime(int64(time.Second))
		sched.WaitQuiescent()
		usable := map[string]bool{}
		for _, h := range set.Healthy() {
			usable[h.Addr] = true
		}
		wrong, example := 0, ""
		for _, h := range hs {
			wantUsable := !(chk.fails[h.Addr] && chk.n[h.Addr] > int(cfg.FallThreshold))
			if usable[h.Addr] != wantUsable {
				wrong++
				if example == "" {
					example = fmt.Sprintf("%s usable=%v after %d checks of its own (failing=%v)", h.Addr, usable[h.Addr], chk.n[h.Addr], chk.fails[h.Addr])
				}
			}
		}
		if wrong > 0 {
			sched.Fail("health-differs-from-own-check-results / more hosts than the check concurrency", fmt.Sprintf("%s, round %d: %d hosts differ, e.g. %s", tag, round, wrong, example))
			break
		}
	}
	stopped := false
	sched.GoNamed("stopper", func() { m.Stop(); stopped = true })
	sched.WaitQuiescent()
	if !stopped {
		sched.Fail("monitor-stop-never-returns / more hosts than the check concurrency", tag)
	}
	sched.SetOutcome(fmt.Sprint(n))
}

func init() {
	sched.Register(&sched.Scenario{Name: "C15/hc-many-hosts", Setup: func(tier string) (sched.Config, func()) {
		return sched.Config{Bounds: sched.Bounds{}, Iterative: true, MaxSteps: 4000000}, c15manyHostsBody
	}})
	sched.Register(&sched.Scenario{Name: "C09/hc-many-hosts", Setup: func(tier string) (sched.Config, func()) {
		return sched.Config{Bounds: sched.Bounds{}, Iterative: true, MaxSteps: 2000000}, c09manyHostsBody
	}})
}
