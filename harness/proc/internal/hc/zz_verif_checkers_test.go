//go:build go1.21

package hc

import (
	"fmt"
	"io"
	"time"

	hostpkg "github.com/samaritan-proxy/samaritan/host"
	pbhc "github.com/samaritan-proxy/samaritan/pb/config/hc"
	"github.com/samaritan-proxy/samaritan/proc/internal/log"
	"github.com/samaritan-proxy/samaritan/verifrt/sched"
	"github.com/samaritan-proxy/samaritan/verifrt/vnet"
	"github.com/samaritan-proxy/samaritan/verifrt/vtime"
)

// ---------------------------------------------------------------------------
// C09 (S) the health monitor with its real protocol checkers (redis, advanced TCP, MySQL) on the virtual
// network: check rounds against a backend that answers, answers something else, answers late, says nothing,
// closes at once or refuses, then Stop (a service's Stop starts with it).
//
// alphabet  checker in {redis, atcp, mysql} x backend behaviour (6) x 2 hosts (the second one always answers)
//           x rounds in {1, 2, 3}
// bound     all schedules P0 F1 Sel1 (quick) / P1 F2 Sel1 (thorough)
// oracle    Stop returns; no goroutine of the monitor or of a checker is left; every connection a checker
//           opened is closed; a backend that answers in time is usable after the rounds, one that failed
//           FallThreshold+1 rounds is not
// ---------------------------------------------------------------------------

var c09hcBehaviours = []string{"answers", "silent", "wrong-answer", "late-answer", "closes", "refused"}

func c09hcConfig(proto string) *pbhc.HealthCheck {
	cfg := &pbhc.HealthCheck{Interval: 10 * time.Second, Timeout: time.Second, RiseThreshold: 1, FallThreshold: 1}
	switch proto {
	case "redis":
		cfg.Checker = &pbhc.HealthCheck_RedisChecker{RedisChecker: &pbhc.RedisChecker{}}
	case "atcp":
		cfg.Checker = &pbhc.HealthCheck_AtcpChecker{AtcpChecker: &pbhc.ATCPChecker{Action: []*pbhc.ATCPChecker_Action{
			{Send: []byte(`"hello\n"`), Expect: []byte(`"world"`)},
			{Send: []byte(`"bye\n"`), Expect: []byte(`"ok"`)},
		}}}
	case "mysql":
		cfg.Checker = &pbhc.HealthCheck_MysqlChecker{MysqlChecker: &pbhc.MySQLChecker{Username: "probe"}}
	}
	return cfg
}

// c09hcServe is one scripted backend connection.
func c09hcServe(c *vnet.VConn, proto, behaviour string) {
	defer c.Close()
	read := func(n int) bool {
		buf := make([]byte, n)
		_, err := io.ReadFull(c, buf)
		return err == nil
	}
	pause := func() {
		if behaviour == "late-answer" {
			vtime.Sleep(1500 * time.Millisecond)
		}
	}
	switch behaviour {
	case "closes":
		return
	case "silent":
		io.Copy(io.Discard, c) // until the checker gives up
		return
	}
	switch proto {
	case "redis":
		if !read(len("*1\r\n$4\r\nping\r\n")) {
			return
		}
		pause()
		if behaviour == "wrong-answer" {
			c.Write([]byte("-LOADING\r\n"))
		} else {
			c.Write([]byte("+PONG\r\n"))
		}
	case "atcp":
		if !read(len("hello\n")) {
			return
		}
		pause()
		if behaviour == "wrong-answer" {
			c.Write([]byte("wor1d wor"))
			io.Copy(io.Discard, c)
			return
		}
		c.Write([]byte("xx wo"))
		c.Write([]byte("rld"))
		if !read(len("bye\n")) {
			return
		}
		c.Write([]byte("ok"))
	case "mysql":
		// greeting first, then the OK packet once the handshake response arrived
		pause()
		c.Write([]byte{3, 0, 0, 0, 10, 53, 0})
		if behaviour == "wrong-answer" {
			c.Write(append([]byte{12, 0, 0, 2, 0xff, 0x15, 0x04, '#'}, "28000msg"...)) // ERR packet (access denied)
		} else {
			c.Write([]byte{7, 0, 0, 2, 0, 0, 0, 2, 0, 0, 0}) // OK packet
		}
		io.Copy(io.Discard, c)
		return
	}
	io.Copy(io.Discard, c)
}

func c09hcCheckersBody() {
	proto := []string{"redis", "atcp", "mysql"}[sched.Choose(sched.ClsInput, 3, "checker")]
	behaviour := c09hcBehaviours[sched.Choose(sched.ClsInput, len(c09hcBehaviours), "backend")]
	rounds := 1 + sched.Choose(sched.ClsInput, 3, "rounds")
	addrs := []string{"10.0.0.1:3306", "10.0.0.2:3306"}
	for i, a := range addrs {
		b := behaviour
		if i == 1 {
			b = "answers"
		}
		if b == "refused" {
			continue
		}
		l, err := vnet.Listen("tcp", a)
		if err != nil {
			sched.Fail("harness-listen", err.Error())
			return
		}
		sched.GoServer("backend "+a, func() {
			for {
				c, err := l.Accept()
				if err != nil {
					return
				}
				vc := c.(*vnet.VConn)
				sched.GoServer("backend-conn "+a, func() { c09hcServe(vc, proto, b) })
			}
		})
	}
	hs := []*hostpkg.Host{hostpkg.New(addrs[0]), hostpkg.New(addrs[1])}
	set := hostpkg.NewSet(hs...)
	m, err := NewMonitor(c09hcConfig(proto), set, log.New("verif"))
	if err != nil || m == nil {
		sched.Fail("harness-newmonitor", fmt.Sprint(err))
		return
	}
	m.Start()
	sched.WaitQuiescent()
	for r := 0; r < rounds; r++ {
		d := 10 * time.Second // the ticker: one round
		if r > 0 {
			d = 8 * time.Second
		}
		sched.AdvanceTime(int64(d))
		sched.WaitQuiescent()
		sched.AdvanceTime(int64(time.Second)) // the check timeout
		sched.WaitQuiescent()
		sched.AdvanceTime(int64(time.Second)) // late answers
		sched.WaitQuiescent()
	}
	// Stop may arrive while a check round is in progress (a silent or late backend keeps a check busy until its
	// timeout): Stop waits for the round, and when it returns nothing of the monitor is left
	mid := sched.Choose(sched.ClsInput, 2, "stop in the middle of a round") == 1
	if mid {
		sched.AdvanceTime(int64(8 * time.Second))
		sched.WaitQuiescent()
		rounds++
	}
	stopped := false
	sched.GoNamed("stopper", func() { m.Stop(); stopped = true })
	sched.WaitQuiescent()
	if mid && !stopped {
		sched.AdvanceTime(int64(time.Second)) // the check timeout
		sched.WaitQuiescent()
		if !stopped {
			sched.AdvanceTime(int64(time.Second))
			sched.WaitQuiescent()
		}
	}
	tag := fmt.Sprintf("%s checker, backend %s, %d round(s)", proto, behaviour, rounds)
	if mid {
		tag += ", Stop during the last round"
	}
	if !stopped {
		sched.Fail("monitor-stop-never-returns / "+proto+" checker", tag)
		return
	}
	for _, b := range sched.LiveNonServer() {
		sched.Fail("goroutine-left-after-stop / health check / "+proto+" checker / backend "+behaviour, fmt.Sprintf("%s: %s parked in %s", tag, b.Name, b.Kind))
	}
	opened := 0
	for _, c := range vnet.Conns() {
		if c.IsServerSide() {
			continue
		}
		opened++
		if !c.IsClosed() {
			sched.Fail("connection-left-open-after-stop / health check / "+proto+" checker / backend "+behaviour, fmt.Sprintf("%s: %s", tag, c))
		}
	}
	wantOpened := rounds * 2
	if behaviour == "refused" {
		wantOpened = rounds
	}
	if opened != wantOpened {
		sched.Fail("checks-per-round / health check / "+proto+" checker", fmt.Sprintf("%s: %d connections were opened, one check per host and round makes %d", tag, opened, wantOpened))
	}
	usable := map[string]bool{}
	for _, h := range set.Healthy() {
		usable[h.Addr] = true
	}
	if !usable[addrs[1]] {
		sched.Fail("answering-backend-marked-unusable / "+proto+" checker", tag)
	}
	switch {
	case behaviour == "answers" && !usable[addrs[0]]:
		sched.Fail("answering-backend-marked-unusable / "+proto+" checker", tag)
	case behaviour != "answers" && rounds >= 2 && usable[addrs[0]]:
		sched.Fail("failing-backend-still-usable / "+proto+" checker / backend "+behaviour, fmt.Sprintf("%s: %d failed rounds, fall threshold 1", tag, rounds))
	}
	sched.SetOutcome(fmt.Sprintf("%s %s usable=%v", proto, behaviour, usable[addrs[0]]))
}

func init() {
	sched.Register(&sched.Scenario{Name: "C09/hc-checkers", Setup: func(tier string) (sched.Config, func()) {
		b := sched.Bounds{P: 0, F: 1, Sel: 1}
		if tier == "thorough" {
			b = sched.Bounds{P: 1, F: 2, Sel: 1}
		}
		return sched.Config{Bounds: b, Iterative: true, MaxSteps: 200000, TimerBudget: 0}, c09hcCheckersBody
	}})
}
