//go:build verif && go1.21

package proc

import "net"

// VerifSetListenFunc replaces the function the listener binds with (verification seam,
// only compiled into the instrumented overlay build).
func VerifSetListenFunc(f func(network, address string) (net.Listener, error)) (restore func()) {
	old := defaultListenFunc
	defaultListenFunc = f
	return func() { defaultListenFunc = old }
}
