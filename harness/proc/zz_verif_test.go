//go:build go1.21

package proc

import (
	"errors"
	"fmt"
	"net"
	"strings"
	"testing"

	"github.com/samaritan-proxy/samaritan/pb/common"
	"github.com/samaritan-proxy/samaritan/pb/config/service"
	"github.com/samaritan-proxy/samaritan/proc/internal/log"
	"github.com/samaritan-proxy/samaritan/stats"
	"github.com/samaritan-proxy/samaritan/verifrt/hutil"
	"github.com/samaritan-proxy/samaritan/verifrt/sched"
	"github.com/samaritan-proxy/samaritan/verifrt/vnet"
)

func TestVerif(t *testing.T) { hutil.Quiet(); sched.Main(t) }

// ---------------------------------------------------------------------------
// C09 (S) listener driver: the real listener on the virtual network.
//
// threads   Serve; a Stop / Drain / Drain-then-Stop caller (the interleavings are the call timings: before
//           bind, during the bind retry pause, between bind and storing the socket, while accepting, with
//           active connections); 0-2 clients; connection handlers that serve until their connection closes
// alphabet  bind fails 0 | 1 | always times; action stop | drain | drain+stop; clients 0..2; limit 0 | 1 (INPUT)
// bound     P, F, Sel (see Setup); bind-retry timers fire at quiescence (budget 3)
// oracle    at quiescence: the Stop/Drain caller has returned; after Stop the socket is closed (the address
//           can be bound again), every accepted connection is closed and no thread of the listener is left;
//           after Drain no later client is served while established connections stay open; never more than
//           limit connections served at once, and a connection under the limit is served; (C20) after Stop the
//           downstream statistics are conserved: cx_total grew by as much as cx_destroy_total, cx_active is back
// ---------------------------------------------------------------------------

const c09addr = "127.0.0.1:7000"

var vfDownStats = NewDownstreamStats(stats.CreateScope("service.verif-listener"))

func c09body() {
	bindFails := []int{0, 1, 99}[sched.Choose(sched.ClsInput, 3, "bind-fails")]
	action := []string{"stop", "drain", "drain+stop"}[sched.Choose(sched.ClsInput, 3, "action")]
	nclients := sched.Choose(sched.ClsInput, 3, "clients")
	limit := uint32(sched.Choose(sched.ClsInput, 2, "limit"))

	// the statistics scope outlives one execution: the oracle below works on differences
	total0, destroyed0, active0 := vfDownStats.CxTotal.Value(), vfDownStats.CxDestroyTotal.Value(), vfDownStats.CxActive.Value()

	attempts := 0
	restore := VerifSetListenFunc(func(network, address string) (net.Listener, error) {
		attempts++
		if attempts <= bindFails {
			return nil, errors.New("bind: address already in use")
		}
		return vnet.Listen(network, address)
	})
	sched.OnReset(restore)

	serving, maxServing, served := 0, 0, 0
	handler := func(conn net.Conn) {
		serving++
		served++
		if serving > maxServing {
			maxServing = serving
		}
		buf := make([]byte, 16)
		for {
			if _, err := conn.Read(buf); err != nil {
				break
			}
		}
		serving--
	}
	cfg := &service.Listener{Address: &common.Address{Ip: "127.0.0.1", Port: 7000}, ConnectionLimit: limit}
	li, err := NewListener(cfg, vfDownStats, log.New("[verif]"), handler)
	if err != nil {
		sched.Fail("harness-newlistener", err.Error())
	}
	l := li.(*listener)
	serveReturned := false
	sched.GoNamed("Serve", func() { l.Serve(); serveReturned = true })
	var clients []*vnet.VConn
	for i := 0; i < nclients; i++ {
		i := i
		sched.GoNamed(fmt.Sprintf("client%d", i), func() {
			c, err := vnet.DialConn(c09addr)
			if err != nil {
				return
			}
			c.Label = fmt.Sprintf("client%d", i)
			clients = append(clients, c)
		})
	}
	callerDone := false
	drainReturned := false
	sched.GoNamed("caller", func() {
		switch action {
		case "stop":
			l.Stop()
		case "drain":
			l.Drain()
			drainReturned = true
		case "drain+stop":
			l.Drain()
			drainReturned = true
			l.Stop()
		}
		callerDone = true
	})
	sched.WaitQuiescent()
	tag := fmt.Sprintf("bind-fails=%d action=%s clients=%d limit=%d", bindFails, action, nclients, limit)
	if !callerDone {
		where := "?"
		for _, b := range sched.Blocked() {
			if b.Name == "caller" {
				where = b.Kind
			}
		}
		phase := "after the socket was bound"
		if attempts <= bindFails || attempts == 0 {
			phase = "before the socket was bound"
		}
		sched.Fail(fmt.Sprintf("%s-never-returns / %s", strings.Split(action, "+")[len(strings.Split(action, "+"))-1], phase), fmt.Sprintf("%s: the caller is parked in %s (Serve returned=%v, bind attempts=%d)", tag, where, serveReturned, attempts))
	}
	if limit > 0 && maxServing > int(limit) {
		sched.Fail("connection-limit-exceeded", fmt.Sprintf("%s: %d connections served at once", tag, maxServing))
	}
	if action != "drain" {
		// stopped: everything released
		if vnet.Bound(c09addr) {
			sched.Fail("listening-socket-left-open-after-stop", tag)
		}
		for _, c := range vnet.Conns() {
			if c.IsServerSide() && !c.IsClosed() && !c.WasReset() {
				sched.Fail("downstream-connection-left-open-after-stop", fmt.Sprintf("%s: %s", tag, c))
			}
		}
		for _, b := range sched.LiveNonServer() {
			if b.Name == "Serve" || strings.HasPrefix(b.Name, "listener.go") {
				sched.Fail("listener-goroutine-left-after-stop / "+b.Name, fmt.Sprintf("%s: parked in %s", tag, b.Kind))
			}
		}
		// C20, downstream side: once stopped, every connection that was counted is counted as destroyed
		total, destroyed, active := vfDownStats.CxTotal.Value()-total0, vfDownStats.CxDestroyTotal.Value()-destroyed0, int64(vfDownStats.CxActive.Value())-int64(active0)
		if callerDone && (total != destroyed || active != 0) {
			sched.Fail("downstream-connection-stats-not-conserved-after-stop", fmt.Sprintf("%s: cx_total +%d, cx_destroy_total +%d, cx_active %+d", tag, total, destroyed, active))
		}
		if callerDone && int(total) < served {
			sched.Fail("served-connection-not-counted", fmt.Sprintf("%s: %d connections served, cx_total +%d", tag, served, total))
		}
	} else if drainReturned {
		// drained: no new connection is served, established ones stay open
		before := served
		c, err := vnet.DialConn(c09addr)
		sched.WaitQuiescent()
		if err == nil && served > before {
			sched.Fail("connection-served-after-drain", fmt.Sprintf("%s: a client connecting after Drain returned was served", tag))
		}
		_ = c
		open := 0
		for _, cc := range clients {
			if !cc.Peer().IsClosed() && !cc.WasReset() {
				open++
			}
		}
		if open < serving {
			sched.Fail("established-connection-closed-by-drain", fmt.Sprintf("%s: %d handlers still serving but only %d connections open", tag, serving, open))
		}
	}
	sched.SetOutcome(fmt.Sprintf("%s served=%d max=%d", tag, served, maxServing))
}

// limit driver: arrivals against a limit, no stop
func c09limitBody() {
	limit := uint32(1 + sched.Choose(sched.ClsInput, 2, "limit"))
	restore := VerifSetListenFunc(func(network, address string) (net.Listener, error) { return vnet.Listen(network, address) })
	sched.OnReset(restore)
	serving, maxServing, served := 0, 0, 0
	handler := func(conn net.Conn) {
		serving++
		served++
		if serving > maxServing {
			maxServing = serving
		}
		buf := make([]byte, 16)
		for {
			if _, err := conn.Read(buf); err != nil {
				break
			}
		}
		serving--
	}
	cfg := &service.Listener{Address: &common.Address{Ip: "127.0.0.1", Port: 7000}, ConnectionLimit: limit}
	li, _ := NewListener(cfg, vfDownStats, log.New("[verif]"), handler)
	l := li.(*listener)
	sched.GoNamed("Serve", func() { l.Serve() })
	sched.WaitQuiescent()
	n := int(limit) + 1
	var conns []*vnet.VConn
	for i := 0; i < n; i++ {
		sched.GoNamed(fmt.Sprintf("client%d", i), func() {
			c, err := vnet.DialConn(c09addr)
			if err == nil {
				conns = append(conns, c)
			}
		})
	}
	sched.WaitQuiescent()
	if maxServing > int(limit) {
		sched.Fail("connection-limit-exceeded", fmt.Sprintf("limit %d: %d connections served at once", limit, maxServing))
	}
	if served < int(limit) {
		sched.Fail("connection-under-the-limit-not-served", fmt.Sprintf("limit %d, %d arrivals: only %d served", limit, n, served))
	}
	// one leaves, a later one must be served
	if len(conns) > 0 {
		for _, c := range conns {
			if !c.Peer().IsClosed() {
				c.Close()
				break
			}
		}
		sched.WaitQuiescent()
		before := served
		vnet.DialConn(c09addr)
		sched.WaitQuiescent()
		if served != before+1 {
			sched.Fail("connection-under-the-limit-not-served", fmt.Sprintf("limit %d: after one connection left a new one was not served", limit))
		}
	}
	sched.SetOutcome(fmt.Sprintf("limit=%d served=%d", limit, served))
}

func init() {
	sched.Register(&sched.Scenario{Name: "C09/listener", Setup: func(tier string) (sched.Config, func()) {
		b := sched.Bounds{P: 2, F: 2, Sel: 1}
		if tier == "thorough" {
			b = sched.Bounds{P: 3, F: 2, Sel: 1}
		}
		return sched.Config{Bounds: b, Iterative: true, TimerBudget: 3}, c09body
	}})
	sched.Register(&sched.Scenario{Name: "C09/limit", Setup: func(tier string) (sched.Config, func()) {
		b := sched.Bounds{P: 2, F: 2}
		if tier == "thorough" {
			b = sched.Bounds{P: 3, F: 3}
		}
		return sched.Config{Bounds: b, Iterative: true}, c09limitBody
	}})
}
