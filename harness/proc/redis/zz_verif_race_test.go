//go:build go1.21

package redis

import (
	"fmt"
	"runtime"
	"sync"

	"github.com/samaritan-proxy/samaritan/host"
	pbredis "github.com/samaritan-proxy/samaritan/pb/config/protocol/redis"
	"github.com/samaritan-proxy/samaritan/verifrt/sched"
	"github.com/samaritan-proxy/samaritan/verifrt/sim/cluster"
	"github.com/samaritan-proxy/samaritan/verifrt/sim/resp"
	"github.com/samaritan-proxy/samaritan/verifrt/vnet"
)

// ---------------------------------------------------------------------------
// Race pass for the redis-stack (assumption check for C01-C04, C07, C09, C13, C14, C18-C20):
// the controlled scheduler interleaves threads only at synchronisation operations (and at the listed
// unsynchronised fields), which decides the properties only if all other shared memory is accessed under
// synchronisation. Here the *unmodified* code (real goroutines, channels, selects, locks and timers; only
// the network is the in-memory one) serves three pipelining clients while the slot layout changes, slots
// are refreshed, compression and the read strategy are switched, a backend's connections are reset, a
// host is removed and re-added, HOTKEY and SCAN run, and finally everything is stopped - in a binary
// built with -race. Any report of the detector is a violation (signature: the two accessing functions).
// ---------------------------------------------------------------------------

func redisStackRace() {
	vnet.FreeReset()
	cl := cluster.New(2, 1, 2)
	cl.Start()
	var seeds []string
	for _, n := range cl.Nodes {
		seeds = append(seeds, n.Addr)
	}
	p := vfNewProc(vfSvcConfig(pbredis.ReadStrategy_BOTH, c13cps(true, 8), 0), seeds...)
	served := make(chan struct{})
	go func() { p.u.Serve(); close(served) }()
	keys := []string{cl.KeyInGroup("k", 0, 0), cl.KeyInGroup("k", 1, 0), cl.KeyInGroup("j", 0, 1), cl.KeyInGroup("j", 1, 1)}
	big := string(c13pattern("run", 300))
	huge := string(c13pattern("rnd", 40000)) // (length headers and integers beyond the encoder's small-number table)
	var wg sync.WaitGroup
	var sessions sync.WaitGroup
	for ci := 0; ci < 3; ci++ {
		ci := ci
		a, b := vnet.Pipe()
		sessions.Add(1)
		go func() { defer sessions.Done(); p.handleConn(b) }()
		c := &vfClient{name: fmt.Sprint("c", ci), c: a}
		wg.Add(1)
		go func() {
			defer wg.Done()
			defer c.Close()
			for i := 0; i < 16; i++ {
				k := keys[(i+ci)%len(keys)]
				cmds := [][]string{{"SET", k, big}, {"GET", k}, {"MGET", keys[0], keys[1], keys[2]}, {"INCR", "n" + k}, {"DEL", keys[3], keys[2]}, {"HSET", "h" + k, "f", big}, {"HGETALL", "h" + k}, {"PING"}, {"HOTKEY"}, {"SCAN", "0"}, {"APPEND", k, "x"},
					{"SET", "big" + k, huge}, {"GET", "big" + k}, {"INCRBY", "n" + k, "100000"}, {"STRLEN", "big" + k}}
				// alternate between one command at a time and a pipeline of three
				if i%2 == 0 {
					if _, err := c.Do(cmds[i%len(cmds)]...); err != nil {
						return
					}
					continue
				}
				var raw []byte
				for j := 0; j < 3; j++ {
					raw = append(raw, resp.Encode(resp.Cmd(cmds[(i+j)%len(cmds)]...))...)
				}
				if c.Send(raw) != nil {
					return
				}
				for j := 0; j < 3; j++ {
					if _, err := c.Read(); err != nil {
						return
					}
				}
			}
		}()
	}
	wg.Add(1)
	go func() {
		defer wg.Done()
		m0, m1 := cl.Masters()[0], cl.Masters()[1]
		steps := []func(){
			func() { p.u.triggerSlotsRefresh() },
			func() { cl.Locked(func() { cl.MoveGroup(0, m1) }) },
			func() { p.OnSvcConfigUpdate(vfSvcConfig(pbredis.ReadStrategy_MASTER, c13cps(false, 8), 0)) },
			func() { m0.ResetConns() },
			func() { p.u.OnHostRemove(host.New(m0.Addr)) },
			func() { p.u.OnHostAdd(host.New(m0.Addr)) },
			func() { p.OnSvcConfigUpdate(vfSvcConfig(pbredis.ReadStrategy_REPLICA, c13cps(true, 64), 0)) },
			func() { cl.Locked(func() { cl.MoveGroup(0, m0) }) },
			func() { p.u.triggerSlotsRefresh() },
			func() { _ = p.u.HotKeys() },
		}
		for _, st := range steps {
			for i := 0; i < 50; i++ {
				runtime.Gosched()
			}
			st()
		}
	}()
	wg.Wait()
	sessions.Wait()
	p.u.Stop()
	<-served
	for _, n := range cl.Nodes {
		n.Stop()
	}
}

func init() {
	sched.Register(&sched.Scenario{Name: "C02/stack-race", Race: redisStackRace})
}
