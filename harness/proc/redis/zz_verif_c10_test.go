//go:build go1.21

package redis

import (
	"bytes"
	"encoding/json"
	"fmt"
	"io"
	"math"
	"strconv"
	"strings"
	"sync"

	"github.com/samaritan-proxy/samaritan/verifrt/sched"
	"github.com/samaritan-proxy/samaritan/verifrt/sim/resp"
)

// ---------------------------------------------------------------------------
// C10 (I): the real encoder/decoder against the independent codec (sim/resp)
// and strconv.
//
// alphabet  values: grammar depth <= 2, arrays of length <= 2 (+ null, empty), texts from a boundary
//           set around 32/512/4096/8192, integers from a 64-bit boundary set
// bound     all 2^(n-1) chunkings for streams <= 14 bytes, every placement of <= 2 (quick) / 3
//           (thorough) cuts for longer streams; reader buffers {32,33,47,64,4096,8192}
// oracle    decode(encode(v)) = v; encode(decode(canonical bytes)) = bytes; a chunked stream of
//           messages decodes to exactly those messages, consuming exactly their bytes (a sentinel
//           follows), earlier results intact after later decodes; 300 repetitions of one null/empty/nested
//           message followed by other values through one decoder; inline = array form;
//           btoi64 = strconv.ParseInt; itoa = strconv.FormatInt; bulk strings around and beyond one megabyte followed
//           by further messages, delivered whole and in pieces
// ---------------------------------------------------------------------------

type chunkReader struct {
	chunks [][]byte
}

func (c *chunkReader) Read(p []byte) (int, error) {
	for len(c.chunks) > 0 && len(c.chunks[0]) == 0 {
		c.chunks = c.chunks[1:]
	}
	if len(c.chunks) == 0 {
		return 0, io.EOF
	}
	n := copy(p, c.chunks[0])
	c.chunks[0] = c.chunks[0][n:]
	return n, nil
}

func c10text(n int) []byte {
	b := make([]byte, n)
	for i := range b {
		b[i] = byte('a' + i%26)
	}
	return b
}

func c10texts(tier string) [][]byte {
	lens := []int{0, 1, 2, 31, 32, 33, 511, 512, 513, 4094, 4095, 4096, 4097, 4098, 8190, 8191, 8192, 8193, 8194}
	if tier == "thorough" {
		lens = append(lens, 30, 34, 46, 47, 48, 63, 64, 65, 510, 514, 1023, 1024, 1025, 4093, 4099, 8189, 8195, 16384, 70000)
	}
	var out [][]byte
	for _, l := range lens {
		out = append(out, c10text(l))
	}
	return out
}

var c10ints = []int64{0, 1, -1, 9, -9, 10, -10, -128, -129, -127, 32767, 32768, 32769, 99999999, 100000000, 999999999, 1000000000, -999999999, -1000000000,
	math.MaxInt32, math.MinInt32, math.MaxInt32 + 1, math.MaxInt64, math.MinInt64, math.MaxInt64 - 1, math.MinInt64 + 1}

func c10values(tier string) []resp.Value {
	var leaves []resp.Value
	for _, t := range c10texts(tier) {
		leaves = append(leaves, resp.Value{Kind: '+', Str: t}, resp.Value{Kind: '-', Str: t}, resp.Bulk(t))
	}
	binary := [][]byte{[]byte("\r"), []byte("\n"), []byte("\r\n"), []byte("\x00"), []byte("$-1\r\n"), []byte("a b"), []byte("*1\r\n")}
	for _, t := range binary {
		leaves = append(leaves, resp.Bulk(t))
	}
	leaves = append(leaves, resp.NullBulk(), resp.Simple("OK"), resp.Err("ERR x y"))
	for _, i := range c10ints {
		leaves = append(leaves, resp.Int(i))
	}
	vals := append([]resp.Value{}, leaves...)
	vals = append(vals, resp.NullArray(), resp.Array())
	// depth 1 arrays: length 1 over all leaves, length 2 over a reduced set
	small := []resp.Value{resp.BulkS(""), resp.BulkS("a"), resp.NullBulk(), resp.Int(-1), resp.Simple("OK"), resp.Err("E"), resp.Bulk(c10text(33)), resp.Bulk(c10text(513)), resp.Bulk([]byte("\r\n"))}
	for _, l := range leaves {
		vals = append(vals, resp.Array(l))
	}
	var d1 []resp.Value
	for _, a := range small {
		for _, b := range small {
			v := resp.Array(a, b)
			vals = append(vals, v)
			d1 = append(d1, v)
		}
	}
	d1 = append(d1, resp.NullArray(), resp.Array(), resp.Array(resp.BulkS("x")))
	// depth 2
	for i, a := range d1 {
		vals = append(vals, resp.Array(a))
		if i%7 == 0 {
			for j, b := range d1 {
				if j%5 == 0 {
					vals = append(vals, resp.Array(a, b), resp.Array(resp.Int(7), a))
				}
			}
		}
	}
	return vals
}

func c10encode(v resp.Value) ([]byte, error) {
	var b bytes.Buffer
	e := newEncoder(&b, 4096)
	if err := e.Encode(fromSim(v)); err != nil {
		return nil, err
	}
	if err := e.Flush(); err != nil {
		return nil, err
	}
	return b.Bytes(), nil
}

type c10case struct {
	Kind   string   `json:"kind"`
	Stream []byte   `json:"stream,omitempty"`
	Cuts   []int    `json:"cuts,omitempty"`
	Buf    int      `json:"buf,omitempty"`
	N      int      `json:"n,omitempty"`
	Text   string   `json:"text,omitempty"`
	Int    int64    `json:"int,omitempty"`
	Want   []string `json:"want,omitempty"`
}

// c10decodeStream decodes n messages + sentinel from stream cut at cuts with the given buffer.
func c10decodeStream(stream []byte, cuts []int, buf int, want []resp.Value) (string, string) {
	var chunks [][]byte
	prev := 0
	for _, c := range cuts {
		chunks = append(chunks, append([]byte{}, stream[prev:c]...))
		prev = c
	}
	chunks = append(chunks, append([]byte{}, stream[prev:]...))
	d := newDecoder(&chunkReader{chunks: chunks}, buf)
	var got []*RespValue
	for i := 0; i < len(want); i++ {
		v, err := d.Decode()
		if err != nil {
			return "decode-error", fmt.Sprintf("message %d: %v", i, err)
		}
		got = append(got, v)
	}
	for i, v := range got { // compared after all decodes: catches aliasing of earlier results
		if !resp.Equal(toSim(v), want[i]) {
			return "decoded-value-differs", fmt.Sprintf("message %d: got %s want %s", i, toSim(v), want[i])
		}
	}
	if _, err := d.Decode(); err != io.EOF {
		return "trailing-data-or-error", fmt.Sprintf("after the last message: err=%v", err)
	}
	return "", ""
}

func c10run(env sched.Env) *sched.Report {
	rep := &sched.Report{Outcomes: map[string]int64{}, Complete: true}
	sigs := map[string]bool{}
	fail := func(sig, detail string, c c10case) {
		rep.Outcomes["violation: "+sig]++
		if !sigs[sig] {
			sigs[sig] = true
			rep.Violations = append(rep.Violations, sched.CustomViolation("C10/codec", sig, detail, c))
		}
	}
	vals := c10values(env.Tier)
	bufs := []int{32, 33, 47, 64, 4096, 8192}
	sentinel := resp.Simple("END")
	distinct := map[string]bool{}

	// (a) round trips
	for _, v := range vals {
		if env.Shard != 0 {
			break
		}
		rep.Execs++
		sched.Progress(nil)
		canon := resp.Encode(v)
		distinct[string(canon[:min(len(canon), 48)])+strconv.Itoa(len(canon))] = true
		got, err := c10encode(v)
		if err != nil || !bytes.Equal(got, canon) {
			fail("encode-differs / "+string(v.Kind), fmt.Sprintf("value %s: real encoder %q (err %v), canonical %q", v, abbreviate(got), err, abbreviate(canon)), c10case{Kind: "encode", Stream: canon})
			continue
		}
		for _, bs := range bufs {
			rep.Execs++
			sched.Progress(nil)
			sched.Progress(c10case{Kind: "stream", Stream: canon, Buf: bs, N: 1})
			if s, d := c10decodeStream(append(append([]byte{}, canon...), resp.Encode(sentinel)...), nil, bs, []resp.Value{v, sentinel}); s != "" {
				fail(s+" / single message / "+string(v.Kind), fmt.Sprintf("buf %d value %s: %s", bs, v, d), c10case{Kind: "stream", Stream: canon, Buf: bs, N: 1})
			}
		}
		// decode canonical then re-encode
		d := newDecoder(bytes.NewReader(canon), 4096)
		rv, err := d.Decode()
		if err == nil {
			var b bytes.Buffer
			e := newEncoder(&b, 64)
			e.Encode(rv)
			e.Flush()
			if !bytes.Equal(b.Bytes(), canon) {
				fail("reencode-differs / "+string(v.Kind), fmt.Sprintf("value %s", v), c10case{Kind: "encode", Stream: canon})
			}
		}
	}

	// (b) chunkings of concatenations
	var small []resp.Value
	for _, v := range vals {
		if len(resp.Encode(v)) <= 24 {
			small = append(small, v)
		}
	}
	maxCuts := 2
	if env.Tier == "thorough" {
		maxCuts = 3
	}
	streams := 0
	tryStream := func(msgs []resp.Value) {
		var stream []byte
		for _, m := range msgs {
			stream = append(stream, resp.Encode(m)...)
		}
		stream = append(stream, resp.Encode(sentinel)...)
		want := append(append([]resp.Value{}, msgs...), sentinel)
		n := len(stream)
		streams++
		run := func(cuts []int, bs int) {
			rep.Execs++
			sched.Progress(nil)
			sched.Progress(c10case{Kind: "stream", Stream: stream, Cuts: cuts, Buf: bs, N: len(want)})
			if s, d := c10decodeStream(stream, cuts, bs, want); s != "" {
				fail(s+" / chunked stream", fmt.Sprintf("stream %q cuts %v buf %d: %s", abbreviate(stream), cuts, bs, d), c10case{Kind: "stream", Stream: stream, Cuts: cuts, Buf: bs, N: len(want)})
			}
		}
		if n <= 14 {
			for mask := 0; mask < 1<<uint(n-1); mask++ {
				var cuts []int
				for i := 0; i < n-1; i++ {
					if mask>>uint(i)&1 == 1 {
						cuts = append(cuts, i+1)
					}
				}
				run(cuts, 32)
				run(cuts, 4096)
			}
			return
		}
		for _, bs := range bufs {
			for a := 1; a < n; a++ {
				run([]int{a}, bs)
			}
		}
		if n <= 60 {
			for _, bs := range []int{32, 33} {
				for a := 1; a < n; a++ {
					for b := a + 1; b < n; b++ {
						run([]int{a, b}, bs)
						if maxCuts >= 3 && n <= 30 && bs == 32 {
							for c := b + 1; c < n; c++ {
								run([]int{a, b, c}, bs)
							}
						}
					}
				}
			}
		}
	}
	for i, a := range small {
		if sched.PastDeadline(env.Deadline) {
			rep.Complete = false
			break
		}
		if i%env.NShards != env.Shard {
			continue
		}
		tryStream([]resp.Value{a})
		for j, b := range small {
			if (i+j)%3 != 0 {
				continue
			}
			tryStream([]resp.Value{a, b})
			if (i+2*j)%11 == 0 {
				tryStream([]resp.Value{a, b, small[(i+j)%len(small)]})
			}
		}
	}
	// values beyond one megabyte (a top-level bulk string and one inside an array), followed by further messages in
	// the same stream: delivered whole and in pieces of 7 bytes / 4 KiB / 64 KiB / 1 MiB
	bigN := 0
	for _, l := range []int{1<<20 - 3, 1<<20 - 2, 1<<20 - 1, 1 << 20, 1<<20 + 1, 1<<20 + 300000, 3<<20 + 5} {
		for shape := 0; shape < 2; shape++ {
			for _, bs := range []int{32, 4096, 8192} {
				for _, piece := range []int{0, 7, 4096, 65536, 1 << 20} {
					bigN++
					if bigN%env.NShards != env.Shard || (piece == 7 && l > 1<<20+1) {
						continue
					}
					v := resp.Bulk(c10text(l))
					if shape == 1 {
						v = resp.Array(resp.Int(7), resp.Bulk(c10text(l)), resp.BulkS("tail"))
					}
					stream := append(append(append([]byte{}, resp.Encode(v)...), resp.Encode(resp.BulkS("x"))...), resp.Encode(sentinel)...)
					var cuts []int
					for c := piece; piece > 0 && c < len(stream); c += piece {
						cuts = append(cuts, c)
					}
					rep.Execs++
					sched.Progress(nil)
					if s, d := c10decodeStream(stream, cuts, bs, []resp.Value{v, resp.BulkS("x"), sentinel}); s != "" {
						fail(s+" / value beyond one megabyte", fmt.Sprintf("bulk string of %d bytes (shape %d), reader buffer %d, delivered in pieces of %d: %s", l, shape, bs, piece, abbreviate([]byte(d))), c10case{Kind: "stream", Stream: stream, Cuts: cuts, Buf: bs, N: 3})
					}
				}
			}
		}
	}

	// long messages: one cut everywhere near the interesting boundaries
	for vi, v := range vals {
		if vi%env.NShards != env.Shard {
			continue
		}
		enc := resp.Encode(v)
		if len(enc) <= 24 || len(enc) > 9000 {
			continue
		}
		stream := append(append(append([]byte{}, enc...), resp.Encode(resp.BulkS("x"))...), resp.Encode(sentinel)...)
		want := []resp.Value{v, resp.BulkS("x"), sentinel}
		for _, bs := range bufs {
			cand := map[int]bool{}
			for _, base := range []int{0, bs, 2 * bs, len(enc), len(stream), 512, 4096, 8192} {
				for d := -3; d <= 3; d++ {
					if c := base + d; c > 0 && c < len(stream) {
						cand[c] = true
					}
				}
			}
			for c := range cand {
				rep.Execs++
				sched.Progress(nil)
				sched.Progress(c10case{Kind: "stream", Stream: stream, Cuts: []int{c}, Buf: bs, N: 3})
				if s, d := c10decodeStream(stream, []int{c}, bs, want); s != "" {
					fail(s+" / long message", fmt.Sprintf("len %d cut %d buf %d: %s", len(enc), c, bs, d), c10case{Kind: "stream", Stream: stream, Cuts: []int{c}, Buf: bs, N: 3})
				}
				for c2 := range cand {
					if c2 > c && (c2-c) < 9 {
						rep.Execs++
						sched.Progress(nil)
						if s, d := c10decodeStream(stream, []int{c, c2}, bs, want); s != "" {
							fail(s+" / long message", fmt.Sprintf("len %d cuts %d,%d buf %d: %s", len(enc), c, c2, bs, d), c10case{Kind: "stream", Stream: stream, Cuts: []int{c, c2}, Buf: bs, N: 3})
						}
					}
				}
			}
		}
	}
	rep.Notes = append(rep.Notes, fmt.Sprintf("%d values, %d concatenated streams", len(vals), streams))

	// (c) inline form
	// (only the space separates the words of an inline command: tabs, other control characters and Unicode spaces
	// are data, as they are for redis-server)
	words := []string{"a", "GET", "k1", "0", "-1", string(c10text(40)), "*", "$3", "a\tb", "v\x0bw\x0cq", "x\u00a0y", "\u4f60\u597d\u3000\u4e16\u754c", "m\u0085n\u2028o", "\x00\xff"}
	var inl func(prefix []string)
	inl = func(prefix []string) {
		if len(prefix) > 0 {
			line := strings.Join(prefix, " ") + "\r\n"
			for _, variant := range []string{line, " " + line, strings.Replace(line, " ", "  ", 1)} {
				if variant[0] == '*' || variant[0] == '$' || variant[0] == '+' || variant[0] == '-' || variant[0] == ':' {
					continue // would not be an inline command
				}
				rep.Execs++
				sched.Progress(nil)
				want := resp.Cmd(prefix...)
				for _, bs := range []int{32, 4096} {
					if s, d := c10decodeStream(append([]byte(variant), resp.Encode(sentinel)...), nil, bs, []resp.Value{want, sentinel}); s != "" {
						fail(s+" / inline", fmt.Sprintf("inline %q: %s", variant, d), c10case{Kind: "inline", Text: variant, Buf: bs})
					}
				}
			}
		}
		if len(prefix) == 3 {
			return
		}
		for _, w := range words {
			inl(append(append([]string{}, prefix...), w))
		}
	}
	if env.Shard == 0 {
		inl(nil)
	}

	// (d) integer parsing against strconv
	alpha := []byte{'+', '-', '0', '1', '9', 'a', ' '}
	maxL := 7
	if env.Tier == "thorough" {
		maxL = 8
	}
	var gen func(p []byte)
	gen = func(p []byte) {
		rep.Execs++
		sched.Progress(nil)
		got, gerr := btoi64(p)
		want, werr := strconv.ParseInt(string(p), 10, 64)
		if (gerr != nil) != (werr != nil) || (gerr == nil && got != want) {
			fail("btoi64-differs-from-strconv", fmt.Sprintf("input %q: got %d,%v want %d,%v", p, got, gerr, want, werr), c10case{Kind: "btoi", Text: string(p)})
		}
		if len(p) == maxL {
			return
		}
		for _, c := range alpha {
			gen(append(p, c))
		}
	}
	if env.Shard == 0 {
		gen(make([]byte, 0, 16))
	}
	for _, i := range c10ints {
		for _, s := range []string{strconv.FormatInt(i, 10), "+" + strconv.FormatInt(i, 10), strconv.FormatInt(i, 10) + "0", "9" + strconv.FormatInt(i, 10)} {
			rep.Execs++
			sched.Progress(nil)
			got, gerr := btoi64([]byte(s))
			want, werr := strconv.ParseInt(s, 10, 64)
			if (gerr != nil) != (werr != nil) || (gerr == nil && got != want) {
				fail("btoi64-differs-from-strconv", fmt.Sprintf("input %q: got %d,%v want %d,%v", s, got, gerr, want, werr), c10case{Kind: "btoi", Text: s})
			}
		}
	}
	// (d') digit strings around every length threshold and around the int64 / uint64 limits
	if env.Shard == 0 {
		var toks []string
		for l := 8; l <= 21; l++ {
			for _, d := range []string{"1", "9"} {
				toks = append(toks, strings.Repeat(d, l), "1"+strings.Repeat("0", l-1), strings.Repeat("0", l-1)+d)
			}
		}
		for _, b := range []string{"9223372036854775806", "9223372036854775807", "9223372036854775808", "9223372036854775809", "9223372036854775810",
			"9223372036854775817", "9300000000000000000", "9999999999999999999", "18446744073709551615", "18446744073709551616", "2147483647", "2147483648",
			"4294967295", "4294967296", "999999999", "1000000000", "9999999999", "10000000000"} {
			toks = append(toks, b)
		}
		for _, t := range toks {
			for _, s := range []string{t, "-" + t, "+" + t} {
				rep.Execs++
				sched.Progress(nil)
				got, gerr := btoi64([]byte(s))
				want, werr := strconv.ParseInt(s, 10, 64)
				if (gerr != nil) != (werr != nil) || (gerr == nil && got != want) {
					fail("btoi64-differs-from-strconv / near a length or range limit", fmt.Sprintf("input %q: got %d,%v want %d,%v", s, got, gerr, want, werr), c10case{Kind: "btoi", Text: s})
				}
			}
		}
	}
	// (f) long concatenations through ONE decoder: 300 repetitions of a unit (null/empty/nested messages),
	// followed by every value of the grammar; whatever was decoded before must not change what comes later
	if env.Shard == 0 {
		units := []resp.Value{resp.NullArray(), resp.Array(), resp.NullBulk(), resp.BulkS(""), resp.Array(resp.NullArray()),
			resp.Array(resp.Array(resp.NullArray(), resp.NullArray())), resp.Array(resp.Array(resp.Array())), resp.Int(0), resp.Simple(""), resp.Err("")}
		tails := c10values(env.Tier)
		if len(tails) > 40 {
			tails = tails[:40]
		}
		for ui, u := range units {
			ub := resp.Encode(u)
			var stream []byte
			var want []resp.Value
			for i := 0; i < 300; i++ {
				stream = append(stream, ub...)
				want = append(want, u)
			}
			for _, t := range tails {
				stream = append(stream, resp.Encode(t)...)
				want = append(want, t)
			}
			for _, buf := range []int{32, 4096} {
				rep.Execs++
				sched.Progress(nil)
				if sig, detail := c10decodeStream(stream, nil, buf, want); sig != "" {
					fail(sig+" / after 300 repetitions of one message", fmt.Sprintf("unit %s (#%d), buffer %d: %s", u, ui, buf, detail), c10case{Kind: "repeat", Int: int64(ui)})
				}
			}
		}
	}
	// (e) itoa
	for i := int64(-70000); i <= 70000 && env.Shard == 0; i++ {
		rep.Execs++
		sched.Progress(nil)
		if itoa(i) != strconv.FormatInt(i, 10) {
			fail("itoa-differs-from-strconv", fmt.Sprintf("itoa(%d)=%q", i, itoa(i)), c10case{Kind: "itoa", Int: i})
		}
	}
	for _, i := range c10ints {
		rep.Execs++
		sched.Progress(nil)
		if itoa(i) != strconv.FormatInt(i, 10) {
			fail("itoa-differs-from-strconv", fmt.Sprintf("itoa(%d)=%q", i, itoa(i)), c10case{Kind: "itoa", Int: i})
		}
	}
	rep.Distinct = int64(len(distinct)) + int64(streams)
	rep.Rule = "distinct = distinct encoded values + distinct concatenated streams (each then run under all enumerated chunkings x buffer sizes); integer strings and itoa arguments are additional evaluations"
	rep.CustomSamples = []interface{}{
		map[string]interface{}{"stream": "$1\r\na\r\n:-1\r\n+END\r\n", "cuts": []int{3, 4}, "buf": 32},
		map[string]interface{}{"value": "[$\"\" [$nil :7]]", "buf": 47},
		map[string]interface{}{"inline": "GET  k1\r\n"},
		map[string]interface{}{"btoi64": "+-19a"},
	}
	return rep
}

func abbreviate(b []byte) string {
	if len(b) > 60 {
		return string(b[:40]) + fmt.Sprintf("...(%d bytes)", len(b))
	}
	return string(b)
}

func c10replay(in json.RawMessage) []sched.Failure {
	var c c10case
	json.Unmarshal(in, &c)
	switch c.Kind {
	case "stream":
		vs, _, _ := resp.DecodeAll(c.Stream)
		if c.N == 1 {
			vs = append(vs, resp.Simple("END"))
			c.Stream = append(c.Stream, resp.Encode(resp.Simple("END"))...)
		}
		s, d := c10decodeStream(c.Stream, c.Cuts, c.Buf, vs)
		fmt.Printf("stream %q cuts %v buf %d -> %s %s\n", abbreviate(c.Stream), c.Cuts, c.Buf, s, d)
		if s != "" {
			return []sched.Failure{{Sig: s + " / chunked stream", Detail: d}, {Sig: s + " / long message", Detail: d}, {Sig: s + " / single message / " + string(vs[0].Kind), Detail: d}}
		}
	case "btoi":
		got, gerr := btoi64([]byte(c.Text))
		want, werr := strconv.ParseInt(c.Text, 10, 64)
		fmt.Printf("btoi64(%q) = %d,%v; strconv %d,%v\n", c.Text, got, gerr, want, werr)
		if (gerr != nil) != (werr != nil) || (gerr == nil && got != want) {
			return []sched.Failure{{Sig: "btoi64-differs-from-strconv"}}
		}
	case "itoa":
		fmt.Printf("itoa(%d) = %q\n", c.Int, itoa(c.Int))
		if itoa(c.Int) != strconv.FormatInt(c.Int, 10) {
			return []sched.Failure{{Sig: "itoa-differs-from-strconv"}}
		}
	case "encode":
		vs, _, _ := resp.DecodeAll(c.Stream)
		if len(vs) == 1 {
			got, err := c10encode(vs[0])
			fmt.Printf("encode(%s) = %q err %v\n", vs[0], abbreviate(got), err)
			if err != nil || !bytes.Equal(got, c.Stream) {
				return []sched.Failure{{Sig: "encode-differs / " + string(vs[0].Kind)}, {Sig: "reencode-differs / " + string(vs[0].Kind)}}
			}
		}
	case "inline":
		d := newDecoder(strings.NewReader(c.Text), c.Buf)
		v, err := d.Decode()
		fmt.Printf("inline %q -> %s err %v\n", c.Text, toSim(v), err)
		want := resp.Cmd(strings.Fields(strings.TrimRight(c.Text, "\r\n"))...)
		if err != nil || !resp.Equal(toSim(v), want) {
			return []sched.Failure{{Sig: "decoded-value-differs / inline"}, {Sig: "decode-error / inline"}}
		}
	}
	return nil
}

func init() {
	sched.Register(&sched.Scenario{Name: "C10/codec", Custom: c10run, ReplayCustom: c10replay})
}

// Race pass for the codec (assumption check for C10): four goroutines, each with its own encoder and decoder as
// every session and every backend client has, encode and decode values with integers and length headers over
// the whole range at the same time; nothing may be shared between them (run in the -race binary; a wrong round
// trip panics).
func c10codecRace() {
	var wg sync.WaitGroup
	for g := 0; g < 4; g++ {
		g := g
		wg.Add(1)
		go func() {
			defer wg.Done()
			for i := 0; i < 40; i++ {
				big := int64(1)<<uint(20+g*10) + int64(i)
				v := resp.Array(resp.Int(big), resp.Int(-big), resp.Bulk(bytes.Repeat([]byte{byte('a' + g)}, 33000+g*1000+i)), resp.Int(int64(32768+g)), resp.Simple("ok"))
				raw, err := c10encode(v)
				if err != nil {
					sched.RaceFail("encode-error / encoders used concurrently", err.Error())
					return
				}
				d := newDecoder(bytes.NewReader(raw), 4096)
				got, err := d.Decode()
				if err != nil || !resp.Equal(toSim(got), v) {
					sched.RaceFail("decoded-value-differs / encoders used concurrently", fmt.Sprintf("goroutine %d: a value encoded and decoded with its private encoder and decoder came back different (err %v)", g, err))
					return
				}
			}
		}()
	}
	wg.Wait()
}

func init() {
	sched.Register(&sched.Scenario{Name: "C10/codec-race", Race: c10codecRace})
}
