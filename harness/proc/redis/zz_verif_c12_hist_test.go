//go:build go1.21

package redis

import (
	"fmt"
	"strings"

	"github.com/samaritan-proxy/samaritan/host"
	"github.com/samaritan-proxy/samaritan/verifrt/sched"
	"github.com/samaritan-proxy/samaritan/verifrt/sim/cluster"
	"github.com/samaritan-proxy/samaritan/verifrt/sim/resp"
	"github.com/samaritan-proxy/samaritan/verifrt/vrand"
)

// ---------------------------------------------------------------------------
// C12 (H): what the proxy learns from redirections must be about the key that was redirected.
//
// history   m0 owns slot groups g0, g1, g2 and m1 owns g3. g0 moves to m1 and a GET is redirected (refresh; the
//           refresh loop then pauses). g1 moves to m1 and a command for a key of g1 is redirected during the pause:
//           GET, SET, EVAL with a script text that itself hashes into g2, or MGET. Then a key of g2 whose slot is
//           exactly the slot of that script text (g2 never moved) is read.
// oracle    the read of the g2 key is delivered to m0 directly: no node answers MOVED for a slot that never moved
// ---------------------------------------------------------------------------

func c12redirectLearningBody() {
	vrand.Fair()
	cl := cluster.New(2, 0, 4)
	m0, m1 := cl.Masters()[0], cl.Masters()[1]
	cl.Owner[0], cl.Owner[1], cl.Owner[2], cl.Owner[3] = m0, m0, m0, m1
	s := vfStartStack(cl, vfSvcConfig(0, nil, 0))
	c := s.NewClient("c0")
	ka, kb := cl.KeyInGroup("a", 0, 0), cl.KeyInGroup("b", 1, 0)
	// a script text and a key that share one slot of g2
	script, victim := "", ""
	for i := 0; script == ""; i++ {
		t := fmt.Sprintf("return 1 -- %d", i)
		if cl.Group(cluster.Slot([]byte(t))) == 2 {
			script = t
		}
	}
	target := cluster.Slot([]byte(script))
	for i := 0; victim == ""; i++ {
		k := fmt.Sprintf("v%d", i)
		if cluster.Slot([]byte(k)) == target {
			victim = k
		}
	}
	c.Do("SET", victim, "1")
	sched.WaitQuiescent()
	cl.MoveGroup(0, m1)
	c.Do("GET", ka)
	sched.WaitQuiescent()
	cl.MoveGroup(1, m1)
	kind := []string{"GET", "SET", "EVAL", "MGET"}[sched.Choose(sched.ClsInput, 4, "redirected command")]
	switch kind {
	case "GET":
		c.Do("GET", kb)
	case "SET":
		c.Do("SET", kb, "x")
	case "EVAL":
		c.Do("EVAL", script, "1", kb)
	case "MGET":
		c.Do("MGET", kb, ka)
	}
	sched.WaitQuiescent()
	mark := len(cl.Log)
	v, err := c.Do("GET", victim)
	sched.WaitQuiescent()
	if err != nil || string(v.Str) != "1" {
		sched.Fail("wrong-reply / key of a slot that never moved", fmt.Sprintf("GET %s after a redirected %s: %s %v", victim, kind, v, err))
	}
	if r := cl.Redirects(mark); r > 0 {
		sched.Fail("key-of-unmoved-slot-sent-to-a-node-that-answers-MOVED / after a redirected "+kind, fmt.Sprintf("slot %d (group 2, always owned by m0) was routed to another node after a %s for a key of group 1 had been redirected; %d redirections for GET %s", target, kind, r, victim))
	}
	sched.SetOutcome(kind)
}

func init() {
	sched.Register(&sched.Scenario{Name: "C12/redirect-learning", Setup: func(tier string) (sched.Config, func()) {
		b := sched.Bounds{}
		if tier == "thorough" {
			b = sched.Bounds{P: 1, F: 1}
		}
		return sched.Config{Bounds: b, Iterative: true, MaxSteps: 200000}, c12redirectLearningBody
	}})
}

// ---------------------------------------------------------------------------
// C12 (H): the table the routing uses must be the one the cluster reports, for every way a node can be listed.
//
// history   two masters with two slot groups each; one of: (0) m1 runs with the no-failover option and is listed with
//           that flag; (a) the other nodes list m1 as suspected ("fail?", it
//           is alive and owns its slots) from the start; (b) m1 comes back on another address with the same node
//           id, then the periodic refresh; (c) m1 is listed suspected after the proxy learned the layout, then the
//           periodic refresh; (d) m1 is dropped from the service's host list while it still owns its slots - under both rotations of the refresh's host pick; then every key is read and written
// oracle    every command arrives first at the node that owns its slot (at its current address), no node answers
//           MOVED, replies are the single-server replies
// ---------------------------------------------------------------------------

func c12reportedTableBody() {
	vrand.Fair()
	if sched.Choose(sched.ClsInput, 2, "rotation of the random host picks") == 1 {
		vrand.Intn(2)
	}
	hist := []string{"suspected-from-start", "owner-changes-address", "suspected-later", "listed-with-nofailover", "owner-reports-clusterdown", "owner-leaves-the-host-list"}[sched.Choose(sched.ClsInput, 6, "history")]
	cl := cluster.New(2, 0, 4)
	m0, m1 := cl.Masters()[0], cl.Masters()[1]
	if hist == "suspected-from-start" {
		m1.Suspected = true
	}
	if hist == "listed-with-nofailover" {
		m1.ExtraFlags = "nofailover"
	}
	s := vfStartStack(cl, vfSvcConfig(0, nil, 0))
	c := s.NewClient("c0")
	var keys []string
	for g := 0; g < 4; g++ {
		keys = append(keys, cl.KeyInGroup("k", g, 0), cl.KeyInGroup("x}{y", g, 1))
	}
	switch hist {
	case "owner-changes-address":
		m1.Stop()
		m1.Addr = "10.0.9.9:6379"
		m1.Up()
		sched.WaitQuiescent()
		sched.AdvanceTime(int64(slotsRefFreq) + 1)
		sched.WaitQuiescent()
		s.RefreshRound()
	case "owner-leaves-the-host-list":
		// the registry drops m1 from the service's host list; the cluster is what it was, m1 still owns its slots,
		// and the keys are used right away (before the refresh that the notice asks for has had its turn)
		// (a refresh has just completed, so the next one waits for the minimum interval between refreshes)
		s.p.u.triggerSlotsRefresh()
		sched.WaitQuiescent()
		s.p.OnSvcHostRemove([]*host.Host{host.New(m1.Addr)})
	case "suspected-later":
		m1.Suspected = true
		sched.AdvanceTime(int64(slotsRefFreq) + 1)
		sched.WaitQuiescent()
		s.RefreshRound()
	}
	_ = m0
	for round := 0; round < 2; round++ {
		for _, k := range keys {
			for _, args := range [][]string{{"SET", k, "v"}, {"GET", k}} {
				mark := len(cl.Log)
				if hist == "owner-reports-clusterdown" && round == 0 {
					// the owner refuses this command once with -CLUSTERDOWN (it lost sight of the majority for a moment):
					// an error reply is fine, sending the key anywhere else is not
					cl.OwnerOfKey(k).RefuseOnce = map[string][]byte{strings.ToLower(args[0]): []byte("-CLUSTERDOWN The cluster is down\r\n")}
				}
				v, err := c.Do(args...)
				sched.WaitQuiescent()
				if hist == "owner-reports-clusterdown" && round == 0 && err == nil && v.Kind == '-' {
					if r := cl.Redirects(mark); r > 0 {
						sched.Fail("key-sent-to-a-node-that-answers-MOVED / "+hist, fmt.Sprintf("%v (owner %s): %d redirection(s)", args, cl.OwnerOfKey(k).ID, r))
						return
					}
					s.RefreshRound()
					continue
				}
				want := refExec(s.ref, args)
				if err != nil || !resp.Equal(v, want) {
					sched.Fail("wrong-reply / "+hist, fmt.Sprintf("%v: proxy replied %s (%v), a single server replies %s", args, v, err, want))
					return
				}
				if r := cl.Redirects(mark); r > 0 {
					sched.Fail("key-sent-to-a-node-that-answers-MOVED / "+hist, fmt.Sprintf("%v (owner %s at %s): %d redirection(s)", args, cl.OwnerOfKey(k).ID, cl.OwnerOfKey(k).Addr, r))
					return
				}
			}
		}
	}
	sched.SetOutcome(hist)
}

func init() {
	sched.Register(&sched.Scenario{Name: "C12/reported-table", Setup: func(tier string) (sched.Config, func()) {
		b := sched.Bounds{}
		if tier == "thorough" {
			b = sched.Bounds{P: 1, F: 1}
		}
		return sched.Config{Bounds: b, Iterative: true, MaxSteps: 400000}, c12reportedTableBody
	}})
}
