//go:build go1.21

package hotkey

import (
	"encoding/json"
	"fmt"

	"github.com/samaritan-proxy/samaritan/verifrt/sched"
)

// ---------------------------------------------------------------------------
// C19 (I): the report of a collector that serves many backends whose counters are all full in the same period.
//
// alphabet  capacity in {1, 2, 4, 50, 51, 255}; backends 1 .. enough for 600 keys in one period (at most 310); every
//           counter tracks capacity distinct keys; two periods (the second one meets the report of the first)
// bound     every (capacity, backends) pair
// oracle    after each collection the report lists at most capacity keys, none twice, ordered by non-increasing
//           heat, only keys that were accessed
// ---------------------------------------------------------------------------

type manyCase struct {
	Cap      uint8 `json:"capacity"`
	Backends int   `json:"backends"`
}

func manyRun(cs manyCase) (sig, detail string) {
	col := NewCollector(cs.Cap)
	var ctrs []*Counter
	for i := 0; i < cs.Backends; i++ {
		ctrs = append(ctrs, col.AllocCounter(fmt.Sprintf("n%d", i)))
	}
	accessed := map[string]bool{}
	for period := 0; period < 2; period++ {
		for i, c := range ctrs {
			for j := 0; j < int(cs.Cap); j++ {
				k := fmt.Sprintf("b%dk%d", i, j)
				if period == 1 && i%2 == 1 {
					k = fmt.Sprintf("b%dq%d", i, j)
				}
				for v := 0; v <= j%3; v++ {
					c.Incr(k)
				}
				accessed[k] = true
			}
		}
		col.collect()
		hk := col.HotKeys()
		tag := fmt.Sprintf("capacity %d, %d backends, period %d", cs.Cap, cs.Backends, period+1)
		if len(hk) > int(cs.Cap) {
			return "hotkey-report-longer-than-capacity / many backends", fmt.Sprintf("%s: the report lists %d keys", tag, len(hk))
		}
		names := map[string]bool{}
		for i, k := range hk {
			if names[k.Name] {
				return "hotkey-report-lists-key-twice / many backends", fmt.Sprintf("%s: %q", tag, k.Name)
			}
			names[k.Name] = true
			if !accessed[k.Name] {
				return "hotkey-report-lists-key-never-accessed / many backends", fmt.Sprintf("%s: %q", tag, k.Name)
			}
			if i > 0 && hk[i-1].Counter.Value() < k.Counter.Value() {
				return "hotkey-report-not-ordered / many backends", fmt.Sprintf("%s: %s", tag, heats(hk))
			}
		}
	}
	return "", ""
}

func c19manyBackends(env sched.Env) *sched.Report {
	rep := &sched.Report{Outcomes: map[string]int64{}, Complete: true}
	sigs := map[string]bool{}
	n := 0
	for _, capn := range []uint8{1, 2, 4, 50, 51, 255} {
		top := 600/int(capn) + 2
		if top > 310 {
			top = 310
		}
		for b := 1; b <= top; b++ {
			n++
			if n%env.NShards != env.Shard {
				continue
			}
			cs := manyCase{Cap: capn, Backends: b}
			rep.Execs++
			sched.Progress(cs)
			sig, detail := manyRun(cs)
			sched.Progress(nil)
			if sig != "" {
				rep.Outcomes["violation: "+sig]++
				if !sigs[sig] {
					sigs[sig] = true
					rep.Violations = append(rep.Violations, sched.CustomViolation("C19/many-backends", sig, detail, cs))
				}
			} else {
				rep.Outcomes["ok"]++
			}
		}
	}
	rep.States, rep.Distinct, rep.Transitions = rep.Execs, rep.Execs, rep.Execs
	rep.CustomSamples = []interface{}{manyCase{Cap: 50, Backends: 6}}
	return rep
}

func init() {
	sched.Register(&sched.Scenario{Name: "C19/many-backends", Custom: c19manyBackends, ReplayCustom: func(in json.RawMessage) []sched.Failure {
		var cs manyCase
		json.Unmarshal(in, &cs)
		if sig, detail := manyRun(cs); sig != "" {
			return []sched.Failure{{Sig: sig, Detail: detail}}
		}
		return nil
	}})
}
