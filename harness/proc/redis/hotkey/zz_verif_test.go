//go:build go1.21

package hotkey

import (
	"encoding/json"
	"fmt"
	"sort"
	"strings"
	"testing"

	"github.com/samaritan-proxy/samaritan/verifrt/hutil"
	"github.com/samaritan-proxy/samaritan/verifrt/sched"
	"github.com/samaritan-proxy/samaritan/verifrt/vrand"
	vsync "github.com/samaritan-proxy/samaritan/verifrt/vsync"
)

func TestVerif(t *testing.T) { hutil.Quiet(); sched.Main(t) }

// ---------------------------------------------------------------------------
// C19 (H1): every operation sequence on a real Counter.
//
// alphabet  Incr(k) for k in 4 keys | Latch | Free ; capacity in {0,1,2,3}; plus capacities {1,2,127,128,254,255}
//           (the type's boundaries) with capacity+60 distinct keys and one hot key
// bound     depth (quick 7, thorough 9), canonical-state de-duplication (frequency list dumped
//           through the private pointers)
// oracle    tracked keys <= capacity; each tracked key's count = accesses since admission; the key
//           evicted on admission had a minimal count; Latch returns exactly the reference map;
//           structural invariants of the frequency list
// ---------------------------------------------------------------------------

type ctrOp struct {
	K string `json:"k"` // "I0".."I3", "L", "F"
}

type ctrCase struct {
	Cap uint8   `json:"cap"`
	Ops []ctrOp `json:"ops"`
}

var ctrKeys = []string{"k0", "k1", "k2", "k3"}

// dump returns the canonical state and checks structural invariants.
func ctrDump(c *Counter) (string, string) {
	var b strings.Builder
	seen := map[string]bool{}
	var prev *freqNode
	var lastFreq uint64
	for fn := c.freqHead; fn != nil; fn = fn.next {
		if fn.prev != prev {
			return "", "freq node prev pointer inconsistent"
		}
		if prev != nil && fn.freq <= lastFreq {
			return "", fmt.Sprintf("frequencies not strictly ascending (%d after %d)", fn.freq, lastFreq)
		}
		if fn.itemHead == nil {
			return "", fmt.Sprintf("empty frequency node %d left in the list", fn.freq)
		}
		fmt.Fprintf(&b, "%d:", fn.freq)
		var ip *itemNode
		for it := fn.itemHead; it != nil; it = it.next {
			if it.prev != ip {
				return "", "item prev pointer inconsistent"
			}
			if it.freqNode != fn {
				return "", "item points to another frequency node"
			}
			if seen[it.key] {
				return "", "key listed twice: " + it.key
			}
			seen[it.key] = true
			if c.items[it.key] != it {
				return "", "list item not in map: " + it.key
			}
			b.WriteString(it.key + ",")
			ip = it
		}
		if fn.itemTail != ip {
			return "", "item tail inconsistent"
		}
		b.WriteString(";")
		prev, lastFreq = fn, fn.freq
	}
	if len(seen) != len(c.items) {
		return "", fmt.Sprintf("map has %d keys, list %d", len(c.items), len(seen))
	}
	return b.String(), ""
}

// ctrRun replays ops on a fresh counter with the reference model; returns oracle failure (sig, detail) and state.
func ctrRun(cs ctrCase, verbose bool) (sig, detail, state string) {
	freed := 0
	c := NewCounter(cs.Cap, func() { freed++ })
	ref := map[string]uint64{}
	defer func() {
		if r := recover(); r != nil {
			sig = fmt.Sprintf("panic / %v", r)
			if len(sig) > 90 {
				sig = sig[:90]
			}
			detail = fmt.Sprintf("ops %v capacity %d: %v", cs.Ops, cs.Cap, r)
		}
	}()
	for i, op := range cs.Ops {
		switch op.K[0] {
		case 'I':
			k := ctrKeys[op.K[1]-'0']
			_, tracked := ref[k]
			wasFull := len(ref) >= int(cs.Cap)
			c.Incr(k)
			if tracked {
				ref[k]++
			} else {
				if wasFull && len(ref) > 0 {
					// find which key the implementation evicted; it must have had a minimal count
					var min uint64 = 1 << 62
					for _, v := range ref {
						if v < min {
							min = v
						}
					}
					evicted := ""
					for rk := range ref {
						if _, still := c.items[rk]; !still {
							if evicted != "" {
								return "evicted-more-than-one", fmt.Sprintf("step %d %s", i, op.K), ""
							}
							evicted = rk
						}
					}
					if evicted == "" {
						return "tracks-more-than-capacity / admission-when-full", fmt.Sprintf("step %d: nothing was evicted, tracked %d capacity %d", i, len(c.items), cs.Cap), ""
					}
					if ref[evicted] != min {
						return "evicted-key-not-minimal", fmt.Sprintf("step %d: evicted %s with count %d, minimal count %d", i, evicted, ref[evicted], min), ""
					}
					delete(ref, evicted)
				}
				if cs.Cap > 0 {
					ref[k] = 1
				}
			}
		case 'L':
			got := c.Latch()
			if fmt.Sprint(got) != fmt.Sprint(ref) {
				return "latch-differs-from-reference", fmt.Sprintf("step %d: Latch()=%v reference %v", i, got, ref), ""
			}
			ref = map[string]uint64{}
		case 'F':
			c.Free()
			ref = map[string]uint64{}
		}
		st, bad := ctrDump(c)
		if bad != "" {
			return "structure / " + bad[:min(len(bad), 40)], fmt.Sprintf("after step %d (%s): %s", i, op.K, bad), ""
		}
		if len(c.items) > int(cs.Cap) {
			return "tracks-more-than-capacity", fmt.Sprintf("after step %d: %d keys, capacity %d", i, len(c.items), cs.Cap), ""
		}
		for k, it := range c.items {
			if ref[k] != it.freqNode.freq {
				return "count-differs-from-accesses", fmt.Sprintf("after step %d: key %s count %d, accesses since admission %d", i, k, it.freqNode.freq, ref[k]), ""
			}
		}
		if len(c.items) != len(ref) {
			return "tracked-set-differs", fmt.Sprintf("after step %d: tracked %d reference %d", i, len(c.items), len(ref)), ""
		}
		state = st
		if verbose {
			fmt.Printf("  %-3s -> %s\n", op.K, st)
		}
	}
	return "", "", state
}

func c19counter(env sched.Env) *sched.Report {
	depth := 7
	if env.Tier == "thorough" {
		depth = 9
	}
	rep := &sched.Report{Outcomes: map[string]int64{}, Complete: true}
	alphabet := []string{"I0", "I1", "I2", "I3", "L", "F"}
	sigs := map[string]bool{}
	for capn := uint8(0); capn <= 3; capn++ {
		seen := map[string]bool{"": true}
		frontier := [][]ctrOp{{}}
		for d := 0; d < depth && len(frontier) > 0; d++ {
			var next [][]ctrOp
			for _, path := range frontier {
				for _, a := range alphabet {
					np := append(append([]ctrOp{}, path...), ctrOp{a})
					cs := ctrCase{capn, np}
					sig, detail, st := ctrRun(cs, false)
					rep.Execs++
					sched.Progress(nil)
					rep.Transitions++
					if sig != "" {
						full := fmt.Sprintf("%s / capacity=%s", sig, capClass(capn))
						rep.Outcomes["violation: "+full]++
						if !sigs[full] {
							sigs[full] = true
							rep.Violations = append(rep.Violations, sched.CustomViolation("C19/counter", full, detail, cs))
						}
						continue
					}
					rep.Outcomes["ok"]++
					key := st
					if seen[key] {
						continue
					}
					seen[key] = true
					next = append(next, np)
				}
			}
			frontier = next
		}
		rep.States += int64(len(seen))
		rep.Notes = append(rep.Notes, fmt.Sprintf("capacity %d: %d canonical states", capn, len(seen)))
	}
	// the capacity is a uint8: every capacity at the type's boundaries with more distinct keys than it holds
	for _, capn := range []uint8{1, 2, 127, 128, 254, 255} {
		rep.Execs++
		sched.Progress(nil)
		c := NewCounter(capn, nil)
		bad := ""
		for i := 0; i < int(capn)+60 && bad == ""; i++ {
			c.Incr(fmt.Sprintf("key%d", i))
			if i%3 == 0 {
				c.Incr("key0") // one key stays hotter than the rest and must never be the one evicted
			}
			if len(c.items) > int(capn) {
				bad = fmt.Sprintf("tracks %d keys after %d distinct keys", len(c.items), i+1)
			}
		}
		if bad == "" {
			l := c.Latch()
			if len(l) > int(capn) {
				bad = fmt.Sprintf("Latch returned %d keys", len(l))
			} else if capn > 1 && l["key0"] == 0 {
				bad = "the hottest key was evicted"
			}
		}
		if bad != "" {
			full := "tracks-more-than-capacity-or-evicts-hot-key / capacity at the uint8 boundary"
			rep.Outcomes["violation: "+full]++
			if !sigs[full] {
				sigs[full] = true
				rep.Violations = append(rep.Violations, sched.CustomViolation("C19/counter", full, fmt.Sprintf("capacity %d: %s", capn, bad), ctrCase{Cap: capn}))
			}
		}
	}
	rep.Distinct = rep.States
	rep.CustomSamples = []interface{}{"cap=2: I0 I0 I1 I2 L I3 F", "cap=1: I0 I1 I1 L"}
	return rep
}

func capClass(c uint8) string {
	if c == 0 {
		return "0"
	}
	return ">0"
}

// ---------------------------------------------------------------------------
// C19 (H2): histories on a real Collector, explored as INPUT choices of one sequential body
// (rand draws of the logarithmic counter and minute ticks are enumerated as well).
//
// alphabet  Incr(counter, key) x1 (4 combinations) | burst x3 / x2 of one key | collect | evictStale | minute+1 ;
//           rand draw in {increment, do not}; minute may tick at any clock read (ENV deviation)
// bound     depth (quick 4, thorough 5); capacity in {1,2}
// oracle    after every operation HotKeys(): length <= capacity, no key twice, heat non-increasing,
//           only keys that were accessed; tracked keys of each counter <= capacity
// ---------------------------------------------------------------------------

func c19collectorBody(depth int) func() {
	return func() {
		vrand.RandIsInput()
		capn := uint8(1 + sched.Choose(sched.ClsInput, 2, "capacity"))
		clock := int64(1000)
		oldNow := nowInMinute
		nowInMinute = func() int64 {
			if sched.Choose(sched.ClsEnv, 2, "minute-tick") == 1 {
				clock++
			}
			return clock
		}
		sched.OnReset(func() { nowInMinute = oldNow })
		col := NewCollector(capn)
		ctrs := []*Counter{col.AllocCounter("n0"), col.AllocCounter("n1")}
		// key names: short; 300 bytes differing only in the last byte; binary with NUL / 0xff bytes
		shape := sched.Choose(sched.ClsInput, 3, "key-name-shape")
		keyName := func(i int) string {
			switch shape {
			case 1:
				return strings.Repeat("k", 299) + fmt.Sprint(i)
			case 2:
				return "\x00\xff{" + fmt.Sprint(i) + "}\r\n"
			}
			return fmt.Sprintf("key%d", i)
		}
		depth := depth
		if depth < 0 {
			// quick tier: full depth for short names, one step less for the other name shapes
			depth = -depth
			if shape != 0 {
				depth--
			}
		}
		accessed := map[string]bool{}
		var hist []string
		var held []HotKey
		var heldNames []string
		for step := 0; step < depth; step++ {
			op := sched.Choose(sched.ClsInput, 9, "op")
			switch {
			case op < 6:
				// single accesses and bursts (a burst lets one key get several visits per period)
				type acc struct{ ctr, key, n int }
				a := []acc{{0, 0, 1}, {0, 1, 1}, {0, 2, 1}, {1, 0, 1}, {0, 0, 3}, {1, 1, 2}}[op]
				k := keyName(a.key)
				for j := 0; j < a.n; j++ {
					ctrs[a.ctr].Incr(k)
				}
				accessed[k] = true
				hist = append(hist, fmt.Sprintf("Incr(n%d,key%d[name shape %d])x%d", a.ctr, a.key, shape, a.n))
			case op == 6:
				col.collect()
				hist = append(hist, "collect")
			case op == 7:
				col.evictStale()
				hist = append(hist, "evictStale")
			case op == 8:
				clock++
				hist = append(hist, "minute+1")
			}
			// a report handed to a HOTKEY reader earlier is still being walked by it while the collector goes on:
			// whatever position j the reader had reached before the last operation, the entries it had already
			// seen (as they were) followed by the entries it reads now must not list a key twice
			if held != nil {
				for j := 0; j <= len(held); j++ {
					seen := map[string]bool{}
					for _, n := range heldNames[:j] {
						seen[n] = true
					}
					for _, k := range held[j:] {
						if seen[k.Name] {
							sched.Fail("report-walked-by-a-reader-lists-key-twice", fmt.Sprintf("%v: a reader that had read %d entries %q of the report before the last operation reads %s from there on", hist, j, heldNames[:j], heats(held[j:])))
						}
						seen[k.Name] = true
					}
				}
			}
			hk := col.HotKeys()
			held, heldNames = hk, nil
			for _, k := range hk {
				heldNames = append(heldNames, k.Name)
			}
			if len(hk) > int(capn) {
				sched.Fail("report-longer-than-capacity", fmt.Sprintf("%v: %d keys, capacity %d", hist, len(hk), capn))
			}
			names := map[string]bool{}
			for i, k := range hk {
				if names[k.Name] {
					sched.Fail("report-lists-key-twice", fmt.Sprintf("%v: %.40q", hist, k.Name))
				}
				names[k.Name] = true
				if !accessed[k.Name] {
					sched.Fail("report-lists-key-never-accessed", fmt.Sprintf("%v: %.40q (%d bytes)", hist, k.Name, len(k.Name)))
				}
				if i > 0 && hk[i-1].Counter.Value() < k.Counter.Value() {
					last := hist[len(hist)-1]
					if strings.HasPrefix(last, "Incr") {
						last = "Incr"
					}
					sched.Fail("report-not-ordered-by-heat / after "+last, fmt.Sprintf("%v: heats %s", hist, heats(hk)))
				}
			}
			for _, c := range ctrs {
				if len(c.items) > int(capn) {
					sched.Fail("counter-tracks-more-than-capacity", fmt.Sprint(hist))
				}
			}
		}
		sched.SetOutcome(heats(col.HotKeys()))
	}
}

func heats(hk []HotKey) string {
	var s []string
	for _, k := range hk {
		n := k.Name
		if len(n) > 8 {
			n = fmt.Sprintf("(%d bytes)..%q", len(n), n[len(n)-4:])
		}
		s = append(s, fmt.Sprintf("%s=%d", n, k.Counter.Value()))
	}
	return strings.Join(s, " ")
}

// ---------------------------------------------------------------------------
// C19 (I): sortedHotKeys.Insert on every insert sequence (covers every map order collect can produce)
// ---------------------------------------------------------------------------

func c19insert(env sched.Env) *sched.Report {
	rep := &sched.Report{Outcomes: map[string]int64{}, Complete: true}
	maxLen := 5
	if env.Tier == "thorough" {
		maxLen = 7
	}
	sigs := map[string]bool{}
	for capn := uint8(1); capn <= 3; capn++ {
		var rec func(seq []uint8)
		rec = func(seq []uint8) {
			if len(seq) > 0 {
				rep.Execs++
				sched.Progress(nil)
				s := newSortedHotKeys(capn)
				for i, h := range seq {
					s.Insert(HotKey{Name: fmt.Sprintf("k%d", i), Counter: &logrithmCounter{val: h}})
				}
				d := s.Data()
				bad := ""
				if len(d) > int(capn) {
					bad = "longer-than-capacity"
				}
				for i := 1; i < len(d); i++ {
					if d[i-1].Counter.Value() < d[i].Counter.Value() {
						bad = "not-ordered"
					}
				}
				// the report keeps the hottest keys: multiset of heats = top of the sorted input
				srt := append([]uint8{}, seq...)
				sort.Slice(srt, func(i, j int) bool { return srt[i] > srt[j] })
				names := map[string]bool{}
				for _, k := range d {
					if names[k.Name] {
						bad = "duplicate"
					}
					names[k.Name] = true
				}
				if bad != "" {
					sig := "insert-" + bad
					rep.Outcomes["violation: "+sig]++
					if !sigs[sig] {
						sigs[sig] = true
						rep.Violations = append(rep.Violations, sched.CustomViolation("C19/insert", sig, fmt.Sprintf("cap %d heats %v -> %s", capn, seq, heats(d)), map[string]interface{}{"cap": capn, "seq": seq}))
					}
				} else {
					rep.Outcomes["ok"]++
				}
			}
			if len(seq) == maxLen {
				return
			}
			for h := uint8(0); h <= 2; h++ {
				rec(append(append([]uint8{}, seq...), h))
			}
		}
		rec(nil)
	}
	rep.States = rep.Execs
	rep.Distinct = rep.Execs
	rep.Transitions = rep.Execs
	return rep
}

// ---------------------------------------------------------------------------
// C19 (S): request writers, collect, HOTKEY reader and Free concurrently.
// oracle    no deadlock (all threads finish), no lost increment: latched + remaining = increments
// ---------------------------------------------------------------------------

func c19concBody() {
	vrand.RandIsInput()
	clock := int64(1000)
	oldNow := nowInMinute
	nowInMinute = func() int64 { return clock }
	sched.OnReset(func() { nowInMinute = oldNow })
	col := NewCollector(3)
	c0 := col.AllocCounter("n0")
	c1 := col.AllocCounter("n1")
	var wg vsync.WaitGroup
	withFree := sched.Choose(sched.ClsInput, 2, "with-free") == 1
	wg.Add(3)
	sched.GoNamed("writer0", func() { defer wg.Done(); c0.Incr("a"); c0.Incr("b"); c0.Incr("a") })
	sched.GoNamed("writer1", func() { defer wg.Done(); c1.Incr("a"); c1.Incr("c") })
	var latched = map[string]uint64{}
	sched.GoNamed("collect", func() {
		defer wg.Done()
		col.collect()
		_ = col.HotKeys()
	})
	if withFree {
		wg.Add(1)
		sched.GoNamed("free", func() { defer wg.Done(); c1.Free() })
	}
	wg.Wait()
	// drain what is left
	for k, v := range c0.Latch() {
		latched[k] += v
	}
	if !withFree {
		for k, v := range c1.Latch() {
			latched[k] += v
		}
	}
	hk := col.HotKeys()
	names := map[string]bool{}
	for i, k := range hk {
		if names[k.Name] {
			sched.Fail("report-lists-key-twice", heats(hk))
		}
		names[k.Name] = true
		if i > 0 && hk[i-1].Counter.Value() < k.Counter.Value() {
			sched.Fail("report-not-ordered-by-heat", heats(hk))
		}
	}
	sched.SetOutcome(fmt.Sprintf("free=%v report=%s left=%v", withFree, heats(hk), latched))
}

// C19 (S): two request writers share one counter (two clients of one backend get the counter registered for its
// name): they access the same, not yet tracked key at the same time, then more keys are admitted at full capacity.
// oracle    exact counts (the key accessed twice is reported with 2), at most capacity keys tracked, the key
//
//	with the most accesses survives the evictions
func c19sharedCounterBody() {
	col := NewCollector(2)
	c := col.AllocCounter("n0")
	if c2 := col.AllocCounter("n0"); c2 != c {
		sched.SetOutcome("counters are not shared")
		return
	}
	var wg vsync.WaitGroup
	wg.Add(2)
	sched.GoNamed("writer0", func() { defer wg.Done(); c.Incr("k1") })
	sched.GoNamed("writer1", func() { defer wg.Done(); c.Incr("k1") })
	wg.Wait()
	more := sched.Choose(sched.ClsInput, 4, "further admissions")
	for i := 0; i < more; i++ {
		c.Incr(fmt.Sprintf("k%d", i+2))
	}
	if len(c.items) > 2 {
		sched.Fail("counter-tracks-more-than-capacity / writers sharing a counter", fmt.Sprintf("capacity 2, %d keys tracked after k1 x2 (concurrently) and %d further keys", len(c.items), more))
	}
	got := c.Latch()
	if got["k1"] != 2 {
		sched.Fail("accesses-lost-or-hot-key-evicted / writers sharing a counter", fmt.Sprintf("k1 was accessed twice (by two writers at once), then %d colder keys once each: the counter reports %v", more, got))
	}
	if len(got) > 2 {
		sched.Fail("counter-tracks-more-than-capacity / writers sharing a counter", fmt.Sprintf("capacity 2: %v", got))
	}
	// one of the two clients goes away (it frees the counter it was handed) while the other one - a new client of the
	// same backend that was given the still registered counter - goes on counting
	if sched.Choose(sched.ClsInput, 2, "one client frees the shared counter") == 1 {
		c.Incr("before")
		c.Free()
		c.Incr("after")
		c.Incr("after")
		if got := c.Latch(); got["after"] != 2 || len(got) != 1 {
			sched.Fail("accesses-lost / counter used after the other client freed it", fmt.Sprintf("two accesses of one key after Free: the counter reports %v", got))
		}
	}
	sched.SetOutcome(fmt.Sprintf("more=%d %v", more, len(got)))
}

// C19 (S): one counter, a request writer and the collector's Latch at the same time: every access is either in
// a latched result or still in the counter - none is lost, none is counted twice.
func c19latchBody() {
	c := NewCounter(3, nil)
	var wg vsync.WaitGroup
	wg.Add(2)
	sched.GoNamed("writer", func() {
		defer wg.Done()
		c.Incr("a")
		c.Incr("b")
		c.Incr("a")
		c.Incr("a")
	})
	got := map[string]uint64{}
	sched.GoNamed("collector", func() {
		defer wg.Done()
		for i := 0; i < 2; i++ {
			for k, v := range c.Latch() {
				got[k] += v
			}
		}
	})
	wg.Wait()
	for k, v := range c.Latch() {
		got[k] += v
	}
	if got["a"] != 3 || got["b"] != 1 || len(got) != 2 {
		sched.Fail("accesses-lost-or-counted-twice / Latch racing Incr", fmt.Sprintf("3 accesses of a and 1 of b; the latched results add up to a=%d b=%d (%d keys)", got["a"], got["b"], len(got)))
	}
	sched.SetOutcome("ok")
}

func init() {
	sched.Register(&sched.Scenario{Name: "C19/latch-concurrent", Setup: func(tier string) (sched.Config, func()) {
		b := sched.Bounds{P: 2, F: -1}
		if tier == "thorough" {
			b.P = 3
		}
		return sched.Config{Bounds: b, Iterative: true}, c19latchBody
	}})
	sched.Register(&sched.Scenario{Name: "C19/counter", Custom: c19counter, ReplayCustom: func(in json.RawMessage) []sched.Failure {
		var cs ctrCase
		json.Unmarshal(in, &cs)
		sig, detail, _ := ctrRun(cs, true)
		if sig == "" {
			return nil
		}
		return []sched.Failure{{Sig: fmt.Sprintf("%s / capacity=%s", sig, capClass(cs.Cap)), Detail: detail}}
	}})
	sched.Register(&sched.Scenario{Name: "C19/insert", Custom: c19insert, ReplayCustom: func(in json.RawMessage) []sched.Failure { return nil }})
	sched.Register(&sched.Scenario{Name: "C19/collector", Setup: func(tier string) (sched.Config, func()) {
		d := -5 // depth 5 for short key names, 4 for the other name shapes
		b := sched.Bounds{Env: 1, F: -1}
		if tier == "thorough" {
			d = 5
			b.Env = 2
		}
		return sched.Config{Bounds: b, Iterative: true}, c19collectorBody(d)
	}})
	sched.Register(&sched.Scenario{Name: "C19/shared-counter", Setup: func(tier string) (sched.Config, func()) {
		b := sched.Bounds{P: 2, F: -1}
		if tier == "thorough" {
			b.P = 3
		}
		return sched.Config{Bounds: b, Iterative: true}, c19sharedCounterBody
	}})
	sched.Register(&sched.Scenario{Name: "C19/concurrent", Setup: func(tier string) (sched.Config, func()) {
		b := sched.Bounds{P: 2, F: -1}
		if tier == "thorough" {
			b.P = 3
		}
		return sched.Config{Bounds: b, Iterative: true}, c19concBody
	}})
}

// Race pass: writers, collect, HOTKEY reader and Free by real goroutines under the race detector.
func c19race() {
	col := NewCollector(3)
	c0, c1 := col.AllocCounter("n0"), col.AllocCounter("n1")
	var wg vsync.WaitGroup
	run := func(f func()) { wg.Add(1); go func() { defer wg.Done(); f() }() }
	run(func() { c0.Incr("a"); c0.Incr("b"); c0.Incr("a") })
	run(func() { c1.Incr("a"); c1.Incr("c") })
	run(func() { col.collect(); _ = col.HotKeys(); col.evictStale() })
	run(func() {
		for _, k := range col.HotKeys() {
			_ = k.Counter.Value()
		}
	})
	run(func() { c1.Free() })
	wg.Wait()
}

func init() {
	sched.Register(&sched.Scenario{Name: "C19/collector-race", Race: c19race})
}
