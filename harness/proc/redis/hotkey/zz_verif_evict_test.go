//go:build go1.21

package hotkey

import (
	"encoding/json"
	"fmt"

	"github.com/samaritan-proxy/samaritan/verifrt/sched"
)

// ---------------------------------------------------------------------------
// C19 (I): evictStale on every report state a collection round can leave behind.
//
// states    reports of 1..4 (thorough: 5) keys with heats 1..7 in non-increasing order, every key stamped either in
//           the previous minute or in the current one (a minute boundary inside collect() stamps the keys of one
//           round with different minutes), evict tick in the current minute or one / two minutes later
// oracle    afterwards the report is ordered by non-increasing heat, lists no key twice and no key with heat 0, only
//           keys of the report before; a key stamped before the tick's minute has half its heat, the others keep theirs
// ---------------------------------------------------------------------------

type evictCase struct {
	Heats []uint8 `json:"heats"`
	Stale []bool  `json:"stamped_in_the_previous_minute"`
	Later int64   `json:"tick_minutes_later"`
}

func evictRun(cs evictCase) (sig, detail string) {
	const cur = int64(5000)
	oldNow := nowInMinute
	nowInMinute = func() int64 { return cur + cs.Later }
	defer func() { nowInMinute = oldNow }()
	col := NewCollector(uint8(len(cs.Heats)))
	want := map[string]uint8{}
	for i, h := range cs.Heats {
		lut := cur
		if cs.Stale[i] {
			lut = cur - 1
		}
		name := fmt.Sprintf("k%d", i)
		col.keys = append(col.keys, HotKey{Name: name, Counter: &logrithmCounter{val: h, lut: lut}})
		if lut < cur+cs.Later {
			want[name] = h >> 1
		} else {
			want[name] = h
		}
	}
	col.evictStale()
	hk := col.HotKeys()
	seen := map[string]bool{}
	for i, k := range hk {
		w, ok := want[k.Name]
		switch {
		case !ok:
			return "report-lists-key-never-accessed / after evictStale", fmt.Sprintf("%+v: %s", cs, heats(hk))
		case seen[k.Name]:
			return "report-lists-key-twice / after evictStale", fmt.Sprintf("%+v: %s", cs, heats(hk))
		case k.Counter.Value() == 0:
			return "report-lists-key-with-no-heat / after evictStale", fmt.Sprintf("%+v: %s", cs, heats(hk))
		case k.Counter.Value() != w:
			return "heat-not-halved-once / after evictStale", fmt.Sprintf("%+v: %s has heat %d, expected %d", cs, k.Name, k.Counter.Value(), w)
		case i > 0 && hk[i-1].Counter.Value() < k.Counter.Value():
			return "report-not-ordered-by-heat / after evictStale / keys stamped in different minutes", fmt.Sprintf("%+v: heats %s", cs, heats(hk))
		}
		seen[k.Name] = true
	}
	for n, w := range want {
		if w > 0 && !seen[n] {
			return "key-with-heat-dropped / after evictStale", fmt.Sprintf("%+v: %s (heat %d) is missing from %s", cs, n, w, heats(hk))
		}
	}
	return "", ""
}

func c19evictStates(env sched.Env) *sched.Report {
	rep := &sched.Report{Outcomes: map[string]int64{}, Complete: true}
	maxN := 4
	if env.Tier == "thorough" {
		maxN = 5
	}
	sigs := map[string]bool{}
	var rec func(hs []uint8)
	rec = func(hs []uint8) {
		if n := len(hs); n > 0 {
			for mask := 0; mask < 1<<n; mask++ {
				for later := int64(0); later <= 2; later++ {
					cs := evictCase{Heats: append([]uint8{}, hs...), Later: later}
					for i := 0; i < n; i++ {
						cs.Stale = append(cs.Stale, mask&(1<<i) != 0)
					}
					rep.Execs++
					sched.Progress(nil)
					if sig, detail := evictRun(cs); sig != "" {
						rep.Outcomes["violation: "+sig]++
						if !sigs[sig] {
							sigs[sig] = true
							rep.Violations = append(rep.Violations, sched.CustomViolation("C19/evict-states", sig, detail, cs))
						}
					} else {
						rep.Outcomes["ok"]++
					}
				}
			}
		}
		if len(hs) == maxN {
			return
		}
		top := uint8(7)
		if len(hs) > 0 {
			top = hs[len(hs)-1]
		}
		for h := top; h >= 1; h-- {
			rec(append(hs, h))
		}
	}
	if env.Shard == 0 {
		rec(nil)
	}
	rep.States, rep.Distinct, rep.Transitions = rep.Execs, rep.Execs, rep.Execs
	rep.CustomSamples = []interface{}{evictCase{Heats: []uint8{6, 5, 1}, Stale: []bool{true, false, true}}}
	return rep
}

func init() {
	sched.Register(&sched.Scenario{Name: "C19/evict-states", Custom: c19evictStates, ReplayCustom: func(in json.RawMessage) []sched.Failure {
		var cs evictCase
		json.Unmarshal(in, &cs)
		if sig, detail := evictRun(cs); sig != "" {
			return []sched.Failure{{Sig: sig, Detail: detail}}
		}
		return nil
	}})
}
