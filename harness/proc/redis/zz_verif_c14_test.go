//go:build go1.21

package redis

import (
	"encoding/json"
	"fmt"
	"github.com/samaritan-proxy/samaritan/host"
	"sort"
	"strings"

	pbredis "github.com/samaritan-proxy/samaritan/pb/config/protocol/redis"
	"github.com/samaritan-proxy/samaritan/verifrt/sched"
	"github.com/samaritan-proxy/samaritan/verifrt/sim/cluster"
	"github.com/samaritan-proxy/samaritan/verifrt/sim/resp"
	"github.com/samaritan-proxy/samaritan/verifrt/vnet"
	"github.com/samaritan-proxy/samaritan/verifrt/vrand"
)

// ---------------------------------------------------------------------------
// C14 (I): the whole command-name space through the real proxy on a cluster with replicas.
//
// alphabet  names: the Redis 5.0 command table (with Redis's own write flag) + every name in the
//           proxy's tables + odd names; letter case lower/UPPER/aLtErNaTe; 0..4 arguments;
//           read strategy MASTER/REPLICA/BOTH; for read commands the virtual clock is stepped so that
//           the time-based candidate choice visits every candidate
// oracle    (node logs before/after, ignoring READONLY/ASKING/CLUSTER NODES) unsupported -> error
//           reply and nothing at any node; PING QUIT SELECT INFO TIME HOTKEY -> answered, nothing at any
//           node; a forwarded write arrives (first and only) at the master owning the slot; a forwarded
//           read arrives at that master or its replicas, at a replica only if the strategy permits
// ---------------------------------------------------------------------------

// redis 5.0 command table: true = flagged "write" by redis-server.
var redis5 = map[string]bool{
	"append": true, "asking": false, "auth": false, "bgrewriteaof": false, "bgsave": false, "bitcount": false, "bitfield": true, "bitop": true,
	"bitpos": false, "blpop": true, "brpop": true, "brpoplpush": true, "bzpopmax": true, "bzpopmin": true, "client": false, "cluster": false,
	"command": false, "config": false, "dbsize": false, "debug": false, "decr": true, "decrby": true, "del": true, "discard": false, "dump": false,
	"echo": false, "eval": true, "evalsha": true, "exec": false, "exists": false, "expire": true, "expireat": true, "flushall": true, "flushdb": true,
	"geoadd": true, "geodist": false, "geohash": false, "geopos": false, "georadius": true, "georadius_ro": false, "georadiusbymember": true,
	"georadiusbymember_ro": false, "get": false, "getbit": false, "getrange": false, "getset": true, "hdel": true, "hexists": false, "hget": false,
	"hgetall": false, "hincrby": true, "hincrbyfloat": true, "hkeys": false, "hlen": false, "hmget": false, "hmset": true, "hscan": false, "hset": true,
	"hsetnx": true, "hstrlen": false, "hvals": false, "incr": true, "incrby": true, "incrbyfloat": true, "info": false, "keys": false, "lastsave": false,
	"latency": false, "lindex": false, "linsert": true, "llen": false, "lolwut": false, "lpop": true, "lpush": true, "lpushx": true, "lrange": false,
	"lrem": true, "lset": true, "ltrim": true, "memory": false, "mget": false, "migrate": true, "module": false, "monitor": false, "move": true,
	"mset": true, "msetnx": true, "multi": false, "object": false, "persist": true, "pexpire": true, "pexpireat": true, "pfadd": true, "pfcount": false,
	"pfdebug": true, "pfmerge": true, "pfselftest": false, "ping": false, "post": false, "psetex": true, "psubscribe": false, "psync": false, "pttl": false,
	"publish": false, "pubsub": false, "punsubscribe": false, "quit": false, "randomkey": false, "readonly": false, "readwrite": false, "rename": true,
	"renamenx": true, "replconf": false, "replicaof": false, "restore": true, "restore-asking": true, "role": false, "rpop": true, "rpoplpush": true,
	"rpush": true, "rpushx": true, "sadd": true, "save": false, "scan": false, "scard": false, "script": false, "sdiff": false, "sdiffstore": true,
	"select": false, "set": true, "setbit": true, "setex": true, "setnx": true, "setrange": true, "shutdown": false, "sinter": false, "sinterstore": true,
	"sismember": false, "slaveof": false, "slowlog": false, "smembers": false, "smove": true, "sort": true, "spop": true, "srandmember": false,
	"srem": true, "sscan": false, "strlen": false, "subscribe": false, "substr": false, "sunion": false, "sunionstore": true, "swapdb": true,
	"sync": false, "time": false, "touch": false, "ttl": false, "type": false, "unlink": true, "unsubscribe": false, "unwatch": false, "wait": false,
	"watch": false, "xack": true, "xadd": true, "xclaim": true, "xdel": true, "xgroup": true, "xinfo": false, "xlen": false, "xpending": false,
	"xrange": false, "xread": false, "xreadgroup": true, "xrevrange": false, "xtrim": true, "zadd": true, "zcard": false, "zcount": false,
	"zincrby": true, "zinterstore": true, "zlexcount": false, "zpopmax": true, "zpopmin": true, "zrange": false, "zrangebylex": false,
	"zrangebyscore": false, "zrank": false, "zrem": true, "zremrangebylex": true, "zremrangebyrank": true, "zremrangebyscore": true,
	"zrevrange": false, "zrevrangebylex": false, "zrevrangebyscore": false, "zrevrank": false, "zscan": false, "zscore": false, "zunionstore": true,
}

// names the statement lists as never forwarded
var c14never = map[string]bool{"keys": true, "multi": true, "exec": true, "subscribe": true, "psubscribe": true, "cluster": true, "flushall": true,
	"flushdb": true, "blpop": true, "brpop": true, "brpoplpush": true, "bzpopmin": true, "bzpopmax": true, "watch": true, "discard": true, "publish": true,
	"migrate": true, "shutdown": true, "config": true, "monitor": true, "slaveof": true, "replicaof": true, "script": true, "randomkey": true, "dbsize": true,
	"readonly": true, "readwrite": true, "asking": true, "auth": true, "swapdb": true, "move": true, "wait": true, "debug": true, "save": true, "bgsave": true}

var c14local = map[string]bool{"ping": true, "quit": true, "select": true, "info": true, "time": true, "hotkey": true}

func c14supported() map[string]bool {
	m := map[string]bool{}
	for _, c := range simpleCommands {
		m[c] = true
	}
	for _, c := range sumResultCommands {
		m[c] = true
	}
	for _, c := range []string{"eval", "mset", "mget", "scan"} {
		m[c] = true
	}
	return m
}

func c14names() []string {
	seen := map[string]bool{}
	var out []string
	add := func(n string) {
		if !seen[n] {
			seen[n] = true
			out = append(out, n)
		}
	}
	for n := range redis5 {
		add(n)
	}
	for n := range c14supported() {
		add(n)
	}
	for n := range c14local {
		add(n)
	}
	for _, n := range []string{"", "x", "get\x00", "g\xc3\xa9t", strings.Repeat("a", 300), "get ", " get", "hotkeys", "nosuchcommand"} {
		add(n)
	}
	// deterministic order
	for i := 0; i < len(out); i++ {
		for j := i + 1; j < len(out); j++ {
			if out[j] < out[i] {
				out[i], out[j] = out[j], out[i]
			}
		}
	}
	return out
}

func altCase(s string) string {
	b := []byte(s)
	for i := range b {
		if i%2 == 1 && b[i] >= 'a' && b[i] <= 'z' {
			b[i] -= 32
		}
	}
	return string(b)
}

type c14case struct {
	Strategy int `json:"strategy"`
	Part     int `json:"part"`
	Parts    int `json:"parts"`
}

// c14firstKey: Redis 5.0 commands whose first key is not the first argument (the command table's "first key"
// column). None of them is forwarded by the unchanged proxy; if one ever is, it must be routed by that key.
var c14firstKey = map[string]int{"bitop": 2, "object": 2, "memory": 2, "xgroup": 2, "xinfo": 2}

func c14body(cs c14case) func() {
	return func() {
		vrand.Fair() // random host picks rotate over all service hosts (masters and replicas)
		cl := cluster.New(2, 2, 2)
		strat := pbredis.ReadStrategy(cs.Strategy)
		s := vfStartStack(cl, vfSvcConfig(strat, nil, 0))
		c := s.NewClient("c0")
		supported := c14supported()
		names := c14names()
		keys := []string{cl.KeyInGroup("k", 0, 0), cl.KeyInGroup("k", 1, 0)}
		n := 0
		for ni, name := range names {
			if ni%cs.Parts != cs.Part {
				continue
			}
			lname := strings.ToLower(name)
			for ci, cased := range []string{name, strings.ToUpper(name), altCase(name)} {
				if ci > 0 && cased == name {
					continue
				}
				for argc := 0; argc <= 4; argc++ {
					key := keys[(ni+argc)%2]
					args := []string{cased}
					for a := 0; a < argc; a++ {
						switch {
						case c14firstKey[lname] > 0 && a == c14firstKey[lname]-1:
							args = append(args, key)
						case c14firstKey[lname] > 0 && a == 0:
							args = append(args, keys[(ni+argc+1)%2]) // a word that hashes to the other node
						case lname == "eval" && a == 0:
							args = append(args, "return 1")
						case lname == "eval" && a == 1:
							args = append(args, "1")
						case lname == "eval" && a == 2:
							args = append(args, key)
						case lname == "scan":
							args = append(args, "0")
						case a == 0 || ((lname == "mget" || lname == "del" || lname == "exists" || lname == "touch" || lname == "unlink") && a > 0):
							args = append(args, key)
						case lname == "mset" && a%2 == 0:
							args = append(args, key)
						case lname == "mset":
							args = append(args, keys[(ni+argc+1)%2]) // a value that, taken for a key, belongs to the other master
						default:
							args = append(args, "1")
						}
					}
					reps := 1
					if !redis5[lname] && supported[lname] && argc >= 1 {
						reps = 3 // visit every read candidate
					}
					if lname == "eval" && argc <= 2 {
						reps = 7 // (a script without keys: wherever it is sent, never to a replica)
					}
					for r := 0; r < reps; r++ {
						n++
						sched.AdvanceTime(1)
						mark := len(cl.Log)
						got, err := c.Do(args...)
						sched.WaitQuiescent()
						if err != nil {
							sched.Note("connection-failed / "+lname, fmt.Sprintf("%q: %v", args, err))
							c = s.NewClient(fmt.Sprintf("c%d", n))
							continue
						}
						data := cl.DataCmds(mark)
						class := "unsupported"
						switch {
						case c14local[lname]:
							class = "local"
						case supported[lname]:
							class = "forwarded"
						}
						if c14never[lname] && class == "forwarded" {
							class = "unsupported" // the statement fixes these whatever the tables say
						}
						switch class {
						case "unsupported":
							if len(data) > 0 {
								sched.Note("unsupported-command-reached-backend / "+c14group(lname), fmt.Sprintf("%q reached %v", args, data))
							}
							if got.Kind != '-' {
								sched.Note("unsupported-command-not-rejected / "+c14group(lname), fmt.Sprintf("%q answered %s", args, got))
							}
						case "local":
							if len(data) > 0 {
								sched.Note("local-command-reached-backend / "+lname, fmt.Sprintf("%q reached %v", args, data))
							}
							if got.Kind == '-' && !(lname == "select" && argc == 0) {
								sched.Note("local-command-rejected / "+lname, fmt.Sprintf("%q answered %s", args, got))
							}
						case "forwarded":
							if lname == "scan" {
								continue // not key routed; decided by C18
							}
							write := redis5[lname]
							for _, e := range data {
								info, ok := cluster.Commands[strings.ToLower(e.Args[0])]
								k := ""
								if ok && len(e.Args) > info.KeyIdx {
									k = e.Args[info.KeyIdx]
								} else if len(e.Args) > 1 {
									k = e.Args[1]
								}
								if strings.ToLower(e.Args[0]) == "eval" && len(e.Args) > 3 {
									k = e.Args[3]
								}
								if fk := c14firstKey[strings.ToLower(e.Args[0])]; fk > 0 && len(e.Args) > fk {
									k = e.Args[fk]
								}
								owner := cl.OwnerOfKey(k)
								node := cl.NodeByAddrID(e.Node)
								if write && node != nil && node.MasterOf != nil {
									sched.Note(fmt.Sprintf("write-command-sent-to-a-replica / %s / strategy=%s", lname, strat), fmt.Sprintf("%q arrived at %s, a replica of %s", args, e.Node, node.MasterOf.ID))
									continue
								}
								if lname == "eval" && len(e.Args) <= 3 {
									continue // no key: only "not at a replica" is required
								}
								onMaster := node == owner
								onReplica := node != nil && node.MasterOf == owner
								switch {
								case write && !onMaster:
									sched.Note(fmt.Sprintf("write-command-sent-to-non-master / %s / strategy=%s", lname, strat), fmt.Sprintf("%q arrived at %s (owner %s)", args, e.Node, owner.ID))
								case !write && !onMaster && !onReplica:
									sched.Note(fmt.Sprintf("read-command-sent-outside-slot-owner-group / %s / strategy=%s", lname, strat), fmt.Sprintf("%q arrived at %s (owner %s)", args, e.Node, owner.ID))
								case !write && onReplica && strat == pbredis.ReadStrategy_MASTER:
									sched.Note(fmt.Sprintf("read-sent-to-replica-under-MASTER / %s", lname), fmt.Sprintf("%q arrived at %s", args, e.Node))
								}
							}
						}
					}
				}
			}
		}
		sched.SetOutcome(fmt.Sprintf("strategy=%s commands=%d", strat, n))
	}
}

// C14 (H): the replica set of a master changes (CLUSTER REPLICATE moves a replica to the other master),
// the proxy refreshes its table, then reads are issued under every strategy: a read may still only go to
// the owning master or to nodes that replicate it now.
func c14topologyBody(strategy int) func() {
	return func() {
		cl := cluster.New(2, 2, 2)
		strat := pbredis.ReadStrategy(strategy % 3)
		// variant 1: instead of a replica changing its master, the nodes of the first master's group answer the next
		// refresh from a partial view that lacks the second master and its replicas (they have just been added or
		// the gossip has not reached them yet); the owners have not changed
		partial := strategy >= 3
		if partial && (strategy/3)%2 == 0 {
			vrand.Fair()
			vrand.Intn(2)
		} else if partial {
			vrand.Fair()
		}
		s := vfStartStack(cl, vfSvcConfig(strat, nil, 0))
		c := s.NewClient("c0")
		keys := []string{cl.KeyInGroup("k", 0, 0), cl.KeyInGroup("{}k", 1, 0)}
		m0, m1 := cl.Masters()[0], cl.Masters()[1]
		var moved *cluster.Node
		for _, n := range cl.Nodes {
			if n.MasterOf == m0 {
				moved = n
				break
			}
		}
		if partial {
			var g1 []*cluster.Node
			for _, n := range cl.Nodes {
				if n == m1 || n.MasterOf == m1 {
					g1 = append(g1, n)
				}
			}
			for _, n := range cl.Nodes {
				if n == m0 || n.MasterOf == m0 {
					n.Hides = g1
				}
			}
		} else {
			cl.Reparent(moved, m1)
		}
		// periodic refresh (2 virtual minutes) picks the new topology up
		sched.AdvanceTime(int64(slotsRefFreq) + 1)
		sched.WaitQuiescent()
		s.RefreshRound()
		for i := 0; i < 8; i++ {
			sched.AdvanceTime(1)
			for _, cmd := range [][]string{{"GET", keys[0]}, {"SET", keys[0], "v"}, {"GET", keys[1]}, {"HGETALL", keys[0]}} {
				mark := len(cl.Log)
				if _, err := c.Do(cmd...); err != nil {
					sched.Fail("connection-failed / topology", err.Error())
				}
				sched.WaitQuiescent()
				for _, e := range cl.DataCmds(mark) {
					owner := cl.OwnerOfKey(e.Args[1])
					node := cl.NodeByAddrID(e.Node)
					write := redis5[strings.ToLower(e.Args[0])]
					if node != owner && (write || node.MasterOf != owner) {
						kind := "read-command-sent-outside-slot-owner-group"
						if write {
							kind = "write-command-sent-to-non-master"
						}
						what := "after replica moved to another master"
						if partial {
							what = "after a refresh answered from a partial view"
						}
						rep := "-"
						if node != nil && node.MasterOf != nil {
							rep = node.MasterOf.ID
						}
						sched.Fail(fmt.Sprintf("%s / %s / strategy=%s", kind, what, strat), fmt.Sprintf("%q arrived at %s, owner %s, %s replicates %s now", e.Args, e.Node, owner.ID, e.Node, rep))
					}
				}
			}
		}
		_ = m1
		sched.SetOutcome("ok")
	}
}

func c14group(name string) string {
	if _, ok := redis5[name]; ok {
		return name
	}
	return "non-redis-name"
}

func c14run(env sched.Env) *sched.Report {
	rep := &sched.Report{Outcomes: map[string]int64{}, Complete: true}
	sigs := map[string]bool{}
	parts := 8
	n := 0
	for strat := 0; strat < 3; strat++ {
		for part := 0; part < parts; part++ {
			n++
			if n%env.NShards != env.Shard {
				continue
			}
			cs := c14case{strat, part, parts}
			sched.Progress(cs)
			e := sched.RunOnce(nil, sched.Options{MaxSteps: 5000000}, c14body(cs))
			rep.Execs++
			sched.Progress(nil)
			rep.Transitions += int64(e.Steps())
			rep.Outcomes[e.Outcome]++
			var k int
			fmt.Sscanf(e.Outcome[strings.Index(e.Outcome+" commands=", "commands=")+9:], "%d", &k)
			rep.Distinct += int64(k)
			if e.EndWhy != "main-returned" {
				e.Failures = append(e.Failures, sched.Failure{Sig: "execution-ended-" + e.EndWhy, Detail: fmt.Sprint(cs)})
			}
			for _, f := range e.Failures {
				if !sigs[f.Sig] {
					sigs[f.Sig] = true
					rep.Violations = append(rep.Violations, sched.CustomViolation("C14/commands", f.Sig, f.Detail, cs))
				}
			}
		}
	}
	rep.States = rep.Distinct
	rep.Rule = "distinct = (name, letter case, argument count, strategy, clock step) combinations issued through the proxy"
	rep.CustomSamples = []interface{}{"GeOaDd k 1 1 under REPLICA", "KEYS k", "hotkey", "get\\x00 k"}
	return rep
}

func init() {
	sched.Register(&sched.Scenario{Name: "C14/topology", Custom: func(env sched.Env) *sched.Report {
		rep := &sched.Report{Outcomes: map[string]int64{}, Complete: true}
		for strat := 0; strat < 9; strat++ { // 0-2: a replica changes its master; 3-8: partial view, both rotations
			e := sched.RunOnce(nil, sched.Options{MaxSteps: 400000}, c14topologyBody(strat))
			rep.Execs++
			sched.Progress(nil)
			rep.Distinct += 32
			rep.Transitions += int64(e.Steps())
			rep.Outcomes[e.Outcome]++
			if e.EndWhy != "main-returned" && len(e.Failures) == 0 {
				e.Failures = append(e.Failures, sched.Failure{Sig: "execution-ended-" + e.EndWhy})
			}
			for _, f := range e.Failures {
				rep.Violations = append(rep.Violations, sched.CustomViolation("C14/topology", f.Sig, f.Detail, strat))
			}
		}
		rep.States = rep.Distinct
		return rep
	}, ReplayCustom: func(in json.RawMessage) []sched.Failure {
		var strat int
		json.Unmarshal(in, &strat)
		e := sched.RunOnce(nil, sched.Options{MaxSteps: 400000}, c14topologyBody(strat))
		return e.Failures
	}})
	sched.Register(&sched.Scenario{Name: "C14/commands", Custom: c14run, ReplayCustom: func(in json.RawMessage) []sched.Failure {
		var cs c14case
		json.Unmarshal(in, &cs)
		e := sched.RunOnce(nil, sched.Options{MaxSteps: 5000000}, c14body(cs))
		for _, f := range e.Failures {
			fmt.Printf("%s: %s\n", f.Sig, f.Detail)
		}
		return e.Failures
	}})
}

// ---------------------------------------------------------------------------
// C14 (H): the read strategy is changed at run time (service-configuration update).
//
// alphabet  strategy := MASTER | REPLICA | BOTH ; reads (GET, HGETALL on two keys of two masters, several
//           virtual clock steps each) ; write ; periodic slot refresh
// bound     every history of length <= 4 (quick) / 5 (thorough), from each initial strategy
// oracle    a write arrives at the owning master; a read arrives inside the owner's group, and at the master
//           itself whenever the strategy in force when it was issued is MASTER
// ---------------------------------------------------------------------------

var c14sOps = []string{"strategy=MASTER", "strategy=REPLICA", "strategy=BOTH", "reads", "write", "periodic-refresh", "clusterdown-answers", "hosts-replaced"}

type c14sCase struct {
	Init int   `json:"init"`
	Ops  []int `json:"ops"`
}

func (c c14sCase) String() string {
	s := []string{"initial " + pbredis.ReadStrategy(c.Init).String()}
	for _, o := range c.Ops {
		s = append(s, c14sOps[o])
	}
	return strings.Join(s, ", ")
}

func c14strategyBody(cs c14sCase) func() {
	return func() {
		cl := cluster.New(2, 2, 2)
		cur := pbredis.ReadStrategy(cs.Init)
		s := vfStartStack(cl, vfSvcConfig(cur, nil, 0))
		c := s.NewClient("c0")
		// (the second key starts with an empty hash tag: the whole key decides its slot)
		keys := []string{cl.KeyInGroup("k", 0, 0), cl.KeyInGroup("{}k", 1, 0)}
		issue := func(cmds [][]string) {
			for _, cmd := range cmds {
				mark := len(cl.Log)
				if _, err := c.Do(cmd...); err != nil {
					sched.Fail("connection-failed / strategy update", err.Error())
					return
				}
				sched.WaitQuiescent()
				for _, e := range cl.DataCmds(mark) {
					owner := cl.OwnerOfKey(e.Args[1])
					node := cl.NodeByAddrID(e.Node)
					write := redis5[strings.ToLower(e.Args[0])]
					switch {
					case write && node != owner:
						sched.Fail("write-command-sent-to-non-master / after a strategy update", fmt.Sprintf("history [%s]: %q arrived at %s", cs, e.Args, e.Node))
					case node != owner && node.MasterOf != owner:
						sched.Fail("read-command-sent-outside-slot-owner-group / after a strategy update", fmt.Sprintf("history [%s]: %q arrived at %s", cs, e.Args, e.Node))
					case node != owner && cur == pbredis.ReadStrategy_MASTER:
						sched.Fail("read-sent-to-replica-although-strategy-is-MASTER / after a strategy update", fmt.Sprintf("history [%s]: %q arrived at replica %s while the strategy in force is MASTER", cs, e.Args, e.Node))
					}
				}
			}
		}
		for _, op := range cs.Ops {
			switch op {
			case 0, 1, 2:
				cur = pbredis.ReadStrategy(op)
				if err := s.p.OnSvcConfigUpdate(vfSvcConfig(cur, nil, 0)); err != nil {
					sched.Fail("config-update-rejected", err.Error())
				}
				sched.WaitQuiescent()
			case 3:
				for i := 0; i < 3; i++ {
					sched.AdvanceTime(1)
					issue([][]string{{"GET", keys[0]}, {"GET", keys[1]}, {"HGETALL", keys[0]}})
				}
			case 4:
				issue([][]string{{"SET", keys[0], "v"}, {"SET", keys[1], "w"}})
			case 5:
				s.RefreshRound()
				sched.AdvanceTime(int64(slotsRefFreq) + 1)
				sched.WaitQuiescent()
				s.RefreshRound()
			case 7:
				// service discovery delivers the host list again (the same hosts): connections are re-established, what the
				// proxy knows about slots and replicas stays valid for the commands that follow at once
				var hs []*host.Host
				for _, n := range cl.Nodes {
					hs = append(hs, host.New(n.Addr))
				}
				if err := s.p.OnSvcAllHostReplace(hs); err != nil {
					sched.Fail("host-replace-rejected", err.Error())
				}
			case 6:
				// the owning masters answer CLUSTERDOWN to a write and to a read (they lost their majority): the
				// commands must not be tried on any other node because of that
				bad := []byte("-CLUSTERDOWN The cluster is down\r\n")
				for _, m := range cl.Masters() {
					m.BadReplies = map[string][]byte{"set": bad, "get": bad}
				}
				issue([][]string{{"SET", keys[0], "v"}, {"GET", keys[0]}, {"SET", keys[1], "w"}})
				for _, m := range cl.Masters() {
					m.BadReplies = nil
				}
				s.RefreshRound()
			}
		}
		sched.SetOutcome("ok")
	}
}

func c14strategy(env sched.Env) *sched.Report {
	rep := &sched.Report{Outcomes: map[string]int64{}, Complete: true}
	sigs := map[string]bool{}
	depth := 4
	if env.Tier == "thorough" {
		depth = 5
	}
	n := 0
	var rec func(init int, ops []int)
	rec = func(init int, ops []int) {
		if len(ops) > 0 && (ops[len(ops)-1] == 3 || ops[len(ops)-1] == 6) { // histories ending in reads or in CLUSTERDOWN answers
			n++
			if n%env.NShards == env.Shard {
				cs := c14sCase{init, append([]int{}, ops...)}
				sched.Progress(cs)
				e := sched.RunOnce(nil, sched.Options{MaxSteps: 2000000}, c14strategyBody(cs))
				rep.Execs++
				sched.Progress(nil)
				rep.Transitions += int64(len(ops))
				rep.Outcomes[e.Outcome]++
				if e.EndWhy != "main-returned" && len(e.Failures) == 0 {
					e.Failures = append(e.Failures, sched.Failure{Sig: "execution-ended-" + e.EndWhy, Detail: cs.String()})
				}
				for _, f := range e.Failures {
					if !sigs[f.Sig] {
						sigs[f.Sig] = true
						rep.Violations = append(rep.Violations, sched.CustomViolation("C14/strategy-update", f.Sig, f.Detail, cs))
					}
				}
			}
		}
		if len(ops) == depth {
			return
		}
		for op := range c14sOps {
			rec(init, append(ops, op))
		}
	}
	for init := 0; init < 3; init++ {
		rec(init, nil)
	}
	rep.States, rep.Distinct = rep.Execs, rep.Execs
	rep.Rule = "distinct (initial strategy, history) pairs"
	rep.CustomSamples = []interface{}{c14sCase{1, []int{3, 0, 3}}.String()}
	return rep
}

func init() {
	sched.Register(&sched.Scenario{Name: "C14/strategy-update", Custom: c14strategy, ReplayCustom: func(in json.RawMessage) []sched.Failure {
		var cs c14sCase
		json.Unmarshal(in, &cs)
		e := sched.RunOnce(nil, sched.Options{MaxSteps: 2000000}, c14strategyBody(cs))
		for _, f := range e.Failures {
			fmt.Printf("%s: %s\n", f.Sig, f.Detail)
		}
		return e.Failures
	}})
}

// ---------------------------------------------------------------------------
// C14 (I) pipelines: the classification of a command must hold for the bytes that finally reach a backend,
// also when the next pipelined command has already been read into the session's buffers.
//
// alphabet  7 commands (forwarded read TYPE / GET, forwarded write INCR / SET, unsupported KEYS / FLUSHALL,
//           local PING) on a key of the first master; every pipeline of 2 (quick) / 3 (thorough) of them, sent
//           in one write, all as RESP arrays, all inline, or alternating, or one write per command while the
//           backend connections are being re-established (requests wait in the backend client's queue while the
//           session reads on); 3 read strategies x 3 clock steps
// oracle    the data commands seen by all nodes are exactly the forwarded commands of the pipeline (name and
//           arguments), writes at the owning master, reads inside the owner's group and at the master under
//           MASTER; unsupported commands answered with an error; one reply per command
// ---------------------------------------------------------------------------

type c14pCase struct {
	Strategy int    `json:"strategy"`
	Encoding string `json:"encoding"`
	Clock    int    `json:"clock_step"`
	Cmds     []int  `json:"commands"`
}

func c14pAlphabet(key string) [][]string {
	return [][]string{{"TYPE", key}, {"INCR", key}, {"KEYS", "*"}, {"GET", key}, {"SET", key, "7"}, {"FLUSHALL"}, {"PING"}}
}

func c14pBody(cs c14pCase) func() {
	return func() {
		cl := cluster.New(2, 2, 2)
		strat := pbredis.ReadStrategy(cs.Strategy)
		s := vfStartStack(cl, vfSvcConfig(strat, nil, 0))
		c := s.NewClient("c0")
		key := cl.KeyInGroup("k", 0, 0)
		alpha := c14pAlphabet(key)
		sched.AdvanceTime(int64(cs.Clock))
		var raw []byte
		var want [][]string
		paced := strings.HasSuffix(cs.Encoding, "-paced")
		if paced {
			// every backend connection was lost and re-connecting takes its time: forwarded requests wait in the
			// backend client's queue while the session goes on reading the commands that arrive one write at a time
			for _, n := range cl.Nodes {
				n.CloseConns()
			}
			sched.WaitQuiescent()
			var addrs []string
			for _, n := range cl.Nodes {
				addrs = append(addrs, n.Addr)
			}
			vnet.HoldDials(true, addrs...)
		}
		mark := len(cl.Log)
		for i, ci := range cs.Cmds {
			args := alpha[ci]
			inline := strings.HasPrefix(cs.Encoding, "inline") || (cs.Encoding == "alternating" && i%2 == 0)
			var one []byte
			if inline {
				one = append(one, strings.Join(args, " ")+"\r\n"...)
			} else {
				one = resp.Encode(resp.Cmd(args...))
			}
			raw = append(raw, one...)
			if n := strings.ToLower(args[0]); n != "keys" && n != "flushall" && n != "ping" {
				want = append(want, args)
			}
			if paced {
				if err := c.Send(one); err != nil {
					sched.Fail("connection-failed / pipeline", err.Error())
					return
				}
				sched.WaitQuiescent()
			}
		}
		if paced {
			vnet.HoldDials(false)
		} else if err := c.Send(raw); err != nil {
			sched.Fail("connection-failed / pipeline", err.Error())
			return
		}
		for i, ci := range cs.Cmds {
			got, err := c.Read()
			if err != nil {
				sched.Fail("reply-missing / pipeline", fmt.Sprintf("reply %d of %q: %v", i, raw, err))
				return
			}
			n := strings.ToLower(alpha[ci][0])
			if (n == "keys" || n == "flushall") && got.Kind != '-' {
				sched.Fail("unsupported-command-not-rejected / "+n+" in a pipeline", fmt.Sprintf("%q: reply %d is %s", raw, i, got))
			}
		}
		sched.WaitQuiescent()
		data := cl.DataCmds(mark)
		var seen []string
		for _, e := range data {
			seen = append(seen, strings.Join(e.Args, " "))
			name := strings.ToLower(e.Args[0])
			if _, fwd := c14supported()[name]; !fwd || c14never[name] {
				sched.Fail("unsupported-command-reached-backend / "+c14group(name)+" in a pipeline", fmt.Sprintf("pipeline %q: node %s received %q", raw, e.Node, e.Args))
				continue
			}
			owner := cl.OwnerOfKey(key)
			node := cl.NodeByAddrID(e.Node)
			switch {
			case redis5[name] && node != owner:
				sched.Fail(fmt.Sprintf("write-command-sent-to-non-master / %s in a pipeline / strategy=%s", name, strat), fmt.Sprintf("pipeline %q: %q arrived at %s (owner %s)", raw, e.Args, e.Node, owner.ID))
			case node != owner && (node == nil || node.MasterOf != owner):
				sched.Fail(fmt.Sprintf("read-command-sent-outside-slot-owner-group / %s in a pipeline / strategy=%s", name, strat), fmt.Sprintf("pipeline %q: %q arrived at %s", raw, e.Args, e.Node))
			case node != owner && strat == pbredis.ReadStrategy_MASTER:
				sched.Fail("read-sent-to-replica-under-MASTER / "+name+" in a pipeline", fmt.Sprintf("pipeline %q: %q arrived at %s", raw, e.Args, e.Node))
			}
		}
		var exp []string
		for _, a := range want {
			exp = append(exp, strings.Join(a, " "))
		}
		sort.Strings(seen)
		sort.Strings(exp)
		if strings.Join(seen, "|") != strings.Join(exp, "|") {
			sched.Fail("backends-received-other-commands-than-forwarded / pipeline", fmt.Sprintf("pipeline %q: nodes received %q, forwarded commands are %q", raw, seen, exp))
		}
		sched.SetOutcome(fmt.Sprintf("forwarded=%d", len(exp)))
	}
}

func c14pipelines(env sched.Env) *sched.Report {
	rep := &sched.Report{Outcomes: map[string]int64{}, Complete: true}
	sigs := map[string]bool{}
	depth := 2
	if env.Tier == "thorough" {
		depth = 3
	}
	na := len(c14pAlphabet(""))
	var seqs [][]int
	var gen func(cur []int)
	gen = func(cur []int) {
		if len(cur) >= 2 {
			seqs = append(seqs, append([]int{}, cur...))
		}
		if len(cur) == depth {
			return
		}
		for i := 0; i < na; i++ {
			gen(append(cur, i))
		}
	}
	gen(nil)
	n := 0
	for strat := 0; strat < 3; strat++ {
		for _, enc := range []string{"resp", "inline", "alternating", "resp-paced", "inline-paced"} {
			for clock := 1; clock <= 3; clock++ {
				for _, seq := range seqs {
					n++
					if n%env.NShards != env.Shard {
						continue
					}
					if sched.PastDeadline(env.Deadline) {
						rep.Complete = false
						return rep
					}
					cs := c14pCase{strat, enc, clock, seq}
					sched.Progress(cs)
					e := sched.RunOnce(nil, sched.Options{MaxSteps: 400000}, c14pBody(cs))
					rep.Execs++
					sched.Progress(nil)
					rep.Transitions += int64(e.Steps())
					rep.Outcomes[e.Outcome]++
					if e.EndWhy != "main-returned" && len(e.Failures) == 0 {
						e.Failures = append(e.Failures, sched.Failure{Sig: "execution-ended-" + e.EndWhy, Detail: fmt.Sprint(cs)})
					}
					for _, f := range e.Failures {
						if !sigs[f.Sig] {
							sigs[f.Sig] = true
							rep.Violations = append(rep.Violations, sched.CustomViolation("C14/pipelines", f.Sig, f.Detail, cs))
						}
					}
				}
			}
		}
	}
	rep.States, rep.Distinct = rep.Execs, rep.Execs
	rep.CustomSamples = []interface{}{c14pCase{1, "inline", 2, []int{0, 2}}}
	return rep
}

func init() {
	sched.Register(&sched.Scenario{Name: "C14/pipelines", Custom: c14pipelines, ReplayCustom: func(in json.RawMessage) []sched.Failure {
		var cs c14pCase
		json.Unmarshal(in, &cs)
		return sched.RunOnce(nil, sched.Options{MaxSteps: 400000}, c14pBody(cs)).Failures
	}})
}

// ---------------------------------------------------------------------------
// C14 (S) the first commands after start when the cluster's nodes share one machine (one IP address, one port
// each): two connections send their first write at the same time, each for a key of another master, while no
// backend connection exists yet.
//
// bound     all schedules P2 (quick) / P3 F1 (thorough); nodes on one address | on their own addresses (INPUT)
// oracle    each write arrives at the master that owns its key's slot and nowhere else; both are answered OK
// ---------------------------------------------------------------------------

func c14sameMachineBody() {
	sched.SetQuiet(true)
	cl := cluster.New(3, 0, 3)
	shared := sched.Choose(sched.ClsInput, 2, "nodes share one machine") == 1
	if shared {
		cl.ShareOneMachine()
	}
	s := vfStartStack(cl, vfSvcConfig(0, nil, 0))
	c0, c1 := s.NewClient("c0"), s.NewClient("c1")
	sched.WaitQuiescent()
	// the two writes go to masters the proxy has no connection to yet (loading the routing table connected it to one node)
	var cold []int
	for g := 0; g < 3; g++ {
		if _, ok := s.p.u.loadClients()[cl.Owner[g].Addr]; !ok {
			cold = append(cold, g)
		}
	}
	if len(cold) < 2 {
		sched.Fail("harness-same-machine", fmt.Sprintf("only %d masters without a connection", len(cold)))
		return
	}
	ka, kb := cl.KeyInGroup("a", cold[0], 0), cl.KeyInGroup("b", cold[1], 0)
	mark := len(cl.Log)
	sched.SetQuiet(false)
	c0.Send(resp.Encode(resp.Cmd("SET", ka, "1")))
	c1.Send(resp.Encode(resp.Cmd("SET", kb, "2")))
	sched.WaitQuiescent()
	sched.SetQuiet(true)
	tag := fmt.Sprintf("nodes share one machine=%v", shared)
	for i, c := range []*vfClient{c0, c1} {
		rs, _ := c.Pending()
		if len(rs) != 1 || rs[0].Kind != '+' {
			sched.Fail("first-write-not-answered-OK / nodes sharing one machine", fmt.Sprintf("%s: connection %d got %v", tag, i, rs))
		}
	}
	if r := cl.Redirects(mark); r > 0 {
		sched.Fail("write-command-sent-to-non-master / first commands, nodes sharing one machine", fmt.Sprintf("%s: %d command(s) arrived at a node that does not own the key's slot (answered MOVED); the routing table was loaded and the layout never changed", tag, r))
	}
	for _, e := range cl.DataCmds(mark) {
		if len(e.Args) < 2 {
			continue
		}
		if owner := cl.OwnerOfKey(e.Args[1]); owner.ID != e.Node {
			sched.Fail("write-command-sent-to-non-master / first commands, nodes sharing one machine", fmt.Sprintf("%s: %q arrived at %s, the slot's owner is %s", tag, e.Args, e.Node, owner.ID))
		}
	}
	sched.SetOutcome(tag)
}

func init() {
	sched.Register(&sched.Scenario{Name: "C14/same-machine", Setup: func(tier string) (sched.Config, func()) {
		b := sched.Bounds{P: 2}
		if tier == "thorough" {
			b = sched.Bounds{P: 3, F: 1}
		}
		return sched.Config{Bounds: b, Iterative: true, MaxSteps: 200000}, c14sameMachineBody
	}})
}
