//go:build go1.21

package redis

import (
	"fmt"
	"io"
	"strings"

	"github.com/samaritan-proxy/samaritan/host"
	"github.com/samaritan-proxy/samaritan/proc/internal/log"
	"github.com/samaritan-proxy/samaritan/verifrt/sched"
	"github.com/samaritan-proxy/samaritan/verifrt/sim/cluster"
	"github.com/samaritan-proxy/samaritan/verifrt/sim/resp"
	"github.com/samaritan-proxy/samaritan/verifrt/vnet"
)

// ---------------------------------------------------------------------------
// C02 (S) driver 1: one real backend client on a virtual connection.
//
// threads   client.Start (reader), its writer, 2 senders (one sends 2 requests), optionally a Stop caller,
//           a scripted backend
// alphabet  backend: answers everything | answers one command then closes | resets after its first read |
//           closes at once | silent ; Stop caller yes/no  (INPUT)
// bound     preemptions P, delays F, select deviations Sel (see Setup)
// oracle    at quiescence: no thread panicked (a double completion is close of closed channel); every
//           request handed to Send is completed, unless the backend connection is still up and merely
//           silent; no sender is blocked
// ---------------------------------------------------------------------------

var c02backends = []string{"answers", "answers-1-then-closes", "resets-after-first-read", "closes-at-once", "silent",
	// the backend does not read (socket buffers of 32 bytes fill up, the client's writer blocks in its write), then
	// only the read side of the proxy's connection ends: the backend half-closes, or sends something undecodable
	"never-reads-then-half-closes", "never-reads-then-garbage",
	// the backend answers the first command and then sends something that is not RESP ($-7): the client gives the
	// connection up while other senders are still handing requests over
	"answers-1-then-malformed"}

func c02backend(b *vnet.VConn, mode string) {
	var buf []byte
	tmp := make([]byte, 4096)
	answered := 0
	if mode == "closes-at-once" {
		b.Close()
		return
	}
	for {
		n, err := b.Read(tmp)
		if err != nil {
			b.Close()
			return
		}
		if mode == "resets-after-first-read" {
			b.Reset()
			return
		}
		buf = append(buf, tmp[:n]...)
		vs, rest, _ := resp.DecodeAll(buf)
		buf = rest
		for range vs {
			if mode == "silent" {
				continue
			}
			if _, err := b.Write([]byte("+OK\r\n")); err != nil {
				b.Close()
				return
			}
			answered++
			if mode == "answers-1-then-closes" && answered == 1 {
				b.Close()
				return
			}
			if mode == "answers-1-then-malformed" && answered == 1 {
				b.Write([]byte("$-7\r\n"))
				io.Copy(io.Discard, b)
				b.Close()
				return
			}
		}
	}
}

func reqDone(r *simpleRequest) bool {
	select {
	case <-r.done:
		return true
	default:
		return false
	}
}

func c02clientBody() {
	mode := c02backends[sched.Choose(sched.ClsInput, len(c02backends), "backend")]
	withStop := sched.Choose(sched.ClsInput, 2, "stop") == 1
	neverReads := strings.HasPrefix(mode, "never-reads")
	if neverReads {
		vnet.SetWindow(32)
	}
	a, b := vnet.Pipe()
	a.Label, b.Label = "proxy-backend-conn", "backend"
	c, err := newClient(a, vfConfig(0, nil), log.New("[verif]"))
	if err != nil {
		sched.Fail("harness-newclient", err.Error())
	}
	sched.GoNamed("client.Start", c.Start)
	if !neverReads {
		sched.GoServer("backend", func() { c02backend(b, mode) })
	}
	reqs := []*simpleRequest{
		newSimpleRequest(newStringArray("get", "a")),
		newSimpleRequest(newStringArray("get", "b")),
		newSimpleRequest(newStringArray("get", "c")),
	}
	sched.GoNamed("sender1", func() { c.Send(reqs[0]); c.Send(reqs[1]) })
	sched.GoNamed("sender2", func() { c.Send(reqs[2]) })
	if withStop {
		sched.GoNamed("stopper", c.Stop)
	}
	sched.WaitQuiescent()
	if neverReads {
		if mode == "never-reads-then-half-closes" {
			b.CloseWrite()
		} else {
			b.Write([]byte("?what\r\n"))
		}
		sched.WaitQuiescent()
	}
	c02verdict(mode, withStop, c, a, reqs)
}

func c02verdict(mode string, withStop bool, c *client, conn *vnet.VConn, reqs []*simpleRequest) {
	clientGone := false
	select {
	case <-c.done:
		clientGone = true
	default:
	}
	out := fmt.Sprintf("%s stop=%v gone=%v:", mode, withStop, clientGone)
	for _, b := range sched.LiveNonServer() {
		if strings.HasPrefix(b.Name, "sender") {
			sched.Fail("sender-blocked-forever / "+b.Kind, fmt.Sprintf("backend %s, stop=%v: %s is parked in %s", mode, withStop, b.Name, b.Kind))
		}
		if b.Name == "stopper" {
			sched.Fail("stop-blocked-forever / backend "+mode, fmt.Sprintf("Stop() is parked in %s", b.Kind))
		}
	}
	for i, r := range reqs {
		if reqDone(r) {
			out += fmt.Sprintf(" r%d=%s", i, strings.SplitN(string(r.Response().Text), " ", 2)[0])
			continue
		}
		out += fmt.Sprintf(" r%d=pending", i)
		if clientGone || conn.IsClosed() || conn.WasReset() || conn.PeerFinished() {
			where := "in no queue"
			switch {
			case len(c.pendingReqs) > 0:
				where = "left in the pending queue"
			case len(c.processingReqs) > 0:
				where = "left in the processing queue"
			}
			sched.Fail("request-never-completed / "+where, fmt.Sprintf("backend %s, stop=%v: request %d is not completed although the backend connection is gone (client exited=%v)", mode, withStop, i, clientGone))
		}
	}
	sched.SetOutcome(out)
}

// ---------------------------------------------------------------------------
// C02 (S) driver 2: real upstream with two nodes; requests race with host removal / replacement / stop.
// ---------------------------------------------------------------------------

var c02events = []string{"none", "remove-host", "replace-hosts", "upstream-stop", "node-reset", "node-down"}

func c02upstreamBody() { c02upstream(false) }

// the same with the first request's slot group moved just before: its node answers MOVED and the request is
// redirected by that backend client's reader while the event happens
func c02upstreamRedirectBody() { c02upstream(true) }

func c02upstream(moved bool) {
	events := c02events
	if moved {
		events = []string{"none", "remove-host", "replace-hosts", "upstream-stop"}
	}
	ev := events[sched.Choose(sched.ClsInput, len(events), "event")]
	multiKind := sched.Choose(sched.ClsInput, 3, "multi-key")
	multi := multiKind >= 1
	cl := cluster.New(2, 0, 2)
	s := vfStartStack(cl, vfSvcConfig(0, nil, 0))
	k0, k1 := cl.KeyInGroup("k", 0, 0), cl.KeyInGroup("k", 1, 0)
	var raws []*rawRequest
	mk := func(args ...string) *rawRequest {
		r := newRawRequest(newStringArray(args...))
		raws = append(raws, r)
		return r
	}
	if moved {
		cl.MoveGroup(0, cl.Masters()[1])
	}
	r1 := mk("get", k0)
	var r2 *rawRequest
	if multiKind == 2 {
		r2 = mk("mset", k1, "v", k0, "w") // the last pair goes to the node the event hits
	} else if multi {
		r2 = mk("mget", k0, k1)
	} else {
		r2 = mk("set", k1, "v")
	}
	sched.GoNamed("request1", func() { s.p.handleRequest(r1) })
	sched.GoNamed("request2", func() { s.p.handleRequest(r2) })
	n0 := cl.Masters()[0]
	switch ev {
	case "remove-host":
		sched.GoNamed("event", func() { s.p.u.OnHostRemove(host.New(n0.Addr)) })
	case "replace-hosts":
		sched.GoNamed("event", func() { s.p.u.OnHostReplace([]*host.Host{host.New(cl.Masters()[1].Addr)}) })
	case "upstream-stop":
		sched.GoNamed("event", func() { s.p.u.Stop() })
	case "node-reset":
		sched.GoNamed("event", func() { n0.ResetConns() })
	case "node-down":
		sched.GoNamed("event", func() { n0.Stop() })
	}
	sched.WaitQuiescent()
	out := ev + fmt.Sprintf(" multi=%d moved=%v:", multiKind, moved)
	for _, b := range sched.LiveNonServer() {
		if strings.HasPrefix(b.Name, "request") || b.Name == "event" {
			sched.Fail(fmt.Sprintf("caller-blocked-forever / %s / %s", b.Name[:5], ev), fmt.Sprintf("%s is parked in %s", b.Name, b.Kind))
		}
	}
	for i, r := range raws {
		select {
		case <-r.done:
			t := string(r.Response().Text)
			if r.Response().Type != Error {
				t = "ok"
			}
			out += fmt.Sprintf(" r%d=%s", i, strings.SplitN(t, ":", 2)[0])
		default:
			sched.Fail("request-never-completed / upstream / "+ev, fmt.Sprintf("event %s: request %d (%s) has no reply at quiescence", ev, i, r.Body()))
		}
	}
	sched.SetOutcome(out)
}

// ---------------------------------------------------------------------------
// C02 (S) driver 3: full stack, one session, pipeline of 2, a backend connection reset before any
// read or write of the node side (ENV), or node closing its connections.
// ---------------------------------------------------------------------------

func c02stackBody() {
	cl := cluster.New(2, 0, 2)
	s := vfStartStack(cl, vfSvcConfig(0, nil, 0))
	k0, k1 := cl.KeyInGroup("k", 0, 0), cl.KeyInGroup("k", 1, 0)
	// warm the backend connections up so that the faults hit established connections
	w := s.NewClient("warm")
	w.Do("set", k0, "1")
	w.Do("set", k1, "2")
	sched.WaitQuiescent()
	vnet.EnableFaults("node-")
	c := s.NewClient("c0")
	shape := sched.Choose(sched.ClsInput, 3, "pipeline")
	var pipeline [][]string
	switch shape {
	case 0:
		pipeline = [][]string{{"get", k0}, {"get", k1}}
	case 1:
		pipeline = [][]string{{"mget", k0, k1}, {"get", k0}}
	case 2:
		pipeline = [][]string{{"del", k0, k1}, {"set", k0, "x"}}
	}
	var raw []byte
	for _, p := range pipeline {
		raw = append(raw, resp.Encode(resp.Cmd(p...))...)
	}
	c.Send(raw)
	sched.WaitQuiescent()
	replies, eof := c.Pending()
	out := fmt.Sprintf("shape=%d replies=%d eof=%v", shape, len(replies), eof)
	for _, r := range replies {
		out += " " + string(r.Kind)
	}
	sched.SetOutcome(out)
	if len(replies) > len(pipeline) {
		sched.Fail("more-replies-than-requests", out)
	}
	if len(replies) < len(pipeline) && !eof {
		sched.Fail("client-waits-forever / full stack", fmt.Sprintf("%d of %d replies arrived and the connection is still open: %s", len(replies), len(pipeline), out))
	}
	_ = io.EOF
}

func init() {
	sched.Register(&sched.Scenario{Name: "C02/client", Setup: func(tier string) (sched.Config, func()) {
		b := sched.Bounds{P: 2, F: 2, Sel: 1}
		if tier == "thorough" {
			b = sched.Bounds{P: 3, F: 2, Sel: 2}
		}
		return sched.Config{Bounds: b, Iterative: true}, c02clientBody
	}})
	sched.Register(&sched.Scenario{Name: "C02/upstream", Setup: func(tier string) (sched.Config, func()) {
		b := sched.Bounds{P: 1, F: 1, Sel: 1}
		if tier == "thorough" {
			b = sched.Bounds{P: 2, F: 2, Sel: 1}
		}
		return sched.Config{Bounds: b, Iterative: true}, c02upstreamBody
	}})
	sched.Register(&sched.Scenario{Name: "C02/upstream-redirect", Setup: func(tier string) (sched.Config, func()) {
		b := sched.Bounds{P: 1, F: 1, Sel: 1}
		if tier == "thorough" {
			b = sched.Bounds{P: 2, F: 2, Sel: 1}
		}
		return sched.Config{Bounds: b, Iterative: true}, c02upstreamRedirectBody
	}})
	sched.Register(&sched.Scenario{Name: "C02/stack", Setup: func(tier string) (sched.Config, func()) {
		b := sched.Bounds{P: 1, F: 1, Env: 1, Sel: 1}
		if tier == "thorough" {
			b = sched.Bounds{P: 2, F: 1, Env: 1, Sel: 1}
		}
		return sched.Config{Bounds: b, Iterative: true}, c02stackBody
	}})
}

// ---------------------------------------------------------------------------
// C02 (S) driver 4: multi-key requests whose children are completed by different threads
// (two backend readers, a reader racing a drain or a synchronous failure).
//
// alphabet  MSET / MGET / DEL (sum) with 2 or 3 children (INPUT); one thread per child
// bound     all schedules of the completing threads within P (quick 2, thorough 3), delays unbounded
// oracle    the raw request is completed exactly once (a second completion panics) with the combined reply
// ---------------------------------------------------------------------------

func c02splitBody() {
	kind := sched.Choose(sched.ClsInput, 3, "kind")
	n := 2 + sched.Choose(sched.ClsInput, 2, "children")
	var raw *rawRequest
	var children []*simpleRequest
	var replies []*RespValue
	name := ""
	switch kind {
	case 0:
		name = "mset"
		args := []string{"mset"}
		for i := 0; i < n; i++ {
			args = append(args, fmt.Sprintf("k%d", i), "v")
		}
		raw = newRawRequest(newStringArray(args...))
		r, _ := newMSetRequest(raw)
		children = r.Split()
		for range children {
			replies = append(replies, newSimpleString("OK"))
		}
	case 1:
		name = "mget"
		args := []string{"mget"}
		for i := 0; i < n; i++ {
			args = append(args, fmt.Sprintf("k%d", i))
		}
		raw = newRawRequest(newStringArray(args...))
		r, _ := newMGetRequest(raw)
		children = r.Split()
		for i := range children {
			replies = append(replies, newBulkString(fmt.Sprintf("v%d", i)))
		}
	case 2:
		name = "del"
		args := []string{"del"}
		for i := 0; i < n; i++ {
			args = append(args, fmt.Sprintf("k%d", i))
		}
		raw = newRawRequest(newStringArray(args...))
		r, _ := newSumResultRequest(raw)
		children = r.Split()
		for range children {
			replies = append(replies, newInteger(1))
		}
	}
	for i := range children {
		i := i
		sched.GoNamed(fmt.Sprintf("completer%d", i), func() { children[i].SetResponse(replies[i]) })
	}
	sched.WaitQuiescent()
	select {
	case <-raw.done:
	default:
		sched.Fail("multi-key-request-never-completed / "+name, fmt.Sprintf("%d children completed, the request has no reply", n))
	}
	got := toSim(raw.Response())
	var want resp.Value
	switch kind {
	case 0:
		want = resp.Simple("OK")
	case 1:
		vs := make([]resp.Value, n)
		for i := range vs {
			vs[i] = resp.BulkS(fmt.Sprintf("v%d", i))
		}
		want = resp.Array(vs...)
	case 2:
		want = resp.Int(int64(n))
	}
	if !resp.Equal(got, want) {
		sched.Fail("multi-key-reply-differs / "+name, fmt.Sprintf("got %s want %s", got, want))
	}
	sched.SetOutcome(name + " " + got.String())
}

func init() {
	sched.Register(&sched.Scenario{Name: "C02/split", Setup: func(tier string) (sched.Config, func()) {
		b := sched.Bounds{P: 2, F: -1}
		if tier == "thorough" {
			b.P = 3
		}
		return sched.Config{Bounds: b, Iterative: true}, c02splitBody
	}})
}

// ---------------------------------------------------------------------------
// Race pass (assumption check of the schedule exploration): the children of multi-key requests completed by
// real goroutines, and the compression filter used by two goroutines, in a binary built with the race
// detector. The controlled scheduler serialises threads, so an unsynchronised read-modify-write between two
// instrumented operations is invisible to it; the race detector sees exactly that.
// ---------------------------------------------------------------------------

func c02splitRace() {
	for kind := 0; kind < 3; kind++ {
		for n := 2; n <= 4; n++ {
			var raw *rawRequest
			var children []*simpleRequest
			var replies []*RespValue
			args := []string{[]string{"mset", "mget", "del"}[kind]}
			for i := 0; i < n; i++ {
				args = append(args, fmt.Sprintf("k%d", i))
				if kind == 0 {
					args = append(args, "v")
				}
			}
			raw = newRawRequest(newStringArray(args...))
			switch kind {
			case 0:
				r, _ := newMSetRequest(raw)
				children = r.Split()
			case 1:
				r, _ := newMGetRequest(raw)
				children = r.Split()
			case 2:
				r, _ := newSumResultRequest(raw)
				children = r.Split()
			}
			for i := range children {
				switch kind {
				case 0:
					replies = append(replies, newSimpleString("OK"))
				case 1:
					replies = append(replies, newBulkString(fmt.Sprintf("v%d", i)))
				case 2:
					if i%2 == 0 {
						replies = append(replies, newInteger(1))
					} else {
						replies = append(replies, newError("ERR x"))
					}
				}
			}
			start := make(chan struct{})
			for i := range children {
				i := i
				go func() { <-start; children[i].SetResponse(replies[i]) }()
			}
			close(start)
			raw.Wait()
			_ = raw.Response().Type
		}
	}
}

func c13filterRace() {
	cfg := vfConfig(0, c13cps(true, 8))
	done := make(chan struct{}, 2)
	for g := 0; g < 2; g++ {
		g := g
		go func() {
			chain := newRequestFilterChain()
			chain.AddFilter(newCompressFilter(cfg))
			for i := 0; i < 3; i++ {
				v := c13pattern([]string{"run", "text"}[g], 300+i)
				req := newSimpleRequest(newStringArray("set", "k", string(v)))
				chain.Do(req)
				rd := newSimpleRequest(newStringArray("get", "k"))
				chain.Do(rd)
				rd.SetResponse(newBulkBytes(append([]byte{}, req.Body().Array[2].Text...)))
				_ = rd.Response()
			}
			done <- struct{}{}
		}()
	}
	<-done
	<-done
}

func init() {
	sched.Register(&sched.Scenario{Name: "C02/split-race", Race: c02splitRace})
	sched.Register(&sched.Scenario{Name: "C13/filter-race", Race: c13filterRace})
}

// ---------------------------------------------------------------------------
// C02 (S) driver 5: with compression enabled, a command that the compression filter rejects by itself is
// pipelined behind (or between) ordinary commands to the same backend.
// oracle    every request of the pipeline gets its reply at quiescence
// ---------------------------------------------------------------------------

func c02bannedBody() { c02banned(false) }

// the same with the proxy's backend connection being reset right before any one of its reads or writes
func c02bannedFaultsBody() { c02banned(true) }

func c02banned(faults bool) {
	cl := cluster.New(1, 0, 1)
	s := vfStartStack(cl, vfSvcConfig(0, c13cps(true, 8), 0))
	k := cl.KeyInGroup("k", 0, 0)
	w := s.NewClient("warm")
	w.Do("SET", k, "v")
	sched.WaitQuiescent()
	if faults {
		vnet.EnableFaults("out:")
	}
	shapes := [][][]string{
		{{"GET", k}, {"APPEND", k, "x"}},
		{{"APPEND", k, "x"}, {"GET", k}},
		{{"GET", k}, {"GETRANGE", k, "0", "1"}, {"GET", k}},
		{{"SET", k, "w"}, {"SETBIT", k, "1", "1"}},
	}
	pl := shapes[sched.Choose(sched.ClsInput, len(shapes), "pipeline")]
	var raw []byte
	for _, p := range pl {
		raw = append(raw, resp.Encode(resp.Cmd(p...))...)
	}
	c := s.NewClient("c0")
	c.Send(raw)
	sched.WaitQuiescent()
	rs, eof := c.Pending()
	if len(rs) != len(pl) && !eof {
		sched.Fail("client-waits-forever / command rejected by the compression filter in a pipeline", fmt.Sprintf("pipeline %v: %d of %d replies arrived and the connection is still open", pl, len(rs), len(pl)))
	}
	for i, p := range pl {
		banned := p[0] == "APPEND" || p[0] == "GETRANGE" || p[0] == "SETBIT"
		if vnet.FaultsInjected() > 0 && !banned {
			continue // the backend connection was lost: an error reply is legitimate
		}
		if i < len(rs) && banned != (rs[i].Kind == '-') {
			sched.Fail("wrong-reply-for-pipelined-command / compression", fmt.Sprintf("pipeline %v: replies %v", pl, rs))
		}
	}
	sched.SetOutcome(fmt.Sprint(len(pl)))
}

func init() {
	sched.Register(&sched.Scenario{Name: "C02/banned-pipeline", Setup: func(tier string) (sched.Config, func()) {
		b := sched.Bounds{P: 1, F: 1, Sel: 1}
		if tier == "thorough" {
			b = sched.Bounds{P: 2, F: 2, Sel: 1}
		}
		return sched.Config{Bounds: b, Iterative: true, MaxSteps: 100000}, c02bannedBody
	}})
	sched.Register(&sched.Scenario{Name: "C02/banned-pipeline-faults", Setup: func(tier string) (sched.Config, func()) {
		b := sched.Bounds{P: 0, F: 1, Sel: 1, Env: 1}
		if tier == "thorough" {
			b = sched.Bounds{P: 1, F: 2, Sel: 1, Env: 1}
		}
		return sched.Config{Bounds: b, Iterative: true, MaxSteps: 100000}, c02bannedFaultsBody
	}})
}

// ---------------------------------------------------------------------------
// C02 (S) a request is redirected (MOVED or ASK) to a target that cannot serve it right now.
//
// alphabet  redirection kind MOVED | ASK x target: reachable | refuses connects (once, or for good) | resets the
//           connection right after accepting it | its connection is lost while the proxy still lists the client x
//           one or two concurrent requests (a single-key one and a multi-key one with a key on the target)
// bound     all schedules P1 F1 Sel1 (quick) / P2 F2 Sel1 (thorough)
// oracle    every request is completed exactly once (a second completion panics: close of closed channel), no
//           caller is parked for ever
// ---------------------------------------------------------------------------

func c02redirectTargetBody() {
	kind := []string{"moved", "ask"}[sched.Choose(sched.ClsInput, 2, "redirection")]
	target := []string{"reachable", "refuses-once", "refuses", "resets-after-accept", "connection-lost"}[sched.Choose(sched.ClsInput, 5, "target")]
	two := sched.Choose(sched.ClsInput, 2, "requests") == 1
	cl := cluster.New(2, 0, 2)
	s := vfStartStack(cl, vfSvcConfig(0, nil, 0))
	m0, m1 := cl.Masters()[0], cl.Masters()[1]
	k0, k1 := cl.KeyInGroup("k", 0, 0), cl.KeyInGroup("k", 1, 0)
	if kind == "moved" {
		cl.MoveGroup(0, m1)
	} else {
		cl.SetMigrating(0, m1) // k0 does not exist at the source: ASK
	}
	refusals := 0
	switch target {
	case "refuses-once", "refuses":
		m1.CloseConns()
		sched.WaitQuiescent()
		vnet.SetDialHook(func(addr string) error {
			if addr == m1.Addr && (target == "refuses" || refusals == 0) {
				refusals++
				return vnet.ErrRefused
			}
			return nil
		})
	case "resets-after-accept":
		m1.CloseConns()
		sched.WaitQuiescent()
		m1.ResetNextConn = true
	case "connection-lost":
		// the target's connection goes away while the request is on its way to the source
	}
	var raws []*rawRequest
	mk := func(args ...string) *rawRequest {
		r := newRawRequest(newStringArray(args...))
		raws = append(raws, r)
		return r
	}
	r1 := mk("get", k0)
	sched.GoNamed("request1", func() { s.p.handleRequest(r1) })
	if two {
		r2 := mk("mget", k1, k0)
		sched.GoNamed("request2", func() { s.p.handleRequest(r2) })
	}
	if target == "connection-lost" {
		sched.GoNamed("event", func() { m1.ResetConns() })
	}
	sched.WaitQuiescent()
	_ = m0
	out := fmt.Sprintf("%s target=%s two=%v:", kind, target, two)
	for _, b := range sched.LiveNonServer() {
		if strings.HasPrefix(b.Name, "request") {
			sched.Fail(fmt.Sprintf("caller-blocked-forever / redirected to a target that %s", target), fmt.Sprintf("%s: %s is parked in %s", out, b.Name, b.Kind))
		}
	}
	for i, r := range raws {
		select {
		case <-r.done:
			t := string(r.Response().Text)
			if r.Response().Type != Error {
				t = "ok"
			}
			out += fmt.Sprintf(" r%d=%s", i, strings.SplitN(t, ":", 2)[0])
		default:
			sched.Fail("request-never-completed / redirected to a target that "+target, fmt.Sprintf("%s: request %d (%s) has no reply at quiescence", out, i, r.Body()))
		}
	}
	sched.SetOutcome(out)
}

func init() {
	sched.Register(&sched.Scenario{Name: "C02/redirect-target", Setup: func(tier string) (sched.Config, func()) {
		b := sched.Bounds{P: 1, F: 1, Sel: 1}
		if tier == "thorough" {
			b = sched.Bounds{P: 2, F: 2, Sel: 1}
		}
		return sched.Config{Bounds: b, Iterative: true, MaxSteps: 100000}, c02redirectTargetBody
	}})
}

// ---------------------------------------------------------------------------
// C02 (S) a SCAN call that addresses the last node arrives while that node is removed from (or added to, or marked
// unhealthy in) the host list.
//
// bound     all schedules P2 (quick) / P3 F1 (thorough) of that moment (set-up on the default schedule)
// oracle    the call gets exactly one reply (the keys, a terminating reply or an error), nothing panics
// ---------------------------------------------------------------------------

func c02scanHostChangeBody() {
	sched.SetQuiet(true)
	change := []string{"remove", "replace-with-first", "mark-unhealthy"}[sched.Choose(sched.ClsInput, 3, "change")]
	cl := cluster.New(2, 0, 2)
	s := vfStartStack(cl, vfSvcConfig(0, nil, 0))
	c := s.NewClient("c0")
	last := cl.Nodes[1]
	sched.WaitQuiescent()
	sched.SetQuiet(false)
	sched.GoNamed("host-change", func() {
		switch change {
		case "remove":
			s.p.OnSvcHostRemove([]*host.Host{host.New(last.Addr)})
		case "replace-with-first":
			s.p.OnSvcAllHostReplace([]*host.Host{host.New(cl.Nodes[0].Addr)})
		case "mark-unhealthy":
			for _, h := range s.p.u.hosts.All() {
				if h.Addr == last.Addr {
					s.p.u.hosts.MarkHostUnhealthy(h)
				}
			}
		}
	})
	c.Send(resp.Encode(resp.Cmd("SCAN", "281474976710656"))) // node 1, cursor 0
	sched.WaitQuiescent()
	sched.SetQuiet(true)
	rs, _ := c.Pending()
	if len(rs) != 1 {
		sched.Fail("not-exactly-one-reply / SCAN racing a host-list change", fmt.Sprintf("%s: %d replies", change, len(rs)))
	}
	sched.SetOutcome(change)
}

func init() {
	sched.Register(&sched.Scenario{Name: "C02/scan-host-change", Setup: func(tier string) (sched.Config, func()) {
		b := sched.Bounds{P: 2}
		if tier == "thorough" {
			b = sched.Bounds{P: 3, F: 1}
		}
		return sched.Config{Bounds: b, Iterative: true, MaxSteps: 200000}, c02scanHostChangeBody
	}})
}

// ---------------------------------------------------------------------------
// C02 (H) a host-list notice that concerns several backend connections at once, each with a request in flight to
// a node that never answers.
//
// alphabet  3 masters, all silent; one connection per node with a GET in flight | one MGET over the three nodes;
//           notice: replace all hosts by another list | remove all three | remove two | remove one
// bound     every combination, default schedule
// oracle    every request whose node was dropped by the notice is answered (an error is fine): no client is left
//           waiting for a connection the proxy has given up
// ---------------------------------------------------------------------------

func c02noticeManyBody() {
	notice := []string{"replace-all", "remove-all", "remove-two", "remove-one"}[sched.Choose(sched.ClsInput, 4, "notice")]
	multi := sched.Choose(sched.ClsInput, 2, "one MGET over the three nodes") == 1
	cl := cluster.New(3, 0, 3)
	s := vfStartStack(cl, vfSvcConfig(0, nil, 0))
	keys := []string{cl.KeyInGroup("k", 0, 0), cl.KeyInGroup("k", 1, 0), cl.KeyInGroup("k", 2, 0)}
	var clients []*vfClient
	for i := 0; i < 3; i++ {
		c := s.NewClient(fmt.Sprintf("c%d", i))
		if v, err := c.Do("SET", keys[i], "v"); err != nil || v.Kind != '+' { // (a connection to every node exists)
			sched.Fail("harness-notice-many", fmt.Sprintf("SET: %s %v", v, err))
			return
		}
		clients = append(clients, c)
	}
	for _, n := range cl.Nodes {
		n.Stalled = true
	}
	dropped := map[int]bool{}
	switch notice {
	case "replace-all", "remove-all":
		dropped[0], dropped[1], dropped[2] = true, true, true
	case "remove-two":
		dropped[0], dropped[1] = true, true
	case "remove-one":
		dropped[1] = true
	}
	if multi {
		clients = clients[:1]
		clients[0].Send(resp.Encode(resp.Cmd("MGET", keys[0], keys[1], keys[2])))
	} else {
		for i, c := range clients {
			c.Send(resp.Encode(resp.Cmd("GET", keys[i])))
		}
	}
	sched.WaitQuiescent()
	var hs []*host.Host
	for i, n := range cl.Nodes {
		if dropped[i] {
			hs = append(hs, host.New(n.Addr))
		}
	}
	switch notice {
	case "replace-all":
		s.p.OnSvcAllHostReplace([]*host.Host{host.New("10.9.9.9:6379")})
	default:
		s.p.OnSvcHostRemove(hs)
	}
	sched.WaitQuiescent()
	tag := fmt.Sprintf("notice %s, one MGET=%v", notice, multi)
	for i, c := range clients {
		rs, _ := c.Pending()
		mustAnswer := dropped[i]
		if multi {
			mustAnswer = len(dropped) == 3
		}
		if mustAnswer && len(rs) != 1 {
			sched.Fail("client-waits-forever / host notice concerning several backend connections", fmt.Sprintf("%s: connection %d (its node was dropped and never answers) received %d replies", tag, i, len(rs)))
		}
		if len(rs) > 1 {
			sched.Fail("more-replies-than-requests / host notice concerning several backend connections", fmt.Sprintf("%s: connection %d received %v", tag, i, rs))
		}
	}
	sched.SetOutcome(tag)
}

func init() {
	sched.Register(&sched.Scenario{Name: "C02/notice-many", Setup: func(tier string) (sched.Config, func()) {
		b := sched.Bounds{}
		if tier == "thorough" {
			b = sched.Bounds{P: 1, F: 1}
		}
		return sched.Config{Bounds: b, Iterative: true, MaxSteps: 200000}, c02noticeManyBody
	}})
}
