//go:build go1.21

package redis

import (
	"fmt"
	"sort"
	"strings"

	"github.com/samaritan-proxy/samaritan/host"
	"github.com/samaritan-proxy/samaritan/proc"
	"github.com/samaritan-proxy/samaritan/verifrt/sched"
	"github.com/samaritan-proxy/samaritan/verifrt/sim/cluster"
	"github.com/samaritan-proxy/samaritan/verifrt/sim/resp"
	"github.com/samaritan-proxy/samaritan/verifrt/vnet"
	"github.com/samaritan-proxy/samaritan/verifrt/vrand"
)

// ---------------------------------------------------------------------------
// C20 (H) redis: traffic and fault histories ending in quiescence on the real processor (with its real listener).
//
// alphabet  connect | disconnect oldest | request ok | unsupported command | invalid request | multi-key request |
//           move a slot group (next request is MOVED-redirected) | start migration (ASK) | node down | node up |
//           remove every host | add the hosts again | the whole cluster down when the proxy starts |
//           reset backend connections ; connection limit 2 (a third connection is rejected);
//           ending: close every client | Stop with the clients still open
// bound     depth (quick 4, thorough 5)
// oracle    counters are read through the stats objects as deltas against a snapshot taken at the start:
//           downstream active-connection gauge back to its start value and total = destroyed; downstream and
//           upstream requests total = success + failure; per command total = success + error; no gauge below
//           its start value at any quiescent point
// ---------------------------------------------------------------------------

var c20ops = []string{"connect", "disconnect", "req-ok", "req-unsupported", "req-invalid", "req-multikey", "req-unfollowable-redirect", "move-group", "start-migration", "node-down", "node-up", "reset-backend", "remove-all-hosts", "add-hosts", "disconnect-with-request-in-flight", "cut-off-pipeline", "replace-hosts", "req-slow"}

type c20snap struct {
	cxTotal, cxDestroy, cxActive uint64
	rqTotal, rqOK, rqFail        uint64
	uRqTotal, uRqOK, uRqFail     uint64
	uCxTotal, uCxDestroy, uCxAct uint64
	cmds                         map[string][3]uint64
}

func c20take(p *redisProc) c20snap {
	d, u := p.stats.Downstream, p.stats.Upstream
	s := c20snap{
		cxTotal: d.CxTotal.Value(), cxDestroy: d.CxDestroyTotal.Value(), cxActive: d.CxActive.Value(),
		rqTotal: d.RqTotal.Value(), rqOK: d.RqSuccessTotal.Value(), rqFail: d.RqFailureTotal.Value(),
		uRqTotal: u.RqTotal.Value(), uRqOK: u.RqSuccessTotal.Value(), uRqFail: u.RqFailureTotal.Value(),
		uCxTotal: u.CxTotal.Value(), uCxDestroy: u.CxDestroyTotal.Value(), uCxAct: u.CxActive.Value(),
		cmds: map[string][3]uint64{},
	}
	for name, h := range p.cmdHdlrs {
		s.cmds[name] = [3]uint64{h.stats.Total.Value(), h.stats.Success.Value(), h.stats.Error.Value()}
	}
	return s
}

func c20body(depth int) func() {
	return func() {
		vrand.Fair()
		restore := proc.VerifSetListenFunc(vnet.Listen)
		sched.OnReset(restore)
		cl := cluster.New(2, 0, 2)
		cl.Start()
		// cold: the cluster is down when the proxy starts, so no slot information is ever loaded
		cold := sched.Choose(sched.ClsInput, 2, "cluster-down-at-start") == 1
		if cold {
			for _, n := range cl.Nodes {
				n.Stop()
			}
		}
		p := vfNewProc(vfSvcConfig(0, nil, 2), cl.Nodes[0].Addr, cl.Nodes[1].Addr)
		start := c20take(p)
		p.Start()
		sched.WaitQuiescent()
		sched.AdvanceTime(int64(slotsRefMinRate) + 1)
		sched.WaitQuiescent()
		k0, k1 := cl.KeyInGroup("k", 0, 0), cl.KeyInGroup("k", 1, 0)
		var clients []*vfClient
		var hist []string
		n := 0
		m0, m1 := cl.Masters()[0], cl.Masters()[1]
		ending := []string{"close-clients", "stop-with-open-clients"}[sched.Choose(sched.ClsInput, 2, "ending")]
		do := func(c *vfClient, raw []byte) {
			if c == nil {
				return
			}
			if err := c.Send(raw); err != nil {
				return
			}
			c.Read()
		}
		for step := 0; step < depth; step++ {
			op := c20ops[sched.Choose(sched.ClsInput, len(c20ops), "op")]
			hist = append(hist, op)
			var cur *vfClient
			for _, c := range clients {
				if !c.c.IsClosed() && !c.c.PeerFinished() && !c.c.WasReset() {
					cur = c
				}
			}
			switch op {
			case "connect":
				vc, err := vnet.DialConn(c09redisAddr)
				if err == nil {
					n++
					vc.Label = "client"
					clients = append(clients, &vfClient{name: fmt.Sprint(n), c: vc})
				}
			case "disconnect":
				for _, c := range clients {
					if !c.c.IsClosed() {
						c.Close()
						break
					}
				}
			case "req-ok":
				do(cur, resp.Encode(resp.Cmd("SET", k0, "v")))
			case "req-unsupported":
				do(cur, resp.Encode(resp.Cmd("NOSUCH", k0)))
			case "req-invalid":
				do(cur, []byte("*1\r\n:1\r\n"))
			case "req-unfollowable-redirect":
				// the node answers with a redirection the proxy cannot follow (no target address): that error is
				// the final answer of the request
				for _, bad := range []string{"-MOVED 3999\r\n", "-ASK 3999\r\n"} {
					m0.BadReplies = map[string][]byte{"get": []byte(bad)}
					do(cur, resp.Encode(resp.Cmd("GET", k0)))
					m0.BadReplies = nil
				}
			case "cut-off-pipeline":
				// two complete requests and the beginning of a third in one write, then the client is gone
				if cur != nil {
					raw := append(resp.Encode(resp.Cmd("SET", k0, "v")), resp.Encode(resp.Cmd("PING"))...)
					raw = append(raw, []byte("*2\r\n$3\r\nGET\r\n$5\r\nab")...)
					cur.Send(raw)
					sched.WaitQuiescent()
					cur.Close()
				}
			case "disconnect-with-request-in-flight":
				// the client goes away while its request waits for the node's answer; the answer arrives afterwards
				// and cannot be written back
				if cur != nil && !m0.Down {
					m0.Stalled = true
					cur.Send(resp.Encode(resp.Cmd("MGET", k0, k1)))
					sched.WaitQuiescent()
					cur.Close()
					sched.WaitQuiescent()
					m0.Stalled = false
				}
			case "req-slow":
				// the node takes 120 ms to answer (a successful, slow request), and a local command whose reply has to
				// wait behind it
				if cur != nil && !m0.Down {
					m0.Stalled = true
					cur.Send(append(resp.Encode(resp.Cmd("GET", k0)), resp.Encode(resp.Cmd("PING"))...))
					sched.WaitQuiescent()
					sched.AdvanceTime(120 * 1000 * 1000)
					sched.WaitQuiescent()
					m0.Stalled = false
					sched.WaitQuiescent()
					cur.Read()
					cur.Read()
				}
			case "req-multikey":
				do(cur, resp.Encode(resp.Cmd("MGET", k0, k1)))
			case "move-group":
				if cl.Owner[0] == m0 && cl.Migrating[0] == nil {
					cl.MoveGroup(0, m1)
				}
			case "start-migration":
				if cl.Owner[0] == m0 && cl.Migrating[0] == nil {
					cl.SetMigrating(0, m1)
				}
			case "node-down":
				if !m0.Down {
					m0.Stop()
				}
			case "node-up":
				if m0.Down {
					m0.Up()
				}
			case "reset-backend":
				m0.ResetConns()
			case "replace-hosts":
				p.OnSvcAllHostReplace([]*host.Host{host.New(cl.Nodes[0].Addr), host.New(cl.Nodes[1].Addr)})
			case "remove-all-hosts":
				p.OnSvcHostRemove([]*host.Host{host.New(cl.Nodes[0].Addr), host.New(cl.Nodes[1].Addr)})
			case "add-hosts":
				p.OnSvcHostAdd([]*host.Host{host.New(cl.Nodes[0].Addr), host.New(cl.Nodes[1].Addr)})
			}
			sched.WaitQuiescent()
			now := c20take(p)
			if int64(now.cxActive-start.cxActive) < 0 {
				sched.Fail("active-connection-gauge-below-zero / redis downstream", fmt.Sprintf("history %v", hist))
			}
		}
		if ending == "close-clients" {
			for _, c := range clients {
				if !c.c.IsClosed() {
					c.Close()
				}
			}
			sched.WaitQuiescent()
			c20judge(p, start, hist, "all clients closed")
			stopped := false
			sched.GoNamed("stopper", func() { p.Stop(); stopped = true })
			sched.WaitQuiescent()
			if stopped {
				c20judge(p, start, hist, "after stop")
			}
		} else {
			stopped := false
			sched.GoNamed("stopper", func() { p.Stop(); stopped = true })
			sched.WaitQuiescent()
			if !stopped {
				return // a hanging Stop belongs to C09
			}
			c20judge(p, start, hist, "stopped with connections open")
		}
		sched.SetOutcome(ending)
	}
}

func c20judge(p *redisProc, start c20snap, hist []string, when string) {
	now := c20take(p)
	where := fmt.Sprintf("history %v, %s", hist, when)
	if now.cxActive != start.cxActive {
		sched.Fail("active-connection-gauge-not-zero / redis downstream / "+when, fmt.Sprintf("%s: gauge moved by %d", where, int64(now.cxActive-start.cxActive)))
	}
	if t, d := now.cxTotal-start.cxTotal, now.cxDestroy-start.cxDestroy; t != d {
		sched.Fail("connections-total-differs-from-destroyed / redis downstream / "+when, fmt.Sprintf("%s: total %d destroyed %d", where, t, d))
	}
	if t, s, f := now.rqTotal-start.rqTotal, now.rqOK-start.rqOK, now.rqFail-start.rqFail; t != s+f {
		sched.Fail("requests-total-differs-from-success-plus-failure / redis downstream", fmt.Sprintf("%s: total %d success %d failure %d", where, t, s, f))
	}
	if t, s, f := now.uRqTotal-start.uRqTotal, now.uRqOK-start.uRqOK, now.uRqFail-start.uRqFail; t != s+f {
		kind := "no redirection"
		for _, h := range hist {
			if h == "move-group" || h == "start-migration" {
				kind = "with redirection"
			}
		}
		sched.Fail("requests-total-differs-from-success-plus-failure / redis upstream / "+kind, fmt.Sprintf("%s: total %d success %d failure %d", where, t, s, f))
	}
	// upstream connections (if the service counts them at all): conserved like the downstream ones
	if when != "all clients closed" {
		if now.uCxAct != start.uCxAct {
			sched.Fail("active-connection-gauge-not-zero / redis upstream / "+when, fmt.Sprintf("%s: gauge moved by %d", where, int64(now.uCxAct-start.uCxAct)))
		}
		if t, d := now.uCxTotal-start.uCxTotal, now.uCxDestroy-start.uCxDestroy; t != d {
			sched.Fail("connections-total-differs-from-destroyed / redis upstream / "+when, fmt.Sprintf("%s: total %d destroyed %d", where, t, d))
		}
	}
	var names []string
	for n := range now.cmds {
		names = append(names, n)
	}
	sort.Strings(names)
	for _, n := range names {
		a, b := now.cmds[n], start.cmds[n]
		if t, s, e := a[0]-b[0], a[1]-b[1], a[2]-b[2]; t != s+e {
			sched.Fail("command-total-differs-from-success-plus-error / "+n, fmt.Sprintf("%s: %s total %d success %d error %d", where, strings.ToUpper(n), t, s, e))
		}
	}
}

func init() {
	sched.Register(&sched.Scenario{Name: "C20/redis", Setup: func(tier string) (sched.Config, func()) {
		d := 4
		if tier == "thorough" {
			d = 5
		}
		return sched.Config{Bounds: sched.Bounds{}, MaxSteps: 200000}, c20body(d)
	}})
}

// ---------------------------------------------------------------------------
// C20 (S) the service is stopped while a request is arriving: whatever part of Stop the request meets (listener
// closing, upstream already stopped, session being closed), it is counted once and classified once.
//
// threads   a client sending one or two requests (single-key, multi-key) and reading the replies ; Stop
// bound     all schedules P1 F1 (quick) / P2 F1 (thorough) from the moment both start (set-up on the default schedule)
// oracle    after Stop returned: active gauge back, total = destroyed, total = success + failure downstream, upstream
//           and per command
// ---------------------------------------------------------------------------

func c20stopRacingBody() {
	vrand.Fair()
	sched.SetQuiet(true)
	restore := proc.VerifSetListenFunc(vnet.Listen)
	sched.OnReset(restore)
	cl := cluster.New(2, 0, 2)
	cl.Start()
	p := vfNewProc(vfSvcConfig(0, nil, 2), cl.Nodes[0].Addr, cl.Nodes[1].Addr)
	start := c20take(p)
	p.Start()
	sched.WaitQuiescent()
	sched.AdvanceTime(int64(slotsRefMinRate) + 1)
	sched.WaitQuiescent()
	k0, k1 := cl.KeyInGroup("k", 0, 0), cl.KeyInGroup("k", 1, 0)
	vc, err := vnet.DialConn(c09redisAddr)
	if err != nil {
		sched.Fail("harness-dial", err.Error())
		return
	}
	vc.Label = "client"
	c := &vfClient{name: "c", c: vc}
	if sched.Choose(sched.ClsInput, 2, "warm") == 1 {
		c.Send(resp.Encode(resp.Cmd("SET", k0, "v")))
		c.Read()
	}
	shape := sched.Choose(sched.ClsInput, 3, "requests")
	sched.WaitQuiescent()
	sched.SetQuiet(false)
	stopped := false
	sched.GoNamed("client", func() {
		switch shape {
		case 0:
			c.Send(resp.Encode(resp.Cmd("GET", k0)))
		case 1:
			c.Send(resp.Encode(resp.Cmd("MGET", k0, k1)))
		case 2:
			c.Send(append(resp.Encode(resp.Cmd("GET", k1)), resp.Encode(resp.Cmd("SET", k0, "w"))...))
		}
	})
	sched.GoNamed("stopper", func() { p.Stop(); stopped = true })
	sched.WaitQuiescent()
	sched.SetQuiet(true)
	if !stopped {
		return // a hanging Stop belongs to C09
	}
	c20judge(p, start, []string{fmt.Sprintf("request shape %d", shape), "stop racing the request"}, "stopped while a request arrives")
	sched.SetOutcome(fmt.Sprint(shape))
}

func init() {
	sched.Register(&sched.Scenario{Name: "C20/stop-racing-request", Setup: func(tier string) (sched.Config, func()) {
		b := sched.Bounds{P: 1, F: 1}
		if tier == "thorough" {
			b = sched.Bounds{P: 2, F: 1}
		}
		return sched.Config{Bounds: b, Iterative: true, MaxSteps: 200000}, c20stopRacingBody
	}})
}
