//go:build go1.21

package redis

import (
	"encoding/json"
	"fmt"
	"sort"
	"strconv"
	"strings"

	"github.com/samaritan-proxy/samaritan/verifrt/sched"
	"github.com/samaritan-proxy/samaritan/verifrt/sim/cluster"
	"github.com/samaritan-proxy/samaritan/verifrt/sim/resp"
	"github.com/samaritan-proxy/samaritan/verifrt/vnet"
)

// ---------------------------------------------------------------------------
// C18 (H)+(I): SCAN iteration through the real proxy over scripted per-node cursor chains.
//
// alphabet  0..3 nodes (0: any cursor); per node a cursor chain of 1..3 steps with cursors from {1, 2, 2^47, 2^48-1};
//           keys spread over the steps; MATCH/COUNT/TYPE argument combinations; client supplied start
//           cursors from {0, 1, 2^48, 2*2^48+5, 3*2^48, 2^63-1, -1, x, 2^64}
//           a periodic slot refresh between any two calls of an iteration (2-4 nodes)
// bound     every combination of chains (17 shapes per node), iteration step limit 20
// oracle    iteration reaches 0; union of returned keys = union of the nodes' key sets; every node gets
//           cursor 0 exactly once and its own chain in order; nodes are not revisited; extra arguments
//           arrive unchanged; a cursor past the last node gives the terminating reply; no error, no crash
// ---------------------------------------------------------------------------

var c18cursors = []string{"1", "2", "140737488355328", "281474976710655"}

// chain shapes: ordered selections of 0..2 intermediate cursors
func c18shapes() [][]string {
	out := [][]string{{}}
	for _, a := range c18cursors {
		out = append(out, []string{a})
	}
	for _, a := range c18cursors {
		for _, b := range c18cursors {
			if a != b {
				out = append(out, []string{a, b})
			}
		}
	}
	return out
}

type c18case struct {
	Chains    [][]string `json:"chains"` // per node: intermediate cursors
	Extra     []string   `json:"extra,omitempty"`
	Start     string     `json:"start,omitempty"`
	Pipelined bool       `json:"pipelined,omitempty"` // two iterations in flight at once
	Refresh   bool       `json:"refresh,omitempty"`   // a periodic slot refresh runs between any two SCAN calls
	// FailDial: the connection to the second node is lost before the iteration and the next connect attempt to it
	// is refused once; the client repeats a call that was answered with an error
	FailDial bool `json:"fail_dial,omitempty"`
	// ClusterDown: the k-th SCAN call is answered -CLUSTERDOWN by the node it addresses (the node just lost sight of
	// the majority); the client repeats the call
	ClusterDown int `json:"cluster_down_at_call,omitempty"`
	// ReplicaHost (two chains): the service's host list is the first master and a replica of the second master - the
	// second master itself is not a host of the service (SCAN covers the listed hosts, whatever their role)
	ReplicaHost bool `json:"replica_host,omitempty"`
}

func c18run(cs c18case) (sig, detail string) {
	body := func() {
		n := len(cs.Chains)
		if n == 0 {
			// no node at all (e.g. before service discovery delivered endpoints): any cursor gets the terminating
			// reply or an error reply, never a crash
			p := vfNewProc(vfSvcConfig(0, nil, 0))
			sched.GoNamed("upstream.Serve", p.u.Serve)
			sched.WaitQuiescent()
			s := &vfStack{p: p}
			c := s.NewClient("c0")
			start := cs.Start
			if start == "" {
				start = "0"
			}
			got, err := c.Do("SCAN", start)
			if err != nil {
				sig, detail = "connection-failed / no nodes", err.Error()
				return
			}
			if got.Kind != '-' && !resp.Equal(got, resp.Array(resp.BulkS("0"), resp.Array())) {
				sig, detail = "scan-reply-shape / no nodes", fmt.Sprintf("SCAN %s with no node -> %s", start, got)
			}
			return
		}
		cl := cluster.New(n, 0, n)
		hosts := cl.Nodes
		if cs.ReplicaHost {
			cl = cluster.New(2, 1, 2)
			hosts = []*cluster.Node{cl.Masters()[0]}
			for _, nd := range cl.Nodes {
				if nd.MasterOf == cl.Masters()[1] {
					hosts = append(hosts, nd)
					break
				}
			}
		}
		want := map[string]bool{}
		for i, node := range hosts {
			chain := cs.Chains[i]
			node.ScanChain = map[string]cluster.ScanStep{}
			cur := "0"
			for step := 0; step <= len(chain); step++ {
				next := "0"
				if step < len(chain) {
					next = chain[step]
				}
				var keys []string
				for k := 0; k < 4; k++ {
					if k%n == i && (k/n)%(len(chain)+1) == step {
						key := fmt.Sprintf("key%d", k)
						if k == 1 {
							key = "" // a key whose name is the empty string
						}
						keys = append(keys, key)
						want[key] = true
					}
				}
				node.ScanChain[cur] = cluster.ScanStep{Next: next, Keys: keys}
				cur = next
			}
		}
		var seeds []string
		if cs.ReplicaHost {
			seeds = []string{hosts[0].Addr, hosts[1].Addr}
		}
		s := vfStartStack(cl, vfSvcConfig(0, nil, 0), seeds...)
		c := s.NewClient("c0")
		mark := len(cl.Log)
		if cs.Pipelined {
			// two clients' iterations overlap: the replies of both SCANs are in flight together,
			// on one connection (pipelined) and on two connections
			first := cs.Chains[0]
			if len(first) == 0 {
				return
			}
			c2 := s.NewClient("c1")
			raw := append(resp.Encode(resp.Cmd("SCAN", "0")), resp.Encode(resp.Cmd("SCAN", first[0]))...)
			c.Send(raw)
			c2.Send(raw)
			sched.WaitQuiescent()
			for _, cc := range []*vfClient{c, c2} {
				rs, _ := cc.Pending()
				if len(rs) != 2 {
					sig, detail = "pipelined-scan-reply-count", fmt.Sprint(rs)
					return
				}
				want0 := first[0]
				want1 := "281474976710656" // the node is finished: (node 1, cursor 0), whether or not a node 1 exists
				if len(first) > 1 {
					want1 = first[1]
				}
				for i, w := range []string{want0, want1} {
					// (when the scanned node is the last one and it is finished, the statement allows the proxy to
					// answer 0 at once instead of "next node, cursor 0" followed by the terminating reply)
					lastDone := len(cs.Chains) == 1 && w == "281474976710656" && rs[i].Kind == '*' && len(rs[i].Arr) == 2 && string(rs[i].Arr[0].Str) == "0"
					if lastDone {
						continue
					}
					if rs[i].Kind != '*' || len(rs[i].Arr) != 2 || string(rs[i].Arr[0].Str) != w {
						sig, detail = "overlapping-scans-get-wrong-cursor", fmt.Sprintf("reply %d carries cursor %s, expected %s", i, rs[i], w)
						return
					}
				}
			}
			return
		}
		if cs.Start != "" {
			got, err := c.Do("SCAN", cs.Start)
			if err != nil {
				sig, detail = "connection-failed / client cursor", err.Error()
				return
			}
			var idx uint64
			valid := false
			if v, perr := strconv.ParseInt(cs.Start, 10, 64); perr == nil {
				idx, valid = uint64(v)>>48, true
			}
			switch {
			case !valid:
				if got.Kind != '-' {
					sig, detail = "invalid-cursor-not-rejected", fmt.Sprintf("SCAN %s -> %s", cs.Start, got)
				}
			case idx >= uint64(n):
				if !resp.Equal(got, resp.Array(resp.BulkS("0"), resp.Array())) {
					sig, detail = "cursor-past-last-node-not-terminal", fmt.Sprintf("SCAN %s -> %s", cs.Start, got)
				}
			default:
				if got.Kind != '*' || len(got.Arr) != 2 {
					sig, detail = "scan-reply-shape", fmt.Sprintf("SCAN %s -> %s", cs.Start, got)
				}
			}
			return
		}
		if cs.FailDial && n > 1 {
			hosts[1].ResetConns()
			sched.WaitQuiescent()
			refused := false
			addr := hosts[1].Addr
			vnet.SetDialHook(func(a string) error {
				if a == addr && !refused {
					refused = true
					return vnet.ErrRefused
				}
				return nil
			})
		}
		cursor := "0"
		got := map[string]bool{}
		steps := 0
		retries := 0
		for {
			steps++
			limit := 20 // (the chains of the ordinary cases have at most 2 cursors per node)
			for _, ch := range cs.Chains {
				limit += len(ch)
			}
			if steps > limit {
				sig, detail = "iteration-does-not-terminate", fmt.Sprintf("still at cursor %s after %d calls", cursor, limit)
				return
			}
			if cs.Refresh && steps > 1 {
				// the node set does not change; the proxy just refreshes its routing table
				s.RefreshRound()
				sched.AdvanceTime(int64(slotsRefFreq) + 1)
				sched.WaitQuiescent()
				s.RefreshRound()
			}
			args := append([]string{"SCAN", cursor}, cs.Extra...)
			var downNode *cluster.Node
			if cs.ClusterDown > 0 && steps == cs.ClusterDown {
				if cv, perr := strconv.ParseUint(cursor, 10, 64); perr == nil && int(cv>>48) < n {
					downNode = hosts[cv>>48]
					downNode.BadReplies = map[string][]byte{"scan": []byte("-CLUSTERDOWN The cluster is down\r\n")}
				}
			}
			v, err := c.Do(args...)
			if downNode != nil {
				sched.WaitQuiescent()
				downNode.BadReplies = nil
			}
			if err != nil {
				sig, detail = "connection-failed", err.Error()
				return
			}
			if v.Kind == '-' && downNode != nil && retries < 3 {
				retries++ // the cluster was reported down: the client asks again with the same cursor
				sched.WaitQuiescent()
				s.RefreshRound()
				continue
			}
			if v.Kind == '-' && cs.FailDial && retries < 3 {
				retries++ // the node could not be reached: the client asks again with the same cursor
				sched.WaitQuiescent()
				continue
			}
			if v.Kind != '*' || len(v.Arr) != 2 || v.Arr[0].Kind != '$' || v.Arr[1].Kind != '*' {
				sig, detail = "scan-reply-shape", fmt.Sprintf("SCAN %s -> %s", cursor, v)
				return
			}
			for _, k := range v.Arr[1].Arr {
				if k.Kind != '$' || k.Null {
					sig, detail = "scan-reply-lists-a-non-key", fmt.Sprintf("SCAN %s -> %s", cursor, v)
					return
				}
				got[string(k.Str)] = true
			}
			cursor = string(v.Arr[0].Str)
			if cursor == "0" {
				break
			}
		}
		var missing, extra []string
		for k := range want {
			if !got[k] {
				missing = append(missing, k)
			}
		}
		for k := range got {
			if !want[k] {
				extra = append(extra, k)
			}
		}
		sort.Strings(missing)
		sort.Strings(extra)
		if len(missing) > 0 {
			sig, detail = "keys-never-returned", fmt.Sprintf("missing %v", missing)
			return
		}
		if len(extra) > 0 {
			sig, detail = "keys-stored-nowhere-returned", fmt.Sprintf("extra %v", extra)
			return
		}
		// what the nodes saw
		perNode := map[string][]string{}
		var order []string
		for _, e := range cl.Log[mark:] {
			if strings.ToLower(e.Args[0]) != "scan" {
				continue
			}
			if len(order) == 0 || order[len(order)-1] != e.Node {
				order = append(order, e.Node)
			}
			if cs.ClusterDown > 0 && len(perNode[e.Node]) > 0 && perNode[e.Node][len(perNode[e.Node])-1] == e.Args[1] {
				continue // the call that was answered -CLUSTERDOWN, repeated by the client with the same cursor
			}
			perNode[e.Node] = append(perNode[e.Node], e.Args[1])
			if strings.Join(e.Args[2:], " ") != strings.Join(cs.Extra, " ") {
				sig, detail = "scan-arguments-changed", fmt.Sprintf("client sent %v, node %s received %v", cs.Extra, e.Node, e.Args[2:])
				return
			}
		}
		if len(order) != n {
			sig, detail = "node-revisited-or-skipped", fmt.Sprintf("visit order %v for %d nodes", order, n)
			return
		}
		for i, node := range hosts {
			wantSeq := append([]string{"0"}, cs.Chains[i]...)
			if strings.Join(perNode[node.ID], ",") != strings.Join(wantSeq, ",") {
				sig, detail = "node-cursor-sequence-differs", fmt.Sprintf("node %s received cursors %v, its chain is %v", node.ID, perNode[node.ID], wantSeq)
				return
			}
		}
	}
	e := sched.RunOnce(nil, sched.Options{}, body)
	for _, f := range e.Failures {
		sig, detail = f.Sig, f.Detail
	}
	if sig == "" && e.EndWhy != "main-returned" {
		sig = "execution-ended-" + e.EndWhy
	}
	return
}

func c18scan(env sched.Env) *sched.Report {
	rep := &sched.Report{Outcomes: map[string]int64{}, Complete: true}
	sigs := map[string]bool{}
	shapes := c18shapes()
	n := 0
	try := func(cs c18case) {
		n++
		if n%env.NShards != env.Shard {
			return
		}
		sched.Progress(cs)
		sig, detail := c18run(cs)
		rep.Execs++
		sched.Progress(nil)
		rep.Transitions += int64(len(cs.Chains))
		if sig != "" {
			rep.Outcomes["violation: "+sig]++
			if !sigs[sig] {
				sigs[sig] = true
				rep.Violations = append(rep.Violations, sched.CustomViolation("C18/scan", sig, fmt.Sprintf("%+v: %s", cs, detail), cs))
			}
		} else {
			rep.Outcomes["ok"]++
		}
	}
	for _, a := range shapes {
		try(c18case{Chains: [][]string{a}})
		for _, b := range shapes {
			try(c18case{Chains: [][]string{a, b}})
			for _, c := range shapes {
				if env.Tier != "thorough" && (len(a)+len(b)+len(c))%2 == 1 && len(c) == 2 {
					continue // quick: half of the longest triples
				}
				try(c18case{Chains: [][]string{a, b, c}})
			}
		}
	}
	// long iterations: 140 (thorough: also 300) calls per node, nearly all of them answered with an empty batch
	// (MATCH over a big node with few matching keys)
	for _, l := range []int{140, 300} {
		if l == 300 && env.Tier != "thorough" {
			continue
		}
		var long []string
		for i := 1; i <= l; i++ {
			long = append(long, strconv.Itoa(i*3))
		}
		try(c18case{Chains: [][]string{long}})
		try(c18case{Chains: [][]string{long, {"5"}}})
		try(c18case{Chains: [][]string{{}, long}})
	}
	// the host list names a replica instead of its master
	for _, a := range shapes[:6] {
		for _, b := range shapes[:6] {
			try(c18case{Chains: [][]string{a, b}, ReplicaHost: true})
			try(c18case{Chains: [][]string{a, b}, ReplicaHost: true, Refresh: true})
		}
	}
	// a call answered -CLUSTERDOWN by the node it addresses (the client repeats the call)
	for _, a := range shapes[:6] {
		for _, b := range shapes[:6] {
			for k := 1; k <= 4; k++ {
				try(c18case{Chains: [][]string{a, b}, ClusterDown: k})
				try(c18case{Chains: [][]string{a, b, {"7"}}, ClusterDown: k})
			}
		}
	}
	// a refused connect to the node a call addresses (the client repeats the call)
	for _, a := range shapes[:6] {
		for _, b := range shapes[:6] {
			try(c18case{Chains: [][]string{a, b}, FailDial: true})
			try(c18case{Chains: [][]string{a, b, {"1"}}, FailDial: true})
		}
	}
	// a slot refresh between the calls of one iteration (unchanged node set)
	for _, a := range shapes[:6] {
		for _, b := range shapes[:6] {
			try(c18case{Chains: [][]string{a, b}, Refresh: true})
			try(c18case{Chains: [][]string{a, b, {"1"}}, Refresh: true})
			try(c18case{Chains: [][]string{a, {"2"}, b, {}}, Refresh: true})
		}
	}
	for _, a := range shapes {
		if len(a) > 0 {
			try(c18case{Chains: [][]string{a}, Pipelined: true})
			try(c18case{Chains: [][]string{a, {"1"}}, Pipelined: true})
		}
	}
	extras := [][]string{{"MATCH", "key*"}, {"COUNT", "7"}, {"MATCH", "k\r\n*", "COUNT", "1000000"}, {"TYPE", "string"}, {"match", "*", "count", "1", "type", "hash"}}
	for _, ex := range extras {
		for _, a := range shapes[:6] {
			try(c18case{Chains: [][]string{a, {"2"}}, Extra: ex})
		}
	}
	for _, st := range []string{"0", "5", "281474976710656", "18446744073709551615"} {
		try(c18case{Chains: [][]string{}, Start: st})
	}
	for _, st := range []string{"0", "1", "281474976710656", "562949953421317", "844424930131968", "9223372036854775807", "-1", "x", "18446744073709551616", ""} {
		if st == "" {
			continue
		}
		for nodes := 1; nodes <= 3; nodes++ {
			chains := make([][]string, nodes)
			for i := range chains {
				chains[i] = []string{"1"}
			}
			try(c18case{Chains: chains, Start: st})
		}
	}
	// white box: cursor composition is lossless
	if env.Shard == 0 {
		r := &scanRequest{}
		for _, idx := range []uint16{0, 1, 2, 255, 256, 32767, 65535} {
			var cursors []uint64
			for k := uint(0); k <= 48; k++ {
				cursors = append(cursors, uint64(1)<<k-1)
				if k < 48 {
					cursors = append(cursors, uint64(1)<<k)
				}
			}
			for _, nc := range cursors {
				rep.Execs++
				sched.Progress(nil)
				gi, gc := r.parseCursor(r.genCursor(idx, nc))
				if gi != idx || gc != nc {
					sig := "cursor-encoding-lossy"
					if !sigs[sig] {
						sigs[sig] = true
						rep.Violations = append(rep.Violations, sched.CustomViolation("C18/scan", sig, fmt.Sprintf("node %d cursor %d -> node %d cursor %d", idx, nc, gi, gc), c18case{}))
					}
				}
			}
		}
	}
	rep.States = rep.Execs
	rep.Distinct = rep.Execs
	rep.CustomSamples = []interface{}{c18case{Chains: [][]string{{"2", "281474976710655"}, {}, {"1"}}}, c18case{Chains: [][]string{{"1"}}, Start: "562949953421317"}}
	return rep
}

// C18 (S): one iteration over two nodes under all schedules within bounds. Node 0 finishes at once (its reply
// carries node cursor 0, which the proxy must turn into "node 1, cursor 0" before the reply becomes visible
// to the session writer); node 1 takes one intermediate step.
func c18schedBody() {
	cl := cluster.New(2, 0, 2)
	cl.Nodes[0].ScanChain = map[string]cluster.ScanStep{"0": {Next: "0", Keys: []string{"key0"}}}
	cl.Nodes[1].ScanChain = map[string]cluster.ScanStep{"0": {Next: "5", Keys: []string{"key1"}}, "5": {Next: "0", Keys: []string{"key2"}}}
	s := vfStartStack(cl, vfSvcConfig(0, nil, 0))
	c := s.NewClient("c0")
	cursor := "0"
	var cursors []string
	got := map[string]bool{}
	for step := 0; step < 6; step++ {
		v, err := c.Do("SCAN", cursor)
		if err != nil || v.Kind != '*' || len(v.Arr) != 2 {
			sched.Fail("scan-reply-shape / schedules", fmt.Sprintf("SCAN %s -> %s %v", cursor, v, err))
			return
		}
		for _, k := range v.Arr[1].Arr {
			got[string(k.Str)] = true
		}
		cursor = string(v.Arr[0].Str)
		cursors = append(cursors, cursor)
		if cursor == "0" {
			break
		}
	}
	// the statement fixes what the iteration achieves, not how many calls it takes: it must end with cursor 0,
	// return every key, and give every node its own cursor chain exactly once, in order
	if len(cursors) == 0 || cursors[len(cursors)-1] != "0" {
		sched.Fail("iteration-does-not-terminate / schedules", fmt.Sprintf("cursors handed to the client: %v", cursors))
	}
	if len(got) != 3 {
		sched.Fail("keys-never-returned / schedules", fmt.Sprintf("keys seen %v, cursors handed to the client %v", got, cursors))
	}
	perNode := map[string][]string{}
	for _, e := range cl.Log {
		if strings.EqualFold(e.Args[0], "scan") {
			perNode[e.Node] = append(perNode[e.Node], e.Args[1])
		}
	}
	if strings.Join(perNode["m0"], ",") != "0" || strings.Join(perNode["m1"], ",") != "0,5" {
		sched.Fail("node-cursor-sequence-differs / schedules", fmt.Sprintf("node m0 received cursors %v (its chain: [0]), node m1 %v (its chain: [0 5]); cursors handed to the client %v", perNode["m0"], perNode["m1"], cursors))
	}
	sched.SetOutcome("ok")
}

func init() {
	sched.Register(&sched.Scenario{Name: "C18/scan-schedules", Setup: func(tier string) (sched.Config, func()) {
		b := sched.Bounds{P: 1, F: 1, Sel: 1}
		if tier == "thorough" {
			b = sched.Bounds{P: 2, F: 2, Sel: 1}
		}
		return sched.Config{Bounds: b, Iterative: true, MaxSteps: 100000}, c18schedBody
	}})
	sched.Register(&sched.Scenario{Name: "C18/scan", Custom: c18scan, ReplayCustom: func(in json.RawMessage) []sched.Failure {
		var cs c18case
		json.Unmarshal(in, &cs)
		sig, detail := c18run(cs)
		fmt.Printf("%+v -> %s %s\n", cs, sig, detail)
		if sig == "" {
			return nil
		}
		return []sched.Failure{{Sig: sig, Detail: detail}}
	}})
}

// ---------------------------------------------------------------------------
// C18 (I) a SCAN call whose request waits in a backend client's queue (the connection is being re-established)
// while the session already reads what the client sends next.
//
// alphabet  encoding inline | RESP array; SCAN 0 with MATCH / COUNT / both; what follows: another SCAN with other
//           arguments | a GET | a long inline PING | nothing
// bound     every combination; default schedule, one write per command
// oracle    every SCAN call a node receives carries exactly the arguments the client gave; one reply per
//           command, SCAN replies have the (cursor, keys) shape and carry the node's keys
// ---------------------------------------------------------------------------

func c18queuedBody() {
	inline := sched.Choose(sched.ClsInput, 2, "encoding") == 1
	first := [][]string{{"SCAN", "0", "MATCH", "a:*"}, {"SCAN", "0", "COUNT", "10"}, {"SCAN", "0", "MATCH", "a:*", "COUNT", "10"}}[sched.Choose(sched.ClsInput, 3, "scan arguments")]
	cl := cluster.New(2, 0, 2)
	cl.Nodes[0].ScanChain = map[string]cluster.ScanStep{"0": {Next: "7", Keys: []string{"a:1", "a:2"}}, "7": {Next: "0", Keys: []string{"a:3"}}}
	cl.Nodes[1].ScanChain = map[string]cluster.ScanStep{"0": {Next: "0", Keys: []string{"a:4"}}}
	key := cl.KeyInGroup("bb", 0, 0)
	next := [][]string{nil, {"SCAN", "7", "MATCH", "bb:?", "COUNT", "77"}, {"GET", key}, {"PING", "zzzzzzzzzzzzzzzzzzzzzzzzzzzzzzzzzzzzzzzz"}}[sched.Choose(sched.ClsInput, 4, "next command")]
	s := vfStartStack(cl, vfSvcConfig(0, nil, 0))
	c := s.NewClient("c0")
	for _, n := range cl.Nodes {
		n.CloseConns()
	}
	sched.WaitQuiescent()
	vnet.HoldDials(true, cl.Nodes[0].Addr, cl.Nodes[1].Addr)
	mark := len(cl.Log)
	enc := func(args []string) []byte {
		if inline {
			return []byte(strings.Join(args, " ") + "\r\n")
		}
		return resp.Encode(resp.Cmd(args...))
	}
	cmds := [][]string{first}
	if next != nil {
		cmds = append(cmds, next)
	}
	for _, a := range cmds {
		if err := c.Send(enc(a)); err != nil {
			sched.Fail("connection-failed / queued SCAN", err.Error())
			return
		}
		sched.WaitQuiescent()
	}
	vnet.HoldDials(false)
	tag := fmt.Sprintf("inline=%v %q then %q", inline, first, next)
	for i, a := range cmds {
		v, err := c.Read()
		if err != nil {
			sched.Fail("reply-missing / queued SCAN", fmt.Sprintf("%s: reply %d: %v", tag, i, err))
			return
		}
		if a[0] != "SCAN" {
			continue
		}
		if v.Kind != '*' || len(v.Arr) != 2 {
			sched.Fail("scan-reply-shape / queued SCAN", fmt.Sprintf("%s: reply %d is %s", tag, i, v))
			continue
		}
		var keys []string
		for _, k := range v.Arr[1].Arr {
			keys = append(keys, string(k.Str))
		}
		want := "a:1,a:2"
		if a[1] == "7" {
			want = "a:3"
		}
		if strings.Join(keys, ",") != want {
			sched.Fail("keys-never-returned / queued SCAN", fmt.Sprintf("%s: reply %d carries %v, the node's step has %s", tag, i, keys, want))
		}
	}
	sched.WaitQuiescent()
	var seen, exp []string
	for _, e := range cl.Log[mark:] {
		if strings.EqualFold(e.Args[0], "scan") {
			seen = append(seen, strings.Join(e.Args, " "))
		}
	}
	for _, a := range cmds {
		if a[0] == "SCAN" {
			exp = append(exp, strings.Join(a, " "))
		}
	}
	sort.Strings(seen)
	sort.Strings(exp)
	if strings.Join(seen, "|") != strings.Join(exp, "|") {
		sched.Fail("scan-arguments-changed-on-the-way / queued SCAN", fmt.Sprintf("%s: nodes received %q", tag, seen))
	}
	sched.SetOutcome(fmt.Sprintf("inline=%v", inline))
}

func init() {
	sched.Register(&sched.Scenario{Name: "C18/scan-queued", Setup: func(tier string) (sched.Config, func()) {
		return sched.Config{Bounds: sched.Bounds{}, MaxSteps: 100000}, c18queuedBody
	}})
}

// ---------------------------------------------------------------------------
// C18 (I) a node that hands back the cursor it was asked with (and keys), once or twice, before it moves on: the
// statement quantifies over all per-node cursor sequences.
//
// alphabet  node 0: cursors 0 -> c -> c (-> c) -> 0 for c in {1, 7, 2^47}; the repetition on the first | on the only
//           other node; with and without MATCH
// oracle    the iteration ends with cursor 0 within 12 calls, every key of every step is returned
// ---------------------------------------------------------------------------

func c18repeatedCursorBody() {
	c0 := []string{"1", "7", "140737488355328"}[sched.Choose(sched.ClsInput, 3, "cursor")]
	repeats := 1 + sched.Choose(sched.ClsInput, 2, "repetitions")
	on := sched.Choose(sched.ClsInput, 2, "node")
	withMatch := sched.Choose(sched.ClsInput, 2, "MATCH") == 1
	cl := cluster.New(2, 0, 2)
	other := 1 - on
	later := []cluster.ScanStep{}
	want := map[string]bool{"r:0": true, "r:1": true, "o:0": true}
	for i := 1; i < repeats; i++ {
		k := fmt.Sprintf("r:%d", i+1)
		later = append(later, cluster.ScanStep{Next: c0, Keys: []string{k}})
		want[k] = true
	}
	later = append(later, cluster.ScanStep{Next: "0", Keys: []string{"r:last"}})
	want["r:last"] = true
	cl.Nodes[on].ScanChain = map[string]cluster.ScanStep{"0": {Next: c0, Keys: []string{"r:0"}}, c0: {Next: c0, Keys: []string{"r:1"}}}
	cl.Nodes[on].ScanLater = map[string][]cluster.ScanStep{c0: later}
	cl.Nodes[other].ScanChain = map[string]cluster.ScanStep{"0": {Next: "0", Keys: []string{"o:0"}}}
	s := vfStartStack(cl, vfSvcConfig(0, nil, 0))
	c := s.NewClient("c0")
	cursor := "0"
	got := map[string]bool{}
	var cursors []string
	for step := 0; step < 12; step++ {
		args := []string{"SCAN", cursor}
		if withMatch {
			args = append(args, "MATCH", "*")
		}
		v, err := c.Do(args...)
		if err != nil || v.Kind != '*' || len(v.Arr) != 2 {
			sched.Fail("scan-reply-shape / repeated node cursor", fmt.Sprintf("SCAN %s -> %s %v", cursor, v, err))
			return
		}
		for _, k := range v.Arr[1].Arr {
			got[string(k.Str)] = true
		}
		cursor = string(v.Arr[0].Str)
		cursors = append(cursors, cursor)
		if cursor == "0" {
			break
		}
	}
	tag := fmt.Sprintf("node %d answers cursor %s with cursor %s %d time(s) before it moves on", on, c0, c0, repeats)
	if cursor != "0" {
		sched.Fail("iteration-does-not-terminate / repeated node cursor", fmt.Sprintf("%s: cursors handed to the client: %v", tag, cursors))
	}
	for k := range want {
		if !got[k] {
			sched.Fail("keys-never-returned / repeated node cursor", fmt.Sprintf("%s: key %s was never returned; cursors handed to the client: %v", tag, k, cursors))
			break
		}
	}
	sched.SetOutcome(fmt.Sprint(repeats))
}

func init() {
	sched.Register(&sched.Scenario{Name: "C18/repeated-cursor", Setup: func(tier string) (sched.Config, func()) {
		return sched.Config{Bounds: sched.Bounds{}, MaxSteps: 100000}, c18repeatedCursorBody
	}})
}
