//go:build go1.21

package redis

import (
	"testing"
	"time"

	"github.com/samaritan-proxy/samaritan/host"
	"github.com/samaritan-proxy/samaritan/pb/config/protocol"
	pbredis "github.com/samaritan-proxy/samaritan/pb/config/protocol/redis"
	"github.com/samaritan-proxy/samaritan/pb/config/service"
	"github.com/samaritan-proxy/samaritan/proc"
	"github.com/samaritan-proxy/samaritan/proc/internal/log"
	"github.com/samaritan-proxy/samaritan/stats"
	"github.com/samaritan-proxy/samaritan/verifrt/hutil"
	"github.com/samaritan-proxy/samaritan/verifrt/sched"
	"github.com/samaritan-proxy/samaritan/verifrt/sim/resp"
)

func TestVerif(t *testing.T) { hutil.Quiet(); sched.Main(t) }

func vfDur(d time.Duration) *time.Duration { return &d }

// vfConfig builds a redis service config.
func vfConfig(strategy pbredis.ReadStrategy, cps *pbredis.Compression) *config {
	opt := &protocol.RedisOption{ReadStrategy: strategy, Compression: cps}
	raw := &service.Config{
		ConnectTimeout:  vfDur(time.Second),
		IdleTimeout:     vfDur(10 * time.Minute),
		Protocol:        protocol.Redis,
		ProtocolOptions: &service.Config_RedisOption{RedisOption: opt},
	}
	return newConfig(raw)
}

var vfScopeN int

func vfUpstream(cfg *config, hosts ...*host.Host) *upstream {
	vfScopeN++
	st := proc.NewUpstreamStats(stats.CreateScope("verif"))
	return newUpstream(cfg, hosts, log.New("[verif]"), st)
}

// toSim converts a repository RespValue into the independent representation.
func toSim(v *RespValue) resp.Value {
	if v == nil {
		return resp.Value{Kind: '?'}
	}
	switch v.Type {
	case SimpleString:
		return resp.Value{Kind: '+', Str: append([]byte{}, v.Text...)}
	case Error:
		return resp.Value{Kind: '-', Str: append([]byte{}, v.Text...)}
	case Integer:
		return resp.Value{Kind: ':', Int: v.Int}
	case BulkString:
		if v.Text == nil {
			return resp.NullBulk()
		}
		return resp.Value{Kind: '$', Str: append([]byte{}, v.Text...)}
	case Array:
		if v.Array == nil {
			return resp.NullArray()
		}
		out := make([]resp.Value, len(v.Array))
		for i := range v.Array {
			out[i] = toSim(&v.Array[i])
		}
		return resp.Value{Kind: '*', Arr: out}
	}
	return resp.Value{Kind: byte(v.Type)}
}

// fromSim converts the independent representation into a repository RespValue.
func fromSim(v resp.Value) *RespValue {
	switch v.Kind {
	case '+':
		return &RespValue{Type: SimpleString, Text: v.Str}
	case '-':
		return &RespValue{Type: Error, Text: v.Str}
	case ':':
		return &RespValue{Type: Integer, Int: v.Int}
	case '$':
		if v.Null {
			return &RespValue{Type: BulkString}
		}
		t := v.Str
		if t == nil {
			t = []byte{}
		}
		return &RespValue{Type: BulkString, Text: t}
	case '*':
		if v.Null {
			return &RespValue{Type: Array}
		}
		arr := make([]RespValue, len(v.Arr))
		for i := range v.Arr {
			arr[i] = *fromSim(v.Arr[i])
		}
		return &RespValue{Type: Array, Array: arr}
	}
	return nil
}
