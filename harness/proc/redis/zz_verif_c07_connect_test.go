//go:build go1.21

package redis

import (
	"fmt"
	"strings"

	"github.com/samaritan-proxy/samaritan/verifrt/sched"
	"github.com/samaritan-proxy/samaritan/verifrt/sim/cluster"
	"github.com/samaritan-proxy/samaritan/verifrt/sim/resp"
	"github.com/samaritan-proxy/samaritan/verifrt/vnet"
	"github.com/samaritan-proxy/samaritan/verifrt/vrand"
)

// ---------------------------------------------------------------------------
// C07 (S) a backend that is restarting: the connection of a node is lost and the next connect is accepted and
// closed / reset at once, or refused, or takes its time while a second request for the node arrives; afterwards
// the node is reachable again.
//
// alphabet  loss by FIN | RST ; the next connect: accepted then reset | refused | slow ; one or two requests
//           while that happens
// bound     all schedules P2 F2 (quick) / P2 F3 (thorough) of the phase in which the node comes back (set-up and the
//           final requests follow the default schedule: sched.SetQuiet)
// oracle    once the node accepts connections again (and nothing else happens), every later request for it gets
//           the node's reply over a new connection
// ---------------------------------------------------------------------------

func c07connectLostBody(quick bool) {
	vrand.Fair()
	sched.SetQuiet(true) // the set-up follows the default schedule; schedules are explored while the node comes back
	loss := sched.Choose(sched.ClsInput, 2, "loss")
	next := []string{"reset-after-accept", "refused", "slow"}[sched.Choose(sched.ClsInput, 3, "next connect")]
	two := !quick && sched.Choose(sched.ClsInput, 2, "requests") == 1 // (thorough tier only)
	cl := cluster.New(2, 0, 2)
	s := vfStartStack(cl, vfSvcConfig(0, nil, 0))
	c := s.NewClient("c0")
	c2 := s.NewClient("c1")
	n0 := cl.Masters()[0]
	k := cl.KeyInGroup("k", 0, 0)
	if v, err := c.Do("SET", k, "1"); err != nil || v.Kind == '-' {
		sched.Fail("error-reply-although-backend-reachable / no fault before", fmt.Sprintf("SET: %s %v", v, err))
		return
	}
	sched.WaitQuiescent()
	if loss == 0 {
		n0.CloseConns()
	} else {
		n0.ResetConns()
	}
	sched.WaitQuiescent()
	refused := false
	switch next {
	case "reset-after-accept":
		n0.ResetNextConn = true
	case "refused":
		vnet.SetDialHook(func(addr string) error {
			if addr == n0.Addr && !refused {
				refused = true
				return vnet.ErrRefused
			}
			return nil
		})
	case "slow":
		vnet.HoldDials(true, n0.Addr)
	}
	// requests while the node is coming back (errors are fine here)
	sched.SetQuiet(false)
	c.Send(resp.Encode(resp.Cmd("GET", k)))
	if two {
		c2.Send(resp.Encode(resp.Cmd("GET", k)))
	}
	sched.WaitQuiescent()
	if next == "slow" {
		vnet.HoldDials(false)
		sched.WaitQuiescent()
	}
	c.Read()
	if two {
		c2.Read()
	}
	vnet.SetDialHook(nil)
	sched.WaitQuiescent()
	sched.SetQuiet(true)
	// the node is up and nothing else happens: it must be served again
	for i := 0; i < 2; i++ {
		v, err := c.Do("GET", k)
		if err != nil || !resp.Equal(v, resp.BulkS("1")) {
			sched.Fail("error-reply-although-backend-reachable / after a connect that was "+next, fmt.Sprintf("GET %d after the node came back: %s %v", i+1, v, err))
			return
		}
	}
	sched.SetOutcome(fmt.Sprintf("loss=%d next=%s two=%v", loss, next, two))
}

func init() {
	sched.Register(&sched.Scenario{Name: "C07/connect-lost", Setup: func(tier string) (sched.Config, func()) {
		b := sched.Bounds{P: 2, F: 2}
		if tier == "thorough" {
			b = sched.Bounds{P: 2, F: 3}
		}
		return sched.Config{Bounds: b, Iterative: true, MaxSteps: 100000}, func() { c07connectLostBody(tier != "thorough") }
	}})
}

// ---------------------------------------------------------------------------
// C07 (H) the proxy starts before its cluster: some or all seed nodes refuse connections (or do not answer the
// connect at all) while the proxy starts and makes its first refresh attempts; then they come up.
//
// alphabet  down at start: both nodes | node 0 | node 1 ; connects refused | timing out ; 0-2 refresh attempts
//           (requests that trigger one) while down ; both rotations of the refresh's host pick
// oracle    once the nodes accept connections and a periodic refresh has run, every key is served by its owner
// ---------------------------------------------------------------------------

func c07coldStartBody() {
	vrand.Fair()
	if sched.Choose(sched.ClsInput, 2, "rotation of the random host picks") == 1 {
		vrand.Intn(2)
	}
	which := sched.Choose(sched.ClsInput, 3, "down at start")
	timeout := sched.Choose(sched.ClsInput, 2, "connects time out") == 1
	attempts := sched.Choose(sched.ClsInput, 3, "requests while down")
	cl := cluster.New(2, 0, 2)
	cl.Start()
	down := map[string]bool{}
	for i, n := range cl.Nodes {
		if which == 0 || which == i+1 {
			down[n.Addr] = true
			if !timeout {
				n.Stop()
			}
		}
	}
	blackhole := timeout
	vnet.SetDialHook(func(addr string) error {
		if blackhole && down[addr] {
			return vnet.ErrDialTimeout
		}
		return nil
	})
	s := &vfStack{cl: cl, p: vfNewProc(vfSvcConfig(0, nil, 0), cl.Nodes[0].Addr, cl.Nodes[1].Addr), ref: cluster.NewStore()}
	sched.GoNamed("upstream.Serve", s.p.u.Serve)
	sched.WaitQuiescent()
	c := s.NewClient("c0")
	keys := []string{cl.KeyInGroup("k", 0, 0), cl.KeyInGroup("k", 1, 0)}
	for i := 0; i < attempts; i++ {
		c.Do("GET", keys[i%2]) // may fail: the owner (or every node) is unreachable
		sched.WaitQuiescent()
		sched.AdvanceTime(int64(slotsRefMinRate) + 1)
		sched.WaitQuiescent()
	}
	// the cluster is up now
	blackhole = false
	for _, n := range cl.Nodes {
		if n.Down {
			n.Up()
		}
	}
	sched.WaitQuiescent()
	sched.AdvanceTime(int64(slotsRefFreq) + 1)
	sched.WaitQuiescent()
	s.RefreshRound()
	s.RefreshRound()
	for round := 0; round < 2; round++ {
		for _, k := range keys {
			for _, args := range [][]string{{"SET", k, "v"}, {"GET", k}} {
				v, err := c.Do(args...)
				sched.WaitQuiescent()
				want := refExec(s.ref, args)
				if err != nil || !resp.Equal(v, want) {
					how := "refused"
					if timeout {
						how = "timed out"
					}
					sched.Fail("error-reply-although-backend-reachable / after a start with unreachable seed nodes", fmt.Sprintf("nodes down at start: %v (connects %s), %d requests meanwhile; after they came up and a periodic refresh ran, %v is answered %s (%v), expected %s", down, how, attempts, args, v, err, want))
					return
				}
			}
		}
	}
	sched.SetOutcome(fmt.Sprintf("down=%d timeout=%v attempts=%d", which, timeout, attempts))
}

func init() {
	sched.Register(&sched.Scenario{Name: "C07/cold-start", Setup: func(tier string) (sched.Config, func()) {
		return sched.Config{Bounds: sched.Bounds{}, Iterative: true, MaxSteps: 400000}, c07coldStartBody
	}})
}

// ---------------------------------------------------------------------------
// C04 (H) a node reports the cluster down for a moment (failover in progress) while a client pipelines commands
// that do not commute: what the client was told must be what happened, in the order it asked.
//
// alphabet  pipelines of 2-3 commands on one key (SET v1 / SET v2 / INCR-like APPEND / GET) ; the k-th command of
//           the pipeline is refused with -CLUSTERDOWN by the node (k = 1..len), not executed
// oracle    every command gets one reply in order; a refused command is answered with an error or - if the proxy
//           chooses to repeat it - must take effect at its place in the order: afterwards the key holds what a
//           single server would hold after executing exactly the acknowledged commands in request order
// ---------------------------------------------------------------------------

func c04clusterDownPipelineBody() {
	vrand.Fair()
	cl := cluster.New(2, 0, 2)
	s := vfStartStack(cl, vfSvcConfig(0, nil, 0))
	c := s.NewClient("c0")
	k := cl.KeyInGroup("k", 0, 0)
	m0 := cl.Masters()[0]
	pipelines := [][][]string{
		{{"SET", k, "1"}, {"SET", k, "2"}},
		{{"SET", k, "1"}, {"APPEND", k, "x"}},
		{{"SET", k, "1"}, {"SET", k, "2"}, {"GET", k}},
		{{"APPEND", k, "a"}, {"APPEND", k, "b"}, {"APPEND", k, "c"}},
	}
	pl := pipelines[sched.Choose(sched.ClsInput, len(pipelines), "pipeline")]
	at := sched.Choose(sched.ClsInput, len(pl), "refused command")
	c.Do("SET", k, "0")
	refExec(s.ref, []string{"SET", k, "0"})
	sched.WaitQuiescent()
	// the node refuses the at-th command of the pipeline (counting commands of that name)
	name := strings.ToLower(pl[at][0])
	nth := 0
	for i := 0; i < at; i++ {
		if strings.ToLower(pl[i][0]) == name {
			nth++
		}
	}
	var raw []byte
	for _, args := range pl {
		raw = append(raw, resp.Encode(resp.Cmd(args...))...)
	}
	if nth == 0 {
		m0.RefuseOnce = map[string][]byte{name: []byte("-CLUSTERDOWN The cluster is down\r\n")}
	}
	c.Send(raw)
	sched.WaitQuiescent()
	if nth > 0 {
		// (only the first command of a name can be refused with this model; other positions are skipped)
		sched.SetOutcome("skipped")
		return
	}
	rs, _ := c.Pending()
	if len(rs) != len(pl) {
		sched.Fail("not-one-reply-per-request / pipeline with a refused command", fmt.Sprintf("%v: %d replies", pl, len(rs)))
		return
	}
	for i, args := range pl {
		if rs[i].Kind == '-' {
			continue // refused: not executed, as far as the client knows
		}
		want := refExec(s.ref, args)
		if !resp.Equal(rs[i], want) {
			sched.Fail("reply-differs-from-single-server / pipeline with a command refused by CLUSTERDOWN", fmt.Sprintf("%v with command %d refused: reply %d is %s, executing the acknowledged commands in order gives %s", pl, at, i, rs[i], want))
			return
		}
	}
	sched.WaitQuiescent()
	s.RefreshRound()
	got, err := c.Do("GET", k)
	want := refExec(s.ref, []string{"GET", k})
	if err != nil || !resp.Equal(got, want) {
		sched.Fail("acknowledged-write-lost-or-reordered / pipeline with a command refused by CLUSTERDOWN", fmt.Sprintf("%v with command %d refused (replies %v): the key holds %s, executing the acknowledged commands in request order gives %s", pl, at, rs, got, want))
	}
	sched.SetOutcome(fmt.Sprintf("%d/%d", len(pl), at))
}

func init() {
	sched.Register(&sched.Scenario{Name: "C04/clusterdown-pipeline", Setup: func(tier string) (sched.Config, func()) {
		b := sched.Bounds{}
		if tier == "thorough" {
			b = sched.Bounds{P: 1, F: 1}
		}
		return sched.Config{Bounds: b, Iterative: true, MaxSteps: 400000}, c04clusterDownPipelineBody
	}})
}

// ---------------------------------------------------------------------------
// C07 (H) a request that has to be redirected twice: the routing table is two layout changes behind (a refresh
// has just run, the next one waits for the minimum interval).
//
// history   three masters; group 0 moves m0 -> m1 -> m2 | moves m0 -> m1 and is being migrated m1 -> m2 with the key
//           already at m2 | the same with the key still at m1; then GET / SET / INCR on a key of the group, twice, then a
//           refresh round and the same again
// oracle    every reply is the single-server reply: no MOVED / ASK or other error reaches the client while every
//           node is reachable
// ---------------------------------------------------------------------------

func c07twoHopsBody() {
	vrand.Fair()
	if sched.Choose(sched.ClsInput, 2, "rotation of the random host picks") == 1 {
		vrand.Intn(2)
	}
	hist := []string{"moved-twice", "moved-then-migrating-key-at-target", "moved-then-migrating-key-at-source"}[sched.Choose(sched.ClsInput, 3, "history")]
	cmd := [][]string{{"GET"}, {"SET", "v2"}, {"INCR"}}[sched.Choose(sched.ClsInput, 3, "command")]
	cl := cluster.New(3, 0, 3)
	m1, m2 := cl.Masters()[1], cl.Masters()[2]
	s := vfStartStack(cl, vfSvcConfig(0, nil, 0))
	c := s.NewClient("c0")
	key := cl.KeyInGroup("k", 0, 0)
	do := func(args ...string) bool {
		v, err := c.Do(args...)
		sched.WaitQuiescent()
		want := refExec(s.ref, args)
		if err != nil || !resp.Equal(v, want) {
			sched.Fail("error-reply-although-backend-reachable / request redirected twice", fmt.Sprintf("%s, %v: proxy replied %s (%v), a single server replies %s", hist, args, v, err, want))
			return false
		}
		return true
	}
	if !do("SET", key, "7") {
		return
	}
	// a refresh has just completed: the next one waits for the minimum interval
	s.p.u.triggerSlotsRefresh()
	sched.WaitQuiescent()
	cl.MoveGroup(0, m1)
	switch hist {
	case "moved-twice":
		cl.MoveGroup(0, m2)
	case "moved-then-migrating-key-at-target":
		cl.SetMigrating(0, m2)
		cl.MigrateKey(key)
	case "moved-then-migrating-key-at-source":
		cl.SetMigrating(0, m2)
	}
	args := append([]string{cmd[0], key}, cmd[1:]...)
	for round := 0; round < 2; round++ {
		if !do(args...) || !do(args...) {
			return
		}
		s.RefreshRound()
	}
	sched.SetOutcome(hist)
}

func init() {
	sched.Register(&sched.Scenario{Name: "C07/two-hops", Setup: func(tier string) (sched.Config, func()) {
		b := sched.Bounds{}
		if tier == "thorough" {
			b = sched.Bounds{P: 1, F: 1}
		}
		return sched.Config{Bounds: b, Iterative: true, MaxSteps: 400000}, c07twoHopsBody
	}})
}
