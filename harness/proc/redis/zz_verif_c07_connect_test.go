//go:build go1.21

package redis

import (
	"fmt"

	"github.com/samaritan-proxy/samaritan/verifrt/sched"
	"github.com/samaritan-proxy/samaritan/verifrt/sim/cluster"
	"github.com/samaritan-proxy/samaritan/verifrt/sim/resp"
	"github.com/samaritan-proxy/samaritan/verifrt/vnet"
	"github.com/samaritan-proxy/samaritan/verifrt/vrand"
)

// ---------------------------------------------------------------------------
// C07 (S) a backend that is restarting: the connection of a node is lost and the next connect is accepted and
// closed / reset at once, or refused, or takes its time while a second request for the node arrives; afterwards
// the node is reachable again.
//
// alphabet  loss by FIN | RST ; the next connect: accepted then reset | refused | slow ; one or two requests
//           while that happens
// bound     all schedules P2 F2 (quick) / P2 F3 (thorough) of the phase in which the node comes back (set-up and the
//           final requests follow the default schedule: sched.SetQuiet)
// oracle    once the node accepts connections again (and nothing else happens), every later request for it gets
//           the node's reply over a new connection
// ---------------------------------------------------------------------------

func c07connectLostBody(quick bool) {
	vrand.Fair()
	sched.SetQuiet(true) // the set-up follows the default schedule; schedules are explored while the node comes back
	loss := sched.Choose(sched.ClsInput, 2, "loss")
	next := []string{"reset-after-accept", "refused", "slow"}[sched.Choose(sched.ClsInput, 3, "next connect")]
	two := !quick && sched.Choose(sched.ClsInput, 2, "requests") == 1 // (thorough tier only)
	cl := cluster.New(2, 0, 2)
	s := vfStartStack(cl, vfSvcConfig(0, nil, 0))
	c := s.NewClient("c0")
	c2 := s.NewClient("c1")
	n0 := cl.Masters()[0]
	k := cl.KeyInGroup("k", 0, 0)
	if v, err := c.Do("SET", k, "1"); err != nil || v.Kind == '-' {
		sched.Fail("error-reply-although-backend-reachable / no fault before", fmt.Sprintf("SET: %s %v", v, err))
		return
	}
	sched.WaitQuiescent()
	if loss == 0 {
		n0.CloseConns()
	} else {
		n0.ResetConns()
	}
	sched.WaitQuiescent()
	refused := false
	switch next {
	case "reset-after-accept":
		n0.ResetNextConn = true
	case "refused":
		vnet.SetDialHook(func(addr string) error {
			if addr == n0.Addr && !refused {
				refused = true
				return vnet.ErrRefused
			}
			return nil
		})
	case "slow":
		vnet.HoldDials(true, n0.Addr)
	}
	// requests while the node is coming back (errors are fine here)
	sched.SetQuiet(false)
	c.Send(resp.Encode(resp.Cmd("GET", k)))
	if two {
		c2.Send(resp.Encode(resp.Cmd("GET", k)))
	}
	sched.WaitQuiescent()
	if next == "slow" {
		vnet.HoldDials(false)
		sched.WaitQuiescent()
	}
	c.Read()
	if two {
		c2.Read()
	}
	vnet.SetDialHook(nil)
	sched.WaitQuiescent()
	sched.SetQuiet(true)
	// the node is up and nothing else happens: it must be served again
	for i := 0; i < 2; i++ {
		v, err := c.Do("GET", k)
		if err != nil || !resp.Equal(v, resp.BulkS("1")) {
			sched.Fail("error-reply-although-backend-reachable / after a connect that was "+next, fmt.Sprintf("GET %d after the node came back: %s %v", i+1, v, err))
			return
		}
	}
	sched.SetOutcome(fmt.Sprintf("loss=%d next=%s two=%v", loss, next, two))
}

func init() {
	sched.Register(&sched.Scenario{Name: "C07/connect-lost", Setup: func(tier string) (sched.Config, func()) {
		b := sched.Bounds{P: 2, F: 2}
		if tier == "thorough" {
			b = sched.Bounds{P: 2, F: 3}
		}
		return sched.Config{Bounds: b, Iterative: true, MaxSteps: 100000}, func() { c07connectLostBody(tier != "thorough") }
	}})
}
