//go:build go1.21

package redis

import (
	"fmt"
	"io"
	"strings"
	"time"

	"github.com/samaritan-proxy/samaritan/host"
	"github.com/samaritan-proxy/samaritan/pb/common"
	"github.com/samaritan-proxy/samaritan/pb/config/protocol"
	pbredis "github.com/samaritan-proxy/samaritan/pb/config/protocol/redis"
	"github.com/samaritan-proxy/samaritan/pb/config/service"
	"github.com/samaritan-proxy/samaritan/proc"
	"github.com/samaritan-proxy/samaritan/proc/internal/log"
	"github.com/samaritan-proxy/samaritan/stats"
	"github.com/samaritan-proxy/samaritan/verifrt/sched"
	"github.com/samaritan-proxy/samaritan/verifrt/sim/cluster"
	"github.com/samaritan-proxy/samaritan/verifrt/sim/resp"
	"github.com/samaritan-proxy/samaritan/verifrt/vnet"
)

// ---------------------------------------------------------------------------
// redis-stack: the real redisProc (sessions, upstream, backend clients) over the
// virtual network against the mini Redis Cluster.
// ---------------------------------------------------------------------------

type vfStack struct {
	cl  *cluster.Cluster
	p   *redisProc
	ref *cluster.Store // single server holding all data
}

func vfSvcConfig(strategy pbredis.ReadStrategy, cps *pbredis.Compression, connLimit uint32) *service.Config {
	opt := &protocol.RedisOption{ReadStrategy: strategy, Compression: cps}
	return &service.Config{
		Listener:        &service.Listener{Address: &common.Address{Ip: "127.0.0.1", Port: 6400}, ConnectionLimit: connLimit},
		ConnectTimeout:  vfDur(time.Second),
		IdleTimeout:     vfDur(10 * time.Minute),
		Protocol:        protocol.Redis,
		ProtocolOptions: &service.Config_RedisOption{RedisOption: opt},
	}
}

var vfProcStats = proc.NewStats(stats.CreateScope("service.verif"))

// vfNewProc builds the real processor with the given seed hosts (nothing is started).
func vfNewProc(cfg *service.Config, seeds ...string) *redisProc {
	hs := make([]*host.Host, len(seeds))
	for i, a := range seeds {
		hs[i] = host.New(a)
	}
	p, err := newRedisProc("verif", cfg, hs, vfProcStats, log.New("[verif]"))
	if err != nil {
		panic(err)
	}
	return p
}

// vfStartStack starts the cluster and the proxy's upstream and lets the initial slot refresh finish.
func vfStartStack(cl *cluster.Cluster, cfg *service.Config, seeds ...string) *vfStack {
	cl.Start()
	if len(seeds) == 0 {
		for _, n := range cl.Nodes {
			seeds = append(seeds, n.Addr)
		}
	}
	s := &vfStack{cl: cl, p: vfNewProc(cfg, seeds...), ref: cluster.NewStore()}
	sched.GoNamed("upstream.Serve", s.p.u.Serve)
	sched.WaitQuiescent()
	s.RefreshRound()
	return s
}

// RefreshRound lets the slot-refresh loop pass its minimum-rate pause (virtual 5 s) and settles.
func (s *vfStack) RefreshRound() {
	sched.AdvanceTime(int64(slotsRefMinRate) + 1)
	sched.WaitQuiescent()
}

type vfClient struct {
	name string
	c    *vnet.VConn
	buf  []byte
}

// NewClient opens a downstream connection served by the real session code.
func (s *vfStack) NewClient(name string) *vfClient {
	a, b := vnet.Pipe()
	a.Label, b.Label = "client-"+name, "session-"+name
	sched.GoNamed("session-"+name, func() { s.p.handleConn(b) })
	return &vfClient{name: name, c: a}
}

func (c *vfClient) Send(raw []byte) error {
	_, err := c.c.Write(raw)
	return err
}

// Read returns the next reply (blocking through the scheduler).
func (c *vfClient) Read() (resp.Value, error) {
	tmp := make([]byte, 1<<16)
	for {
		v, n, err := resp.Decode(c.buf)
		if err == nil {
			c.buf = c.buf[n:]
			return v, nil
		}
		if err != resp.ErrIncomplete {
			return v, err
		}
		m, rerr := c.c.Read(tmp)
		if rerr != nil {
			return v, rerr
		}
		c.buf = append(c.buf, tmp[:m]...)
	}
}

// Do sends one command and waits for its reply.
func (c *vfClient) Do(args ...string) (resp.Value, error) {
	if err := c.Send(resp.Encode(resp.Cmd(args...))); err != nil {
		return resp.Value{}, err
	}
	return c.Read()
}

func (c *vfClient) Close() { c.c.Close() }

// Pending drains whatever is readable without blocking and reports (replies, eof).
func (c *vfClient) Pending() ([]resp.Value, bool) {
	eof := false
	for c.c.Buffered() > 0 || c.c.PeerFinished() {
		tmp := make([]byte, 1<<16)
		m, err := c.c.Read(tmp)
		if err != nil {
			eof = err == io.EOF || strings.Contains(err.Error(), "reset") || strings.Contains(err.Error(), "closed")
			break
		}
		c.buf = append(c.buf, tmp[:m]...)
	}
	vs, rest, _ := resp.DecodeAll(c.buf)
	c.buf = rest
	return vs, eof
}

// refExec applies a command to the single-server reference with the per-key definitions of the
// multi-key commands (MGET/MSET/DEL/EXISTS/TOUCH/UNLINK).
func refExec(ref *cluster.Store, args []string) resp.Value {
	b := func(ss ...string) [][]byte {
		out := make([][]byte, len(ss))
		for i, s := range ss {
			out[i] = []byte(s)
		}
		return out
	}
	switch strings.ToLower(args[0]) {
	case "mget":
		out := make([]resp.Value, 0, len(args)-1)
		for _, k := range args[1:] {
			out = append(out, ref.Exec(b("get", k)))
		}
		return resp.Array(out...)
	case "mset":
		for i := 1; i+1 < len(args); i += 2 {
			ref.Exec(b("set", args[i], args[i+1]))
		}
		return resp.Simple("OK")
	case "del", "exists", "touch", "unlink":
		total := int64(0)
		for _, k := range args[1:] {
			total += ref.Exec(b(args[0], k)).Int
		}
		return resp.Int(total)
	}
	return ref.Exec(b(args...))
}

func vfFmtCmd(args []string) string {
	s := strings.Join(args, " ")
	if len(s) > 50 {
		s = s[:50] + fmt.Sprintf("...(%d)", len(s))
	}
	return s
}
