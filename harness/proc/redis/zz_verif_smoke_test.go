//go:build go1.21

package redis

import (
	"fmt"

	"github.com/samaritan-proxy/samaritan/verifrt/sched"
	"github.com/samaritan-proxy/samaritan/verifrt/sim/cluster"
)

func smokeBody() {
	cl := cluster.New(2, 1, 4)
	s := vfStartStack(cl, vfSvcConfig(0, nil, 0))
	c := s.NewClient("c1")
	out := ""
	for _, cmd := range [][]string{{"set", "a", "1"}, {"get", "a"}, {"set", "b", "2"}, {"mget", "a", "b", "zz"}, {"del", "a", "b"}, {"ping"}, {"nosuch"}} {
		v, err := c.Do(cmd...)
		out += fmt.Sprintf("%v=%s,%v; ", cmd, v, err)
	}
	out += fmt.Sprintf(" redirects=%d cmds=%d", cl.Redirects(0), len(cl.Log))
	sched.SetOutcome(out)
}

func init() {
	sched.Register(&sched.Scenario{Name: "smoke", Setup: func(tier string) (sched.Config, func()) {
		return sched.Config{Bounds: sched.Bounds{}}, smokeBody
	}})
}

func init() {
	sched.Register(&sched.Scenario{Name: "smokeloop", Custom: func(env sched.Env) *sched.Report {
		rep := &sched.Report{Outcomes: map[string]int64{}, Complete: true}
		for i := 0; i < 3000; i++ {
			e := sched.RunOnce(nil, sched.Options{}, smokeBody)
			rep.Execs++
			sched.Progress(nil)
			rep.Outcomes[e.Outcome]++
		}
		return rep
	}})
}
