//go:build go1.21

package redis

import (
	"encoding/json"
	"fmt"
	"strings"

	pbredis "github.com/samaritan-proxy/samaritan/pb/config/protocol/redis"
	"github.com/samaritan-proxy/samaritan/verifrt/sched"
	"github.com/samaritan-proxy/samaritan/verifrt/sim/cluster"
	"github.com/samaritan-proxy/samaritan/verifrt/sim/resp"
)

// ---------------------------------------------------------------------------
// C03 (I) long sessions: the decoders, filters and queues of a connection live as long as the connection.
// One or two client connections issue a long run of one reply shape (empty array, nil, empty string, integer,
// status, nested array ...) and then a mixed tail; with and without transparent compression (whose
// configuration is one of the "configurations" C03 quantifies over; only commands whose reply does not
// depend on the stored length are used there).
// oracle    every reply equals the single-server reference, no redirection
// ---------------------------------------------------------------------------

type c03long struct {
	Family   string `json:"family"`
	N        int    `json:"repetitions"`
	TwoConn  bool   `json:"two_connections"`
	Compress bool   `json:"compression"`
}

var c03longFamilies = []string{"empty-lrange", "empty-smembers", "empty-hgetall", "empty-hkeys", "empty-zrange", "nil-get", "nil-mget", "empty-string", "nested-eval", "zero-int", "status", "getset-chain", "hash-chain"}

func c03longProgram(cs c03long) [][]string {
	big := func(c string) string { return strings.Repeat(c, 600) }
	var rep []string
	switch cs.Family {
	case "empty-lrange":
		rep = []string{"LRANGE", "missing", "0", "-1"}
	case "empty-smembers":
		rep = []string{"SMEMBERS", "missing"}
	case "empty-hgetall":
		rep = []string{"HGETALL", "missing"}
	case "empty-hkeys":
		rep = []string{"HKEYS", "missing"}
	case "empty-zrange":
		rep = []string{"ZRANGE", "missing", "0", "-1"}
	case "nil-get":
		rep = []string{"GET", "missing"}
	case "nil-mget":
		rep = []string{"MGET", "missing", "other-missing"}
	case "empty-string":
		rep = []string{"GET", "empty"}
	case "nested-eval":
		rep = []string{"EVAL", "return {{},{{}},{}}", "1", "missing"}
	case "zero-int":
		rep = []string{"EXISTS", "missing", "other-missing"}
	case "status":
		rep = []string{"SET", "k", big("s")}
	case "getset-chain":
		rep = []string{"GETSET", "k", big("g")}
	case "hash-chain":
		rep = []string{"HSET", "h", "f", big("h")}
	}
	prog := [][]string{{"SET", "empty", ""}, {"SET", "k", big("a")}, {"HSET", "h", "f", big("b")}}
	for i := 0; i < cs.N; i++ {
		prog = append(prog, rep)
	}
	tail := [][]string{
		{"RPUSH", "l", "a", "b"}, {"LRANGE", "l", "0", "-1"}, {"LRANGE", "missing", "0", "-1"}, {"SADD", "s", "m"}, {"SMEMBERS", "s"},
		{"HGETALL", "h"}, {"HGET", "h", "f"}, {"MGET", "k", "missing", "empty"}, {"GET", "k"}, {"GETSET", "k", big("z")}, {"GET", "k"},
		{"SETNX", "k", "no"}, {"GET", "k"}, {"MSET", "k", big("m"), "k2", big("n")}, {"MGET", "k2", "k"}, {"EXISTS", "k", "k2", "missing"},
		{"HMSET", "h2", "f1", big("p"), "f2", big("q"), "f3", "small"}, {"HMGET", "h2", "f1", "f2", "f3"}, {"HGETALL", "h2"},
		{"EVAL", "return {{},{{}},{}}", "1", "missing"}, {"DEL", "k", "k2", "l", "s", "h"}, {"HGETALL", "h"},
	}
	prog = append(prog, tail...)
	if cs.Compress { // EVAL is rejected by the proxy while compression is on (C13), so it is not part of these programs
		out := prog[:0]
		for _, a := range prog {
			if a[0] != "EVAL" {
				out = append(out, a)
			}
		}
		prog = out
	}
	return prog
}

func c03longRun(cs c03long) (sig, detail string) {
	prog := c03longProgram(cs)
	body := func() {
		cl := cluster.New(3, 0, 3)
		var cps *pbredis.Compression
		if cs.Compress {
			cps = c13cps(true, 8)
		}
		s := vfStartStack(cl, vfSvcConfig(0, cps, 0))
		cs0 := s.NewClient("c0")
		cs1 := cs0
		if cs.TwoConn {
			cs1 = s.NewClient("c1")
		}
		for i, args := range prog {
			c := cs0
			if i%2 == 1 {
				c = cs1
			}
			mark := len(cl.Log)
			got, err := c.Do(args...)
			if err != nil {
				sig, detail = "connection-failed / "+strings.ToLower(args[0]), fmt.Sprintf("step %d of %d: %v", i, len(prog), err)
				return
			}
			want := refExec(s.ref, args)
			if !resp.Equal(got, want) {
				sig = "reply-differs-from-single-server / " + strings.ToLower(args[0]) + " late in a session"
				g, w := got.String(), want.String()
				if len(g) > 200 {
					g = g[:200] + "..."
				}
				if len(w) > 200 {
					w = w[:200] + "..."
				}
				detail = fmt.Sprintf("step %d of %d, %s: proxy replied %s, a single server replies %s", i, len(prog), vfFmtCmd(args), g, w)
				return
			}
			if r := cl.Redirects(mark); r != 0 {
				sig, detail = "redirected-on-stable-cluster / "+strings.ToLower(args[0]), fmt.Sprintf("step %d", i)
				return
			}
		}
	}
	e := sched.RunOnce(nil, sched.Options{MaxSteps: 4000000}, body)
	for _, f := range e.Failures {
		sig, detail = f.Sig, f.Detail
	}
	if sig == "" && e.EndWhy != "main-returned" {
		sig = "execution-ended-" + e.EndWhy
	}
	return
}

func c03longSessions(env sched.Env) *sched.Report {
	rep := &sched.Report{Outcomes: map[string]int64{}, Complete: true}
	ns := []int{1, 127, 130}
	if env.Tier == "thorough" {
		ns = []int{1, 127, 128, 129, 130, 257, 520}
	}
	sigs := map[string]bool{}
	i := 0
	for _, fam := range c03longFamilies {
		for _, n := range ns {
			for _, two := range []bool{false, true} {
				for _, cps := range []bool{false, true} {
					i++
					if i%env.NShards != env.Shard {
						continue
					}
					if sched.PastDeadline(env.Deadline) {
						rep.Complete = false
						return rep
					}
					cs := c03long{fam, n, two, cps}
					sched.Progress(cs)
					sig, detail := c03longRun(cs)
					rep.Execs++
					sched.Progress(nil)
					rep.Transitions += int64(len(c03longProgram(cs)))
					if sig != "" {
						rep.Outcomes["violation: "+sig]++
						if !sigs[sig] {
							sigs[sig] = true
							rep.Violations = append(rep.Violations, sched.CustomViolation("C03/long-sessions", sig, fmt.Sprintf("%+v: %s", cs, detail), cs))
						}
					} else {
						rep.Outcomes["ok"]++
					}
				}
			}
		}
	}
	rep.States, rep.Distinct = rep.Execs, rep.Execs
	rep.CustomSamples = []interface{}{c03long{"empty-lrange", 130, true, false}}
	return rep
}

func init() {
	sched.Register(&sched.Scenario{Name: "C03/long-sessions", Custom: c03longSessions, ReplayCustom: func(in json.RawMessage) []sched.Failure {
		var cs c03long
		json.Unmarshal(in, &cs)
		if sig, detail := c03longRun(cs); sig != "" {
			return []sched.Failure{{Sig: sig, Detail: detail}}
		}
		return nil
	}})
}

// ---------------------------------------------------------------------------
// C03 (I) multi-key commands with many keys and a repeated key: "MGET, MSET, DEL, EXISTS, TOUCH and UNLINK are
// defined as their per-key commands combined in argument order".
//
// alphabet  MSET of n pairs, n in {2,3,5,8,12,13,14,17,24,33,40} (quick: up to 17), over keys spread over 3 nodes,
//           with one key given twice (every pair of positions i<j, different values), followed by MGET of all keys
//           (+ the repeated key), EXISTS and DEL with the repeated key
// oracle    every reply equals the single-server reference (the repeated key holds the later value), no redirection
// ---------------------------------------------------------------------------

type c03multi struct {
	N    int `json:"pairs"`
	I, J int `json:"i"`
}

func c03multiRun(cs c03multi) (sig, detail string) {
	body := func() {
		cl := cluster.New(3, 0, 3)
		s := vfStartStack(cl, vfSvcConfig(0, nil, 0))
		c := s.NewClient("c0")
		mset := []string{"MSET"}
		var keys []string
		for p := 0; p < cs.N; p++ {
			k := fmt.Sprintf("key:%d", p)
			if p == cs.I || p == cs.J {
				k = "twice"
			}
			keys = append(keys, k)
			mset = append(mset, k, fmt.Sprintf("value-%d", p))
		}
		prog := [][]string{mset, append([]string{"MGET"}, keys...), {"GET", "twice"}, append([]string{"EXISTS"}, keys...),
			append([]string{"TOUCH"}, keys...), append([]string{"DEL"}, keys...), append([]string{"MGET"}, keys...)}
		for i, args := range prog {
			mark := len(cl.Log)
			got, err := c.Do(args...)
			if err != nil {
				sig, detail = "connection-failed / "+strings.ToLower(args[0]), fmt.Sprintf("step %d: %v", i, err)
				return
			}
			want := refExec(s.ref, args)
			if !resp.Equal(got, want) {
				sig = "reply-differs-from-single-server / " + strings.ToLower(args[0]) + " after an MSET that names a key twice"
				detail = fmt.Sprintf("MSET of %d pairs with the same key at positions %d and %d, then %s: proxy replied %s, a single server replies %s", cs.N, cs.I, cs.J, args[0], got, want)
				return
			}
			if r := cl.Redirects(mark); r != 0 {
				sig, detail = "redirected-on-stable-cluster / "+strings.ToLower(args[0]), fmt.Sprintf("step %d", i)
				return
			}
		}
	}
	e := sched.RunOnce(nil, sched.Options{MaxSteps: 4000000}, body)
	for _, f := range e.Failures {
		sig, detail = f.Sig, f.Detail
	}
	if sig == "" && e.EndWhy != "main-returned" {
		sig = "execution-ended-" + e.EndWhy
	}
	return
}

func c03multiKey(env sched.Env) *sched.Report {
	rep := &sched.Report{Outcomes: map[string]int64{}, Complete: true}
	ns := []int{2, 3, 5, 8, 12, 13, 14, 17}
	if env.Tier == "thorough" {
		ns = append(ns, 24, 33, 40)
	}
	sigs := map[string]bool{}
	n := 0
	for _, pairs := range ns {
		for i := 0; i < pairs; i++ {
			for j := i + 1; j < pairs; j++ {
				n++
				if n%env.NShards != env.Shard {
					continue
				}
				if sched.PastDeadline(env.Deadline) {
					rep.Complete = false
					return rep
				}
				cs := c03multi{pairs, i, j}
				sched.Progress(cs)
				sig, detail := c03multiRun(cs)
				rep.Execs++
				sched.Progress(nil)
				rep.Transitions += 7
				if sig != "" {
					rep.Outcomes["violation: "+sig]++
					if !sigs[sig] {
						sigs[sig] = true
						rep.Violations = append(rep.Violations, sched.CustomViolation("C03/multi-key", sig, detail, cs))
					}
				} else {
					rep.Outcomes["ok"]++
				}
			}
		}
	}
	rep.States, rep.Distinct = rep.Execs, rep.Execs
	rep.CustomSamples = []interface{}{c03multi{13, 0, 3}}
	return rep
}

func init() {
	sched.Register(&sched.Scenario{Name: "C03/multi-key", Custom: c03multiKey, ReplayCustom: func(in json.RawMessage) []sched.Failure {
		var cs c03multi
		json.Unmarshal(in, &cs)
		if sig, detail := c03multiRun(cs); sig != "" {
			return []sched.Failure{{Sig: sig, Detail: detail}}
		}
		return nil
	}})
}

// ---------------------------------------------------------------------------
// C19 (S) HOTKEY in a pipeline: the report is computed when the command is handled and written to the client later,
// while the following commands of the pipeline (and of another connection) are already being processed - with
// compression on, whose filter works in pooled buffers.
//
// bound     all schedules P1 F1 (quick) / P2 F1 (thorough) from the moment the pipeline is sent
// oracle    the HOTKEY reply is the report of that moment: its header count equals its lines, every line parses, no key
//           twice, non-increasing counters, only keys that were accessed
// ---------------------------------------------------------------------------

func c19hotkeyPipelinedBody() {
	sched.SetQuiet(true)
	cl := cluster.New(2, 0, 2)
	s := vfStartStack(cl, vfSvcConfig(0, c13cps(true, 8), 0))
	c := s.NewClient("c0")
	other := s.NewClient("c1")
	accessed := map[string]bool{}
	for i := 0; i < 4; i++ {
		for j := 0; j <= 2*i; j++ {
			k := fmt.Sprintf("hot:%d:%s", i, strings.Repeat("n", 10+i))
			c.Do("GET", k)
			accessed[k] = true
		}
	}
	sched.WaitQuiescent()
	sched.AdvanceTime(int64(10*1e9) + 1) // the collect ticker
	sched.WaitQuiescent()
	big := strings.Repeat("The quick brown fox. ", 40)
	sched.SetQuiet(false)
	raw := append(resp.Encode(resp.Cmd("HOTKEY")), resp.Encode(resp.Cmd("SET", "k", big))...)
	raw = append(raw, resp.Encode(resp.Cmd("HOTKEY"))...)
	c.Send(raw)
	other.Send(resp.Encode(resp.Cmd("SET", "k2", strings.Repeat("Z", 500))))
	sched.WaitQuiescent()
	sched.SetQuiet(true)
	rs, _ := c.Pending()
	if len(rs) != 3 {
		sched.Fail("not-one-reply-per-request / HOTKEY in a pipeline", fmt.Sprint(rs))
		return
	}
	for _, got := range []resp.Value{rs[0], rs[2]} {
		if got.Kind != '$' {
			sched.Fail("hotkey-reply-shape / in a pipeline", got.String())
			return
		}
		lines := strings.Split(strings.TrimRight(string(got.Str), "\n"), "\n")
		seen := map[string]bool{}
		last := int64(1 << 62)
		for _, l := range lines[1:] {
			var cnt int64
			var name string
			if _, err := fmt.Sscanf(l, "counter: %d  keyname: %s", &cnt, &name); err != nil {
				sched.Fail("hotkey-report-unparseable / in a pipeline", fmt.Sprintf("line %q of %q", l, got.Str))
				return
			}
			switch {
			case seen[name]:
				sched.Fail("hotkey-report-lists-key-twice / in a pipeline", string(got.Str))
				return
			case !accessed[name]:
				sched.Fail("hotkey-report-lists-key-never-accessed / in a pipeline", fmt.Sprintf("%q in %q", name, got.Str))
				return
			case cnt > last:
				sched.Fail("hotkey-report-not-ordered / in a pipeline", string(got.Str))
				return
			}
			seen[name] = true
			last = cnt
		}
		if len(lines) < 2 {
			sched.Fail("hotkey-report-empty-after-traffic / in a pipeline", string(got.Str))
			return
		}
	}
	sched.SetOutcome("ok")
}

func init() {
	sched.Register(&sched.Scenario{Name: "C19/hotkey-pipelined", Setup: func(tier string) (sched.Config, func()) {
		b := sched.Bounds{P: 1, F: 1}
		if tier == "thorough" {
			b = sched.Bounds{P: 2, F: 1}
		}
		return sched.Config{Bounds: b, Iterative: true, MaxSteps: 400000}, c19hotkeyPipelinedBody
	}})
}
