//go:build go1.21

package redis

import (
	"bytes"
	"encoding/json"
	"fmt"
	"io"
	"strings"

	gsnappy "github.com/golang/snappy"

	pbredis "github.com/samaritan-proxy/samaritan/pb/config/protocol/redis"
	"github.com/samaritan-proxy/samaritan/pb/config/service"
	"github.com/samaritan-proxy/samaritan/verifrt/sched"
	"github.com/samaritan-proxy/samaritan/verifrt/sim/cluster"
	"github.com/samaritan-proxy/samaritan/verifrt/sim/resp"
	vsync "github.com/samaritan-proxy/samaritan/verifrt/vsync"
)

// ---------------------------------------------------------------------------
// C13 (I): the real compression filter chain, write then read back.
//
// alphabet  thresholds {1,8,64,1024}; values: every string over {0,x} up to length 10, plus runs,
//           alternations and incompressible patterns at lengths {T-1,T,T+1,64,76,1024,4096};
//           k incompressible bytes + a run of m equal bytes for every k <= 8/24, m <= 64/160 (sweeps the saving
//           through the framing overhead); every supported write command with the value at every value position; the chain applied
//           k in {1,2,3} times to the same request (what a redirection does)
// oracle    value read back = value written (values not starting with the header); stored bytes are
//           read back via GET, HGET, HGETALL, GETSET; the original or header + a stream that the snappy library itself decodes to the original
//           and is strictly shorter; banned commands are stopped with an error, in every upper/lower-case spelling
// ---------------------------------------------------------------------------

func c13cps(enable bool, t uint32) *pbredis.Compression {
	return &pbredis.Compression{Enable: enable, Algorithm: pbredis.Compression_SNAPPY, Threshold: t}
}

func c13pattern(kind string, n int) []byte {
	b := make([]byte, n)
	x := uint32(12345)
	for i := range b {
		switch kind {
		case "run":
			b[i] = 'a'
		case "alt":
			b[i] = "ab"[i%2]
		case "rnd":
			x = x*1664525 + 1013904223
			b[i] = byte(x >> 24)
		case "text":
			b[i] = "the quick brown fox "[i%20]
		}
	}
	return b
}

type c13write struct {
	name string
	mk   func(key string, v []byte) []string
	pos  []int // indexes of values in the argument list
}

var c13writes = []c13write{
	{"set", func(k string, v []byte) []string { return []string{"set", k, string(v)} }, []int{2}},
	{"SETNX", func(k string, v []byte) []string { return []string{"SETNX", k, string(v)} }, []int{2}},
	{"getset", func(k string, v []byte) []string { return []string{"getset", k, string(v)} }, []int{2}},
	{"setex", func(k string, v []byte) []string { return []string{"setex", k, "100", string(v)} }, []int{3}},
	{"psetex", func(k string, v []byte) []string { return []string{"psetex", k, "100", string(v)} }, []int{3}},
	{"hset", func(k string, v []byte) []string { return []string{"hset", k, "f", string(v)} }, []int{3}},
	{"hsetnx", func(k string, v []byte) []string { return []string{"hsetnx", k, "f", string(v)} }, []int{3}},
	{"hmset", func(k string, v []byte) []string { return []string{"hmset", k, "f", string(v), "g", string(v) + "2"} }, []int{3, 5}},
	// several values of which the last one never shrinks (short / incompressible)
	{"hmset", func(k string, v []byte) []string { return []string{"hmset", k, "f", string(v), "g", "s"} }, []int{3, 5}},
	{"hmset", func(k string, v []byte) []string {
		return []string{"hmset", k, "f", string(v), "g", string(c13pattern("rnd", 40))}
	}, []int{3, 5}},
	{"hset", func(k string, v []byte) []string { return []string{"hset", k, "f", string(v), "g", "s"} }, []int{3, 5}},
}

// c13stored checks what reaches the backend for one original value.
func c13stored(orig, stored []byte) string {
	if bytes.Equal(orig, stored) {
		return ""
	}
	hdr := []byte{'(', 'P', '$', byte(pbredis.Compression_SNAPPY), '\r', '\n'}
	if !bytes.HasPrefix(stored, hdr) {
		return "stored-bytes-neither-original-nor-framed"
	}
	dec, err := io.ReadAll(gsnappy.NewReader(bytes.NewReader(stored[len(hdr):])))
	if err != nil {
		return "stored-frame-does-not-decompress"
	}
	if !bytes.Equal(dec, orig) {
		if bytes.HasPrefix(dec, hdr) {
			return "stored-frame-compressed-more-than-once"
		}
		return "stored-frame-decompresses-to-other-bytes"
	}
	if len(stored) >= len(orig) {
		return "stored-frame-not-shorter-than-original"
	}
	return ""
}

type c13fcase struct {
	T     uint32 `json:"t"`
	Cmd   int    `json:"cmd"`
	Val   []byte `json:"val"`
	Times int    `json:"times"`
}

func c13filterCase(cs c13fcase) (sig, detail string) {
	cfg := vfConfig(0, c13cps(true, cs.T))
	chain := newRequestFilterChain()
	chain.AddFilter(newCompressFilter(cfg))
	w := c13writes[cs.Cmd]
	args := w.mk("k", cs.Val)
	origs := map[int][]byte{}
	for _, p := range w.pos {
		origs[p] = []byte(args[p])
	}
	req := newSimpleRequest(newStringArray(args...))
	for i := 0; i < cs.Times; i++ {
		if chain.Do(req) != Continue {
			return "supported-write-stopped-by-filter / " + strings.ToLower(w.name), ""
		}
	}
	for _, p := range w.pos {
		stored := req.Body().Array[p].Text
		if s := c13stored(origs[p], stored); s != "" {
			return fmt.Sprintf("%s / %s / filter applied %s", s, strings.ToLower(w.name), timesClass(cs.Times)), fmt.Sprintf("threshold %d value %q (%d bytes) stored as %d bytes", cs.T, abbreviate(origs[p]), len(origs[p]), len(stored))
		}
		// read back through a read request passing the same chain once
		for _, rd := range []string{"get", "hget", "hgetall", "mgetchild", "getset", "hscan"} {
			var rreq *simpleRequest
			var reply *RespValue
			st := append([]byte{}, stored...)
			switch rd {
			case "get", "mgetchild":
				rreq = newSimpleRequest(newStringArray("get", "k"))
				reply = newBulkBytes(st)
			case "hget":
				rreq = newSimpleRequest(newStringArray("hget", "k", "f"))
				reply = newBulkBytes(st)
			case "getset": // answers with the value stored before
				rreq = newSimpleRequest(newStringArray("getset", "k", "n"))
				reply = newBulkBytes(st)
			case "hgetall":
				rreq = newSimpleRequest(newStringArray("hgetall", "k"))
				reply = newArray(*newBulkString("f"), *newBulkBytes(st))
			case "hscan": // the values sit one level deeper: [cursor, [field, value]]
				rreq = newSimpleRequest(newStringArray("hscan", "k", "0"))
				reply = newArray(*newBulkString("0"), *newArray(*newBulkString("f"), *newBulkBytes(st)))
			}
			chain.Do(rreq)
			rreq.SetResponse(reply)
			got := rreq.Response()
			var val []byte
			if got.Type == Array {
				last := got.Array[len(got.Array)-1]
				if last.Type == Array && len(last.Array) > 0 {
					last = last.Array[len(last.Array)-1]
				}
				val = last.Text
			} else {
				val = got.Text
			}
			if !bytes.Equal(val, origs[p]) && !bytes.HasPrefix(origs[p], []byte("(P$")) {
				return fmt.Sprintf("read-back-differs / %s / filter applied %s", strings.ToLower(w.name), timesClass(cs.Times)), fmt.Sprintf("threshold %d value %q (%d bytes) read back via %s as %q (%d bytes)", cs.T, abbreviate(origs[p]), len(origs[p]), rd, abbreviate(val), len(val))
			}
		}
	}
	return "", ""
}

func timesClass(n int) string {
	if n == 1 {
		return "once"
	}
	return "more than once (redirection)"
}

func c13filter(env sched.Env) *sched.Report {
	rep := &sched.Report{Outcomes: map[string]int64{}, Complete: true}
	sigs := map[string]bool{}
	var vals [][]byte
	var gen func(p []byte)
	gen = func(p []byte) {
		vals = append(vals, append([]byte{}, p...))
		if len(p) == 10 {
			return
		}
		gen(append(p, '0'))
		gen(append(p, 'x'))
	}
	gen(nil)
	small := len(vals)
	n := 0
	for _, T := range []uint32{1, 8, 64, 1024} {
		lens := []int{int(T) - 1, int(T), int(T) + 1, 64, 76, 1024, 4096}
		if env.Tier == "thorough" {
			lens = append(lens, 100, 200, 513, 8192, 70000)
		}
		if T == 8 {
			lens = append(lens, 65535, 65536, 65537, 131073) // around the block size of the compression stream format
		}
		pv := vals[:small:small]
		for _, l := range lens {
			if l < 0 {
				continue
			}
			for _, kind := range []string{"run", "alt", "rnd", "text"} {
				pv = append(pv, c13pattern(kind, l))
			}
		}
		// k incompressible bytes followed by a run of m equal bytes: sweeps the number of bytes compression
		// saves through the whole neighbourhood of the framing overhead (header, stream identifier, chunk header)
		maxK, maxM := 8, 64
		if env.Tier == "thorough" {
			maxK, maxM = 24, 160
		}
		for k := 0; k <= maxK; k++ {
			for m := 0; m <= maxM; m++ {
				pv = append(pv, append(c13pattern("rnd", k), c13pattern("run", m)...))
			}
		}
		for ci := range c13writes {
			for _, v := range pv {
				for times := 1; times <= 3; times++ {
					n++
					if n%env.NShards != env.Shard {
						continue
					}
					cs := c13fcase{T, ci, v, times}
					rep.Execs++
					sched.Progress(nil)
					sig, detail := c13filterCase(cs)
					if sig != "" {
						rep.Outcomes["violation: "+sig]++
						if !sigs[sig] {
							sigs[sig] = true
							rep.Violations = append(rep.Violations, sched.CustomViolation("C13/filter", sig, detail, cs))
						}
					} else {
						rep.Outcomes["ok"]++
					}
				}
			}
		}
	}
	// banned commands
	if env.Shard == 0 {
		cfg := vfConfig(0, c13cps(true, 8))
		chain := newRequestFilterChain()
		chain.AddFilter(newCompressFilter(cfg))
		// every spelling of every banned command (each letter in lower or in upper case)
		var spellings []string
		for _, name := range []string{"append", "eval", "setbit", "getbit", "setrange", "getrange"} {
			for mask := 0; mask < 1<<len(name); mask++ {
				b := []byte(name)
				for i := range b {
					if mask&(1<<i) != 0 {
						b[i] -= 'a' - 'A'
					}
				}
				spellings = append(spellings, string(b))
			}
		}
		for _, b := range spellings {
			rep.Execs++
			sched.Progress(nil)
			req := newSimpleRequest(newStringArray(b, "k", "1", "2"))
			st := chain.Do(req)
			done := false
			select {
			case <-req.done:
				done = true
			default:
			}
			if st != Stop || !done || req.Response().Type != Error {
				sig := "banned-command-not-rejected / " + strings.ToLower(b)
				if !sigs[sig] {
					sigs[sig] = true
					rep.Violations = append(rep.Violations, sched.CustomViolation("C13/filter", sig, fmt.Sprintf("spelled %q", b), c13fcase{}))
				}
			}
		}
	}
	rep.Distinct = rep.Execs
	rep.Rule = "distinct (threshold, write command, value, number of filter passes) cases"
	rep.CustomSamples = []interface{}{map[string]interface{}{"t": 8, "cmd": "hmset", "value": "0x0x0x0x0x", "passes": 2}}
	return rep
}

// ---------------------------------------------------------------------------
// C13 (H): histories on the redis-stack: switch compression on/off, write, redirect, read back.
//
// alphabet  enable(T=8) | enable(T=64) | disable | remove the compression section | SET/HSET/MSET/SETEX of a short, a compressible and an
//           incompressible value | GET/HGET/MGET | move the key's slot group to the other node (the next
//           command is MOVED-redirected) | start migrating the group (keys not yet there are ASK-redirected)
// bound     depth (quick 4, thorough 5)
// oracle    every read through the proxy returns the last value written through the proxy; what the nodes
//           store is the original or a valid shorter frame
// ---------------------------------------------------------------------------

type c13hcase struct {
	Ops []int `json:"ops"`
}

var c13hvals = [][]byte{[]byte("tiny"), c13pattern("run", 3000), c13pattern("rnd", 300), c13pattern("text", 90)}

var c13opNames = []string{"enable(8)", "enable(64)", "disable", "SET short", "SET run3000", "SET rnd300", "HSET text90", "MSET run3000+short", "SETEX run3000",
	"GET", "HGET", "MGET", "move-group", "start-migration", "GETSET short", "remove-compression-section", "APPEND", "connections-lost"}

func c13history(cs c13hcase) (sig, detail string) {
	body := func() {
		cl := cluster.New(2, 0, 2)
		svc := vfSvcConfig(0, c13cps(false, 8), 0)
		s := vfStartStack(cl, svc)
		c := s.NewClient("c0")
		k1 := cl.KeyInGroup("k", 0, 0)
		k2 := cl.KeyInGroup("k", 0, 1)
		hk := cl.KeyInGroup("h", 0, 0)
		k3 := cl.KeyInGroup("a", 0, 2)
		enabled := false
		model := map[string][]byte{}
		moved := false
		name := func(i int) string { return c13opNames[cs.Ops[i]] }
		for i, op := range cs.Ops {
			var args []string
			switch op {
			case 0, 1, 2:
				t := uint32(8)
				if op == 1 {
					t = 64
				}
				ncfg := vfSvcConfig(0, c13cps(op != 2, t), 0)
				if err := s.p.OnSvcConfigUpdate(ncfg); err != nil {
					sig, detail = "config-update-rejected", err.Error()
					return
				}
				enabled = op != 2
				continue
			case 3:
				args = []string{"SET", k1, string(c13hvals[0])}
				model[k1] = c13hvals[0]
			case 4:
				args = []string{"SET", k1, string(c13hvals[1])}
				model[k1] = c13hvals[1]
			case 5:
				args = []string{"SET", k2, string(c13hvals[2])}
				model[k2] = c13hvals[2]
			case 6:
				args = []string{"HSET", hk, "f", string(c13hvals[3])}
				model[hk+"/f"] = c13hvals[3]
			case 7:
				args = []string{"MSET", k1, string(c13hvals[1]), k2, string(c13hvals[0])}
				model[k1], model[k2] = c13hvals[1], c13hvals[0]
			case 8:
				args = []string{"SETEX", k2, "100", string(c13hvals[1])}
				model[k2] = c13hvals[1]
			case 9:
				args = []string{"GET", k1}
			case 10:
				args = []string{"HGET", hk, "f"}
			case 11:
				args = []string{"MGET", k1, k2}
			case 12:
				if !moved {
					cl.MoveGroup(0, cl.Masters()[1])
					moved = true
				}
				continue
			case 13:
				if !moved && cl.Migrating[0] == nil {
					cl.SetMigrating(0, cl.Masters()[1])
				}
				continue
			case 14:
				args = []string{"GETSET", k1, string(c13hvals[0])}
			case 16:
				// a command that is disabled while compression is enabled, on a key of its own
				args = []string{"APPEND", k3, "x"}
			case 17:
				// every backend connection is lost: the next command goes over a connection (and a filter chain) that is
				// created now
				for _, n := range cl.Nodes {
					n.CloseConns()
				}
				sched.WaitQuiescent()
				continue
			case 15:
				// compression switched off by deleting the whole section from the service configuration
				if err := s.p.OnSvcConfigUpdate(vfSvcConfig(0, nil, 0)); err != nil {
					sig, detail = "config-update-rejected", err.Error()
					return
				}
				enabled = false
				continue
			}
			var prev *resp.Value
			if op == 14 {
				w := resp.NullBulk()
				if v, ok := model[k1]; ok {
					w = resp.Bulk(v)
				}
				prev = &w
				model[k1] = c13hvals[0]
			}
			mark := len(cl.Log)
			got, err := c.Do(args...)
			if err != nil {
				sig, detail = "connection-failed", fmt.Sprintf("step %d %s: %v", i, name(i), err)
				return
			}
			sched.WaitQuiescent()
			if op == 16 {
				reached := false
				for _, e := range cl.DataCmds(mark) {
					if strings.EqualFold(e.Args[0], "append") {
						reached = true
					}
				}
				hist := make([]string, i+1)
				for j := range hist {
					hist[j] = name(j)
				}
				switch {
				case enabled && (got.Kind != '-' || reached):
					sig, detail = "banned-command-not-rejected / append / compression enabled by a configuration update", fmt.Sprintf("history %v: APPEND replied %s, reached a backend: %v", hist, got, reached)
					return
				case !enabled && got.Kind == '-':
					sig, detail = "command-rejected-although-compression-is-off / append", fmt.Sprintf("history %v: APPEND replied %s", hist, got)
					return
				}
				continue
			}
			bulk := func(k string) resp.Value {
				if v, ok := model[k]; ok {
					return resp.Bulk(v)
				}
				return resp.NullBulk()
			}
			var want *resp.Value
			switch op {
			case 9:
				w := bulk(k1)
				want = &w
			case 10:
				w := bulk(hk + "/f")
				want = &w
			case 11:
				w := resp.Array(bulk(k1), bulk(k2))
				want = &w
			case 14:
				want = prev
			}
			if want != nil && !resp.Equal(got, *want) {
				hist := make([]string, i+1)
				for j := range hist {
					hist[j] = name(j)
				}
				redirected := "no redirection before"
				for j := 0; j < i; j++ {
					if cs.Ops[j] == 12 || cs.Ops[j] == 13 {
						redirected = "after a redirected write"
					}
				}
				for j := 0; j < i; j++ {
					if cs.Ops[j] == 15 {
						redirected += ", compression section removed"
						break
					}
				}
				sig = fmt.Sprintf("read-back-differs / %s / %s", strings.Fields(name(i))[0], redirected)
				detail = fmt.Sprintf("history %v: read %s, written %s", hist, got, *want)
				return
			}
			if got.Kind == '-' && op >= 3 && op <= 8 {
				sig, detail = "write-failed / "+name(i), got.String()
				return
			}
			// what the nodes store
			for _, m := range cl.Masters() {
				for _, key := range sched.SortedKeys(model) {
					orig := model[key]
					var stored []byte
					if strings.Contains(key, "/") {
						parts := strings.SplitN(key, "/", 2)
						stored = m.Store().RawHash(parts[0], parts[1])
					} else {
						stored = m.Store().Raw(key)
					}
					if stored == nil {
						continue
					}
					if bad := c13stored(orig, stored); bad != "" {
						sig, detail = bad+" / stack", fmt.Sprintf("after step %d %s: key %q holds %d bytes for a %d-byte value", i, name(i), key, len(stored), len(orig))
						return
					}
				}
			}
		}
	}
	e := sched.RunOnce(nil, sched.Options{}, body)
	for _, f := range e.Failures {
		sig, detail = f.Sig, f.Detail
	}
	if sig == "" && e.EndWhy != "main-returned" {
		sig = "execution-ended-" + e.EndWhy
	}
	return
}

func c13histories(env sched.Env) *sched.Report {
	rep := &sched.Report{Outcomes: map[string]int64{}, Complete: true}
	sigs := map[string]bool{}
	depth := 4
	if env.Tier == "thorough" {
		depth = 5
	}
	n := 0
	var rec func(ops []int)
	rec = func(ops []int) {
		if len(ops) > 0 && (ops[len(ops)-1] >= 9 && ops[len(ops)-1] <= 11 || ops[len(ops)-1] == 14 || ops[len(ops)-1] == 16) { // histories ending in a read or in the banned command
			n++
			if n%env.NShards == env.Shard {
				if sched.PastDeadline(env.Deadline) {
					rep.Complete = false
					return
				}
				cs := c13hcase{append([]int{}, ops...)}
				sched.Progress(cs)
				sig, detail := c13history(cs)
				rep.Execs++
				sched.Progress(nil)
				rep.Transitions += int64(len(ops))
				if sig != "" {
					rep.Outcomes["violation: "+sig]++
					if !sigs[sig] {
						sigs[sig] = true
						rep.Violations = append(rep.Violations, sched.CustomViolation("C13/histories", sig, detail, cs))
					}
				} else {
					rep.Outcomes["ok"]++
				}
			}
		}
		if len(ops) == depth {
			return
		}
		for op := range c13opNames {
			rec(append(ops, op))
		}
	}
	rec(nil)
	// selected deeper histories: enable, one write, two events out of {disable, remove the section, lose the
	// connections, move the group, start a migration, enable with another threshold}, one read
	if rep.Complete {
		events := []int{2, 15, 17, 12, 13, 1}
		for _, w := range []int{4, 6, 7, 8} {
			for _, x := range events {
				for _, y := range events {
					old := depth
					depth = 5
					rec([]int{0, w, x, y}) // evaluates every extension by one read (or the banned command)
					depth = old
				}
			}
		}
	}
	rep.States = rep.Execs
	rep.Distinct = rep.Execs
	rep.CustomSamples = []interface{}{"enable(8), move-group, SET run3000, GET"}
	return rep
}

// ---------------------------------------------------------------------------
// C13 (S): two sessions write compressible values to two different nodes at the same time (two backend
// write loops share the pooled compressors/buffers), then both read back.
// bound     P, F, Sel (see Setup); oracle as above
// ---------------------------------------------------------------------------

func c13concBody() {
	cl := cluster.New(2, 0, 2)
	s := vfStartStack(cl, vfSvcConfig(0, c13cps(true, 8), 0))
	k0, k1 := cl.KeyInGroup("k", 0, 0), cl.KeyInGroup("k", 1, 0)
	v0, v1 := c13pattern("run", 400), c13pattern("text", 300)
	c0, c1 := s.NewClient("c0"), s.NewClient("c1")
	// bring both backend connections up first
	c0.Do("GET", k0)
	c1.Do("GET", k1)
	sched.WaitQuiescent()
	var r0, r1 resp.Value
	var wg vsync.WaitGroup
	wg.Add(2)
	sched.GoNamed("client0", func() { defer wg.Done(); c0.Do("SET", k0, string(v0)); r0, _ = c0.Do("GET", k0) })
	sched.GoNamed("client1", func() { defer wg.Done(); c1.Do("HSET", k1, "f", string(v1)); r1, _ = c1.Do("HGET", k1, "f") })
	wg.Wait()
	if !resp.Equal(r0, resp.Bulk(v0)) {
		sched.Fail("read-back-differs / concurrent sessions", fmt.Sprintf("client0 wrote %d bytes, read %s", len(v0), r0))
	}
	if !resp.Equal(r1, resp.Bulk(v1)) {
		sched.Fail("read-back-differs / concurrent sessions", fmt.Sprintf("client1 wrote %d bytes, read %s", len(v1), r1))
	}
	if bad := c13stored(v0, cl.Masters()[0].Store().Raw(k0)); bad != "" {
		sched.Fail(bad+" / concurrent sessions", "node 0")
	}
	if bad := c13stored(v1, cl.Masters()[1].Store().RawHash(k1, "f")); bad != "" {
		sched.Fail(bad+" / concurrent sessions", "node 1")
	}
	sched.SetOutcome("ok")
}

// C13 (S): the compression settings are switched (service-configuration update) while a write and its read
// back are being processed. The configuration is swapped by a plain pointer write and read by the request
// goroutines without synchronisation, so every statement reading it is a scheduling point of its own.
//
// alphabet  from enabled(T=8) to: disabled | no compression section at all | enabled(T=1024) | strategy change only
// oracle    the write and the read get their replies, the value read back is the value written, what the node
//
//	stores is the original or a valid shorter frame, nothing panics
func c13switchConcurrentBody() {
	cl := cluster.New(1, 0, 1)
	s := vfStartStack(cl, vfSvcConfig(0, c13cps(true, 8), 0))
	k := cl.KeyInGroup("k", 0, 0)
	val := c13pattern("run", 300)
	c := s.NewClient("c0")
	c.Do("GET", k)
	sched.WaitQuiescent()
	to := sched.Choose(sched.ClsInput, 4, "new configuration")
	ncfg := []*service.Config{
		vfSvcConfig(0, c13cps(false, 8), 0),
		vfSvcConfig(0, nil, 0),
		vfSvcConfig(0, c13cps(true, 1024), 0),
		vfSvcConfig(pbredis.ReadStrategy_BOTH, c13cps(true, 8), 0),
	}[to]
	name := []string{"disabled", "no compression section", "threshold 1024", "read strategy only"}[to]
	sched.GoNamed("config-update", func() {
		if err := s.p.OnSvcConfigUpdate(ncfg); err != nil {
			sched.Fail("config-update-rejected", err.Error())
		}
	})
	w, err := c.Do("SET", k, string(val))
	if err != nil || w.Kind == '-' {
		sched.Fail("write-failed / configuration switched during the request", fmt.Sprintf("switch to %s: SET replied %s %v", name, w, err))
		return
	}
	r, err := c.Do("GET", k)
	if err != nil || !resp.Equal(r, resp.Bulk(val)) {
		sched.Fail("read-back-differs / configuration switched during the request", fmt.Sprintf("switch to %s: wrote %d bytes, read %s %v", name, len(val), r, err))
	}
	sched.WaitQuiescent()
	if bad := c13stored(val, cl.Masters()[0].Store().Raw(k)); bad != "" {
		sched.Fail(bad+" / configuration switched during the request", "switch to "+name)
	}
	sched.SetOutcome(name)
}

func init() {
	sched.Register(&sched.Scenario{Name: "C13/switch-concurrent", Setup: func(tier string) (sched.Config, func()) {
		b := sched.Bounds{P: 1, F: 1}
		if tier == "thorough" {
			b = sched.Bounds{P: 2, F: 2, Sel: 1}
		}
		return sched.Config{Bounds: b, Iterative: true, MaxSteps: 100000}, c13switchConcurrentBody
	}})
	sched.Register(&sched.Scenario{Name: "C13/concurrent", Setup: func(tier string) (sched.Config, func()) {
		b := sched.Bounds{P: 1, F: 1, Sel: 0}
		if tier == "thorough" {
			b = sched.Bounds{P: 2, F: 1, Sel: 1}
		}
		return sched.Config{Bounds: b, Iterative: true}, c13concBody
	}})
	sched.Register(&sched.Scenario{Name: "C13/filter", Custom: c13filter, ReplayCustom: func(in json.RawMessage) []sched.Failure {
		var cs c13fcase
		json.Unmarshal(in, &cs)
		sig, detail := c13filterCase(cs)
		fmt.Println(sig, detail)
		if sig == "" {
			return nil
		}
		return []sched.Failure{{Sig: sig, Detail: detail}}
	}})
	sched.Register(&sched.Scenario{Name: "C13/histories", Custom: c13histories, ReplayCustom: func(in json.RawMessage) []sched.Failure {
		var cs c13hcase
		json.Unmarshal(in, &cs)
		sig, detail := c13history(cs)
		fmt.Println(sig, detail)
		if sig == "" {
			return nil
		}
		return []sched.Failure{{Sig: sig, Detail: detail}}
	}})
}
