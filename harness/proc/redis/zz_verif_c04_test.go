//go:build go1.21

package redis

import (
	"encoding/json"
	"fmt"
	"github.com/samaritan-proxy/samaritan/host"
	"strings"

	"github.com/samaritan-proxy/samaritan/verifrt/sched"
	"github.com/samaritan-proxy/samaritan/verifrt/sim/cluster"
	"github.com/samaritan-proxy/samaritan/verifrt/sim/resp"
	"github.com/samaritan-proxy/samaritan/verifrt/vrand"
	vsync "github.com/samaritan-proxy/samaritan/verifrt/vsync"
)

// ---------------------------------------------------------------------------
// C04 (H): migration and failover histories interleaved with client commands.
//
// cluster   m0 (replica r0) owns slot group g0 with keys ka, kb; m1 owns g1 with kc; g0 migrates to m1 or, in
//           the second variant, to a third master that owns no slot yet
// alphabet  set g0 migrating to m1 | migrate ka | migrate kb | finalise g0 | failover m0->r0 (old master stays
//           up as replica) | failover with the old master down | refresh round |
//           failover announced by a host-removal notice after the proxy already refreshed once |
//           GET ka | SET ka v | INCR kb | DEL ka | MGET ka kb kc | SET kc v | outage of m0 with a command meanwhile |
//           fail back (the old master promoted again) | the interim master goes away afterwards
// bound     depth (quick 4, thorough 5); default schedule, fair random seed choice; x migration target owns no slots yet;
//           x nodes announce host names (histories one level below the depth bound, and the full migration scripts)
// oracle    no reply is a MOVED/ASK error; every reply equals the single-server reply (INCR makes a lost or
//           duplicated execution visible); a keyed single-key command is accepted by exactly one node;
//           errors are tolerated only after a failover whose old master is down, until a periodic refresh round completed
// ---------------------------------------------------------------------------

var c04ops = []string{"migrating", "migrate-ka", "migrate-kb", "finalise", "failover", "failover-master-down", "refresh-round",
	"GET ka", "SET ka", "INCR kb", "DEL ka", "MGET", "SET kc", "m0-outage", "failover-with-notice", "failback", "former-interim-master-leaves"}

type c04case struct {
	Ops []int `json:"ops"`
	// FreshTarget: the migration target is a third master that owns no slot yet (scale-out)
	FreshTarget bool `json:"fresh_target,omitempty"`
	// Hostnames: the cluster announces host names (in CLUSTER NODES and in its redirections)
	Hostnames bool `json:"hostnames,omitempty"`
}

func (c c04case) String() string {
	var s []string
	if c.FreshTarget {
		s = append(s, "(migration target owns no slots)")
	}
	if c.Hostnames {
		s = append(s, "(nodes announce host names)")
	}
	for _, o := range c.Ops {
		s = append(s, c04ops[o])
	}
	return strings.Join(s, ", ")
}

type c04world struct {
	cl         *cluster.Cluster
	s          *vfStack
	m0, r0, m1 *cluster.Node
	target     *cluster.Node // where slot group g0 migrates to
	ka, kb, kc string
}

func c04setup() *c04world { return c04setupT(false) }

func c04setupT(fresh bool) *c04world { return c04setupTH(fresh, false) }

func c04setupTH(fresh, hostnames bool) *c04world {
	vrand.Fair()
	cl := cluster.New(2, 0, 2)
	if fresh {
		cl = cluster.New(3, 0, 2)
		cl.Owner[0], cl.Owner[1] = cl.Masters()[0], cl.Masters()[1] // the third master owns nothing
	}
	// add one replica to m0 only
	w := &c04world{cl: cl}
	w.m0, w.m1 = cl.Masters()[0], cl.Masters()[1]
	w.target = w.m1
	if fresh {
		w.target = cl.Masters()[2]
	}
	w.r0 = &cluster.Node{C: cl, Idx: len(cl.Nodes), ID: "m0r0", Addr: "10.0.1.2:6379", MasterOf: w.m0}
	w.r0.ShareStore(w.m0)
	cl.Nodes = append(cl.Nodes, w.r0)
	if hostnames {
		cl.UseHostnames()
	}
	w.s = vfStartStack(cl, vfSvcConfig(0, nil, 0))
	tag := cl.KeyInGroup("t", 0, 0)
	w.ka, w.kb, w.kc = "{"+tag+"}a", "{"+tag+"}b", cl.KeyInGroup("c", 1, 0)
	return w
}

func isRedirectErr(v resp.Value) bool {
	if v.Kind != '-' {
		return false
	}
	up := strings.ToUpper(string(v.Str))
	return strings.HasPrefix(up, "MOVED") || strings.HasPrefix(up, "ASK")
}

func c04run(cs c04case) (sig, detail string) {
	body := func() {
		w := c04setupTH(cs.FreshTarget, cs.Hostnames)
		cl := w.cl
		c := w.s.NewClient("c0")
		n := 0
		grace := -1 // refresh rounds since a failover with the old master down (-1: none)
		phase := "stable"
		for i, op := range cs.Ops {
			var args []string
			switch c04ops[op] {
			case "migrating":
				if cl.Owner[0] == w.m0 && cl.Migrating[0] == nil && !w.m0.Down {
					cl.SetMigrating(0, w.target)
					phase = "half-migrated"
				}
				continue
			case "migrate-ka":
				cl.MigrateKey(w.ka)
				continue
			case "migrate-kb":
				cl.MigrateKey(w.kb)
				continue
			case "finalise":
				if cl.Migrating[0] != nil {
					cl.Finalise(0)
					phase = "after migration"
				}
				continue
			case "failover", "failover-master-down":
				if w.r0.MasterOf == nil || cl.Migrating[0] != nil || cl.Owner[0] != w.m0 {
					continue
				}
				if c04ops[op] == "failover-master-down" {
					w.m0.Stop()
					sched.WaitQuiescent()
					grace = 0
				}
				cl.Failover(w.r0)
				phase = "after failover"
				continue
			case "refresh-round":
				// the periodic refresh (virtual 2 minutes) plus two minimum-rate pauses, so that a refresh
				// that first picked the dead seed host can retry with the next one
				w.s.RefreshRound()
				sched.AdvanceTime(int64(slotsRefFreq) + 1)
				sched.WaitQuiescent()
				w.s.RefreshRound()
				w.s.RefreshRound()
				if grace >= 0 {
					grace++
				}
				continue
			case "failover-with-notice":
				// the master dies; the proxy's refresh round that follows still sees the old topology; then the
				// replica is promoted and the proxy is told that the dead master left the host set (service
				// discovery / health check). After two refresh pauses its slots are served by the new master.
				if w.r0.MasterOf == nil || cl.Migrating[0] != nil || cl.Owner[0] != w.m0 || w.m0.Down {
					continue
				}
				w.m0.Stop()
				sched.WaitQuiescent()
				w.s.RefreshRound()
				w.s.RefreshRound()
				cl.Failover(w.r0)
				w.s.p.u.OnHostRemove(host.New(w.m0.Addr))
				sched.WaitQuiescent()
				w.s.RefreshRound()
				w.s.RefreshRound()
				w.s.RefreshRound()
				phase = "after failover with a removal notice"
				continue
			case "failback":
				// after a failover the old master, now a replica, is promoted again (rolling upgrade): the same node id owns
				// the same slots as before
				if w.m0.MasterOf != w.r0 || cl.Owner[0] != w.r0 || w.m0.Down || w.r0.Down {
					continue
				}
				cl.Failover(w.m0)
				phase = "after a failover and a fail back"
				continue
			case "former-interim-master-leaves":
				// the node that was master between failover and fail back (a replica again) goes away
				if w.r0.MasterOf != w.m0 || cl.Owner[0] != w.m0 || w.r0.Down || phase != "after a failover and a fail back" {
					continue
				}
				w.r0.Stop()
				sched.WaitQuiescent()
				continue
			case "m0-outage":
				// the owner of g0 is unreachable for a while (a command arrives meanwhile and may fail), then it is
				// back on the same address with its data
				if cl.Owner[0] != w.m0 || w.m0.Down {
					continue
				}
				w.m0.Stop()
				sched.WaitQuiescent()
				if _, err := c.Do("GET", w.ka); err != nil {
					sig, detail = "downstream-connection-lost", fmt.Sprintf("history [%s] step %d: %v", cs, i, err)
					return
				}
				sched.WaitQuiescent()
				w.m0.Up()
				sched.WaitQuiescent()
				phase = "after an outage of the owner"
				continue
			case "GET ka":
				args = []string{"GET", w.ka}
			case "SET ka":
				n++
				args = []string{"SET", w.ka, fmt.Sprintf("v%d", n)}
			case "INCR kb":
				args = []string{"INCR", w.kb}
			case "DEL ka":
				args = []string{"DEL", w.ka}
			case "MGET":
				args = []string{"MGET", w.ka, w.kb, w.kc}
			case "SET kc":
				n++
				args = []string{"SET", w.kc, fmt.Sprintf("c%d", n)}
			}
			mark := len(cl.Log)
			got, err := c.Do(args...)
			if err != nil {
				sig, detail = "downstream-connection-lost", fmt.Sprintf("history [%s] step %d: %v", cs, i, err)
				return
			}
			sched.WaitQuiescent()
			where := fmt.Sprintf("history [%s] step %d %s", cs, i, vfFmtCmd(args))
			bad := got
			if got.Kind == '*' {
				for _, e := range got.Arr {
					if isRedirectErr(e) {
						bad = e
					}
				}
			}
			if isRedirectErr(bad) {
				sig, detail = "redirection-error-visible-to-client / "+phase, fmt.Sprintf("%s: client received %s", where, got)
				return
			}
			tolerated := grace >= 0 && grace < 1
			isErr := got.Kind == '-'
			if got.Kind == '*' {
				for _, e := range got.Arr {
					if e.Kind == '-' {
						isErr = true
					}
				}
			}
			if isErr && tolerated {
				continue // the proxy cannot know the promoted replica before it refreshed
			}
			want := refExec(w.s.ref, args)
			if !resp.Equal(got, want) {
				sig = fmt.Sprintf("reply-differs-from-single-server / %s / %s", strings.ToLower(args[0]), phase)
				detail = fmt.Sprintf("%s: proxy replied %s, a single server replies %s", where, got, want)
				return
			}
			if strings.ToLower(args[0]) != "mget" {
				accepted := 0
				for _, e := range cl.DataCmds(mark) {
					if !e.Redirect && strings.EqualFold(e.Args[0], args[0]) {
						accepted++
					}
				}
				if accepted != 1 {
					sig = fmt.Sprintf("command-accepted-%d-times / %s / %s", accepted, strings.ToLower(args[0]), phase)
					detail = fmt.Sprintf("%s: node log %v", where, cl.DataCmds(mark))
					return
				}
			}
		}
	}
	e := sched.RunOnce(nil, sched.Options{MaxSteps: 400000}, body)
	for _, f := range e.Failures {
		sig, detail = f.Sig, f.Detail
	}
	if sig == "" && e.EndWhy != "main-returned" {
		sig, detail = "execution-ended-"+e.EndWhy, cs.String()
	}
	return
}

func c04histories(env sched.Env) *sched.Report {
	rep := &sched.Report{Outcomes: map[string]int64{}, Complete: true}
	depth := 4
	if env.Tier == "thorough" {
		depth = 5
	}
	sigs := map[string]bool{}
	n := 0
	var rec func(ops []int)
	rec = func(ops []int) {
		if len(ops) > 0 && ops[len(ops)-1] >= 7 && ops[len(ops)-1] <= 12 {
			n++
			if n%env.NShards == env.Shard {
				if sched.PastDeadline(env.Deadline) {
					rep.Complete = false
					return
				}
				for variant := 0; variant < 3; variant++ {
					fresh, hostnames := variant == 1, variant == 2
					if fresh {
						// the fresh-target variant only differs once a migration was started
						started := false
						for _, o := range ops {
							started = started || o == 0
						}
						if !started {
							continue
						}
					}
					if hostnames {
						// the host-name variant only differs once something redirects; one level below the depth bound
						redirects := false
						for _, o := range ops {
							redirects = redirects || o == 0 || o == 4 || o == 5 || o == 14
						}
						if !redirects || len(ops) >= depth {
							continue
						}
					}
					cs := c04case{Ops: append([]int{}, ops...), FreshTarget: fresh, Hostnames: hostnames}
					sched.Progress(cs)
					sig, detail := c04run(cs)
					rep.Execs++
					sched.Progress(nil)
					rep.Transitions += int64(len(ops))
					if sig != "" {
						rep.Outcomes["violation: "+sig]++
						if !sigs[sig] {
							sigs[sig] = true
							rep.Violations = append(rep.Violations, sched.CustomViolation("C04/histories", sig, detail, cs))
						}
					} else {
						rep.Outcomes["ok"]++
					}
				}
			}
		}
		if len(ops) == depth {
			return
		}
		for op := range c04ops {
			rec(append(ops, op))
		}
	}
	rec(nil)
	// full migration scripts (longer than the depth bound)
	for _, h := range [][]int{{8, 9, 0, 7, 9, 1, 7, 8, 9, 2, 9, 3, 7, 9, 11, 6, 6, 7, 9}, {9, 9, 0, 9, 2, 9, 10, 8, 3, 9, 11}, {8, 5, 7, 6, 6, 7, 8, 9}, {8, 9, 4, 8, 9, 7, 6, 9, 11}, {0, 8, 9, 10, 3, 6, 7, 9}, {8, 4, 6, 7, 15, 6, 16, 7, 8, 9}, {4, 6, 15, 6, 16, 8, 7, 11}} {
		n++
		if n%env.NShards != env.Shard {
			continue
		}
		for _, hostnames := range []bool{false, true} {
			cs := c04case{Ops: h, Hostnames: hostnames}
			sig, detail := c04run(cs)
			rep.Execs++
			sched.Progress(nil)
			if sig != "" && !sigs[sig] {
				sigs[sig] = true
				rep.Violations = append(rep.Violations, sched.CustomViolation("C04/histories", sig, detail, cs))
			}
		}
	}
	rep.States = rep.Execs
	rep.Distinct = rep.Execs
	rep.CustomSamples = []interface{}{c04case{Ops: []int{0, 9, 1, 7}}.String(), c04case{Ops: []int{8, 5, 7, 6, 6, 7}}.String()}
	return rep
}

// ---------------------------------------------------------------------------
// C04 (S): in the half-migrated phase an ASK-redirected command (ASKING + command, two separate sends)
// races with other traffic on the target node's connection.
// bound     P, F, Sel (see Setup)
// oracle    no MOVED/ASK visible; INCR executed exactly once; all replies equal the single-server replies
// ---------------------------------------------------------------------------

func c04askBody() {
	w := c04setup()
	cl := w.cl
	c0, c1 := w.s.NewClient("c0"), w.s.NewClient("c1")
	// connections to both masters are up, kb exists nowhere yet
	c0.Do("GET", w.ka)
	c1.Do("SET", w.kc, "0")
	refExec(w.s.ref, []string{"SET", w.kc, "0"})
	sched.WaitQuiescent()
	cl.SetMigrating(0, w.m1)
	var r0, r1a, r1b resp.Value
	var wg vsync.WaitGroup
	wg.Add(2)
	sched.GoNamed("client0", func() { defer wg.Done(); r0, _ = c0.Do("INCR", w.kb) })
	sched.GoNamed("client1", func() {
		defer wg.Done()
		r1a, _ = c1.Do("SET", w.kc, "1")
		r1b, _ = c1.Do("GET", w.kc)
	})
	wg.Wait()
	sched.WaitQuiescent()
	for _, r := range []resp.Value{r0, r1a, r1b} {
		if isRedirectErr(r) {
			sched.Fail("redirection-error-visible-to-client / half-migrated, concurrent traffic", r.String())
		}
	}
	if !resp.Equal(r0, resp.Int(1)) {
		sched.Fail("redirected-command-lost-or-duplicated", fmt.Sprintf("INCR of a fresh key replied %s", r0))
	}
	if !resp.Equal(r1a, resp.Simple("OK")) || !resp.Equal(r1b, resp.BulkS("1")) {
		sched.Fail("other-traffic-disturbed-by-redirection", fmt.Sprintf("SET -> %s, GET -> %s", r1a, r1b))
	}
	v, _ := c0.Do("GET", w.kb)
	if !resp.Equal(v, resp.BulkS("1")) {
		sched.Fail("redirected-command-lost-or-duplicated", fmt.Sprintf("counter reads %s after one INCR", v))
	}
	sched.SetOutcome(fmt.Sprintf("redirects=%d", cl.Redirects(0)))
}

// C04 (S): a pipeline of commands on one key is redirected to a node the proxy has no connection to yet
// (the promoted replica); the redirected commands must reach it in order.
func c04pipelineBody() {
	w := c04setup()
	cl := w.cl
	c := w.s.NewClient("c0")
	c.Do("SET", w.kb, "0")
	refExec(w.s.ref, []string{"SET", w.kb, "0"})
	sched.WaitQuiescent()
	kind := sched.Choose(sched.ClsInput, 2, "kind")
	if kind == 0 {
		cl.Failover(w.r0) // the old master stays up and answers MOVED
	} else {
		cl.SetMigrating(0, w.m1)
		cl.MigrateKey(w.kb) // kb now lives on the target: the source answers ASK
	}
	n := 3
	var raw []byte
	for i := 0; i < n; i++ {
		raw = append(raw, resp.Encode(resp.Cmd("INCR", w.kb))...)
	}
	c.Send(raw)
	sched.WaitQuiescent()
	rs, _ := c.Pending()
	if len(rs) != n {
		sched.Fail("pipelined-redirected-commands-lost", fmt.Sprintf("%d replies for %d commands", len(rs), n))
	}
	for i, r := range rs {
		if !resp.Equal(r, resp.Int(int64(i+1))) {
			sched.Fail("pipelined-redirected-commands-reordered", fmt.Sprintf("replies %v to %d pipelined INCRs of one key", rs, n))
		}
	}
	sched.SetOutcome(fmt.Sprintf("kind=%d", kind))
}

// C04 (S): a master dies and its replica is promoted while a slot refresh answered from the old topology is
// still in flight; the proxy is told that the dead master left the host set (service discovery / health
// check), which requests a refresh. Once that refresh had two pauses to run, commands for the promoted
// replica's slots are served like a single server would serve them.
func c04failoverInFlightBody() {
	w := c04setup()
	for i := sched.Choose(sched.ClsInput, 3, "rotation of the random host picks"); i > 0; i-- {
		vrand.Intn(3)
	}
	cl := w.cl
	c := w.s.NewClient("c0")
	c.Do("SET", w.ka, "1")
	refExec(w.s.ref, []string{"SET", w.ka, "1"})
	sched.WaitQuiescent()
	w.s.RefreshRound()
	cl.HoldCluster = true
	sched.AdvanceTime(int64(slotsRefFreq) + 1)
	sched.WaitQuiescent()
	if cl.Held == 0 {
		sched.SetOutcome("no refresh in flight")
		return
	}
	asked := ""
	for _, e := range cl.Log {
		if strings.EqualFold(e.Args[0], "cluster") {
			asked = e.Node
		}
	}
	w.m0.Stop()
	cl.Failover(w.r0)
	sched.WaitQuiescent()
	w.s.p.u.OnHostRemove(host.New(w.m0.Addr))
	sched.WaitQuiescent()
	cl.HoldCluster = false
	sched.WaitQuiescent()
	w.s.RefreshRound()
	w.s.RefreshRound()
	w.s.RefreshRound()
	got, err := c.Do("GET", w.ka)
	if err != nil || !resp.Equal(got, resp.BulkS("1")) {
		sched.Fail("reply-differs-from-single-server / get / failover during an in-flight refresh",
			fmt.Sprintf("master died and its replica was promoted while a refresh (asked %s) was in flight, the proxy was told the master left and three refresh pauses passed; GET replied %s %v", asked, got, err))
	}
	sched.SetOutcome("asked " + asked)
}

func init() {
	sched.Register(&sched.Scenario{Name: "C04/failover-in-flight", Setup: func(tier string) (sched.Config, func()) {
		b := sched.Bounds{P: 1, F: 1}
		if tier == "thorough" {
			b = sched.Bounds{P: 2, F: 2}
		}
		return sched.Config{Bounds: b, Iterative: true, MaxSteps: 100000}, c04failoverInFlightBody
	}})
	sched.Register(&sched.Scenario{Name: "C04/pipelined-redirect", Setup: func(tier string) (sched.Config, func()) {
		b := sched.Bounds{P: 1, F: 1, Sel: 0}
		if tier == "thorough" {
			b = sched.Bounds{P: 2, F: 2, Sel: 1}
		}
		return sched.Config{Bounds: b, Iterative: true, MaxSteps: 100000}, c04pipelineBody
	}})
	sched.Register(&sched.Scenario{Name: "C04/histories", Custom: c04histories, ReplayCustom: func(in json.RawMessage) []sched.Failure {
		var cs c04case
		json.Unmarshal(in, &cs)
		sig, detail := c04run(cs)
		fmt.Println(cs.String(), "->", sig, detail)
		if sig == "" {
			return nil
		}
		return []sched.Failure{{Sig: sig, Detail: detail}}
	}})
	sched.Register(&sched.Scenario{Name: "C04/asking", Setup: func(tier string) (sched.Config, func()) {
		b := sched.Bounds{P: 1, F: 1, Sel: 1}
		if tier == "thorough" {
			b = sched.Bounds{P: 2, F: 1, Sel: 1}
		}
		return sched.Config{Bounds: b, Iterative: true, MaxSteps: 100000}, c04askBody
	}})
}
