//go:build go1.21

package redis

import (
	"fmt"
	"strings"
	"time"

	"github.com/samaritan-proxy/samaritan/proc/internal/log"
	"github.com/samaritan-proxy/samaritan/verifrt/sched"
	"github.com/samaritan-proxy/samaritan/verifrt/sim/cluster"
	"github.com/samaritan-proxy/samaritan/verifrt/sim/resp"
	"github.com/samaritan-proxy/samaritan/verifrt/vnet"
)

// ---------------------------------------------------------------------------
// C01: replies in request order, exactly one per request.
//
// alphabet  requests {GET a, GET b, MGET a b, MGET b a, SET a x, DEL a b, PING, NOSUCH, a command name
//           containing CR LF, inline "GET a"}; a lives on node 1, b on node 2, with distinct values
// scenarios fragments : every pipeline of length <= 3 x every cut of its bytes into two writes (default schedule)
//           schedules : every pipeline of length <= 2 (+ selected of length 3) in one write, all schedules of
//                       session reader/writer, backend writers/readers and node threads within P,F,Sel
//           two-conns : two connections with length-2 pipelines over disjoint keys, same bounds
//           backend-fifo : one real backend client, three senders, backend echoing; request i gets reply i
//           odd-names : every command name over {CR, LF, x} up to length 5 at the head / in the middle of a pipeline
//           cold-start : pipelines whose commands find the backend connection still being established
//           many-in-flight : one MGET/DEL over 1023..1100 keys of one busy node (more than its client's queue holds)
//           long-pipeline : 40 requests (> the 32-entry session queue) at the default schedule, cut anywhere
// oracle    the bytes a client receives parse (independent codec) into exactly as many replies as requests,
//           reply k is the single-server answer to request k, nothing follows the last reply
// ---------------------------------------------------------------------------

type c01req struct {
	raw  []byte
	args []string // for the reference; nil = error expected
	name string
}

func c01alphabet(a, b string) []c01req {
	cmd := func(args ...string) c01req {
		return c01req{raw: resp.Encode(resp.Cmd(args...)), args: args, name: strings.ToLower(args[0])}
	}
	return []c01req{
		cmd("GET", a), cmd("GET", b), cmd("MGET", a, b), cmd("MGET", b, a), cmd("SET", a, "x"), cmd("DEL", a, b), cmd("PING"),
		{raw: resp.Encode(resp.Cmd("NOSUCH", a)), name: "nosuch"},
		{raw: resp.Encode(resp.Cmd("no\r\nsuch", "x")), name: "name-with-crlf"},
		{raw: []byte("GET " + a + "\r\n"), args: []string{"GET", a}, name: "inline-get"},
	}
}

// c01check verifies the replies a connection received for reqs.
func c01check(s *vfStack, tag string, reqs []c01req, c *vfClient) {
	replies, _ := c.Pending()
	if len(c.buf) > 0 {
		sched.Fail("reply-stream-corrupt / "+c01names(reqs), fmt.Sprintf("%s: after %d replies the stream continues with %q", tag, len(replies), abbreviate(c.buf)))
	}
	if len(replies) != len(reqs) {
		kind := "fewer"
		if len(replies) > len(reqs) {
			kind = "more"
		}
		sched.Fail(kind+"-replies-than-requests / "+c01names(reqs), fmt.Sprintf("%s: %d requests, %d replies: %v", tag, len(reqs), len(replies), replies))
	}
	for i, r := range reqs {
		if r.name == "any-single-reply" {
			continue // (that it is exactly one reply is what the count and the neighbours' replies decide)
		}
		if r.args == nil {
			if replies[i].Kind != '-' {
				sched.Fail("reply-order-or-content / "+r.name, fmt.Sprintf("%s: reply %d to an unsupported command is %s", tag, i, replies[i]))
			}
			continue
		}
		if r.name == "ping" {
			if !resp.Equal(replies[i], resp.Simple("PONG")) {
				sched.Fail("reply-order-or-content / ping", fmt.Sprintf("%s: reply %d is %s", tag, i, replies[i]))
			}
			continue
		}
		want := refExec(s.ref, r.args)
		if !resp.Equal(replies[i], want) {
			sched.Fail("reply-order-or-content / "+r.name, fmt.Sprintf("%s: reply %d (%s) is %s, a single server answers %s; all replies %v", tag, i, vfFmtCmd(r.args), replies[i], want, replies))
		}
	}
}

func c01names(reqs []c01req) string {
	has := map[string]bool{}
	for _, r := range reqs {
		has[r.name] = true
	}
	switch {
	case has["name-with-crlf"]:
		return "pipeline with a CR LF command name"
	case has["any-single-reply"]:
		return "pipeline with CR LF in the argument of a locally answered command"
	case has["nosuch"]:
		return "pipeline with an unsupported command"
	case has["mget"] || has["del"]:
		return "pipeline with a multi-key command"
	}
	return "pipeline of single-key commands"
}

func c01stack() (*vfStack, string, string) {
	cl := cluster.New(2, 0, 2)
	s := vfStartStack(cl, vfSvcConfig(0, nil, 0))
	a, b := cl.KeyInGroup("a", 0, 0), cl.KeyInGroup("b", 1, 0)
	w := s.NewClient("warm")
	for _, kv := range [][]string{{"SET", a, "va"}, {"SET", b, "vb"}} {
		w.Do(kv...)
		refExec(s.ref, kv)
	}
	sched.WaitQuiescent()
	return s, a, b
}

// pipelines up to length maxLen as index lists
func c01pipelines(n, maxLen int) [][]int {
	out := [][]int{}
	var rec func(p []int)
	rec = func(p []int) {
		if len(p) > 0 {
			out = append(out, append([]int{}, p...))
		}
		if len(p) == maxLen {
			return
		}
		for i := 0; i < n; i++ {
			rec(append(p, i))
		}
	}
	rec(nil)
	return out
}

func c01fragmentsBody(maxLen int) func() {
	return func() {
		s, a, b := c01stack()
		alpha := c01alphabet(a, b)
		pls := c01pipelines(len(alpha), maxLen)
		pl := pls[sched.Choose(sched.ClsInput, len(pls), "pipeline")]
		var reqs []c01req
		var raw []byte
		for _, i := range pl {
			reqs = append(reqs, alpha[i])
			raw = append(raw, alpha[i].raw...)
		}
		cut := sched.Choose(sched.ClsInput, len(raw), "cut") // 0 = one write
		c := s.NewClient("c0")
		if cut == 0 {
			c.Send(raw)
		} else {
			c.Send(raw[:cut])
			sched.WaitQuiescent()
			c.Send(raw[cut:])
		}
		sched.WaitQuiescent()
		c01check(s, fmt.Sprintf("pipeline %v cut %d", pl, cut), reqs, c)
		sched.SetOutcome(fmt.Sprintf("len=%d", len(pl)))
	}
}

// C01 (I): every command name over {CR, LF, x} up to length 5 (363 names; none is a supported command) in the
// middle and at the head of a pipeline: its error reply is exactly one reply and the replies around it pair up.
func c01oddNamesBody() {
	s, a, b := c01stack()
	var names []string
	var gen func(p string)
	gen = func(p string) {
		if len(p) > 0 {
			names = append(names, p)
		}
		if len(p) == 5 {
			return
		}
		for _, ch := range []string{"\r", "\n", "x"} {
			gen(p + ch)
		}
	}
	gen("")
	name := names[sched.Choose(sched.ClsInput, len(names), "name")]
	odd := c01req{raw: resp.Encode(resp.Cmd(name, "x")), name: "name-with-crlf"}
	cmd := func(args ...string) c01req {
		return c01req{raw: resp.Encode(resp.Cmd(args...)), args: args, name: strings.ToLower(args[0])}
	}
	var reqs []c01req
	switch sched.Choose(sched.ClsInput, 4, "shape") {
	case 0:
		reqs = []c01req{odd, cmd("PING")}
	case 1:
		reqs = []c01req{cmd("GET", a), odd, cmd("GET", b)}
	case 2:
		// the same bytes as the argument of commands the proxy answers itself
		reqs = []c01req{{raw: resp.Encode(resp.Cmd("PING", name)), name: "any-single-reply"}, cmd("PING"), cmd("GET", a)}
	case 3:
		reqs = []c01req{cmd("GET", b), {raw: resp.Encode(resp.Cmd("SELECT", name)), name: "any-single-reply"}, {raw: resp.Encode(resp.Cmd("INFO", name)), name: "any-single-reply"}, cmd("PING")}
	}
	var raw []byte
	for _, r := range reqs {
		raw = append(raw, r.raw...)
	}
	c := s.NewClient("c0")
	c.Send(raw)
	sched.WaitQuiescent()
	c01check(s, fmt.Sprintf("command name %q", name), reqs, c)
	sched.SetOutcome("ok")
}

// C01 (S): the first pipeline after start: the routing table is loaded but no backend connection exists yet, so
// the commands of the pipeline find the connection to their node still being established.
func c01coldBody() {
	cl := cluster.New(2, 0, 2)
	s := vfStartStack(cl, vfSvcConfig(0, nil, 0))
	a, b := cl.KeyInGroup("a", 0, 0), cl.KeyInGroup("b", 1, 0)
	cmd := func(args ...string) c01req {
		return c01req{raw: resp.Encode(resp.Cmd(args...)), args: args, name: strings.ToLower(args[0])}
	}
	pls := [][]c01req{
		{cmd("SET", a, "v1"), cmd("GET", a)},
		{cmd("INCR", a), cmd("INCR", a), cmd("INCR", a)},
		{cmd("SET", a, "1"), cmd("SET", a, "2"), cmd("GET", a)},
		{cmd("SET", a, "x"), cmd("SET", b, "y"), cmd("MGET", a, b)},
	}
	pi := sched.Choose(sched.ClsInput, len(pls), "pipeline")
	reqs := pls[pi]
	var raw []byte
	for _, r := range reqs {
		raw = append(raw, r.raw...)
	}
	c := s.NewClient("c0")
	c.Send(raw)
	sched.WaitQuiescent()
	c01check(s, fmt.Sprintf("first pipeline after start %d", pi), reqs, c)
	sched.SetOutcome(fmt.Sprint(pi))
}

// C01 (H): a connection that comes after one that ended badly: the former connection ended with requests (or a
// part of one) still unread in the proxy - a protocol error in the middle of a pipeline, the end of the stream
// inside a request, or the client gone while its pipeline waits behind a busy node - and then 1..3 later
// connections send one request each.
// oracle    each later connection receives exactly the reply to its own request and nothing else
func c01afterBrokenBody() {
	how := []string{"protocol-error-mid-pipeline", "stream-ends-inside-a-request", "client-gone-with-pipeline-behind-a-busy-node", "clean-close", "empty-line-mid-pipeline", "inline-protocol-error-mid-pipeline"}[sched.Choose(sched.ClsInput, 6, "how the former connection ended")]
	later := 1 + sched.Choose(sched.ClsInput, 3, "later connections")
	cl := cluster.New(2, 0, 2)
	s := vfStartStack(cl, vfSvcConfig(0, nil, 0))
	k := cl.KeyInGroup("k", 0, 0)
	m0 := cl.Masters()[0]
	c0 := s.NewClient("c0")
	ping := resp.Encode(resp.Cmd("PING"))
	set := resp.Encode(resp.Cmd("SET", k, "former"))
	switch how {
	case "protocol-error-mid-pipeline":
		c0.Send(append(append(append(append([]byte{}, ping...), []byte("*1\r\n:1\r\n")...), set...), ping...))
	case "empty-line-mid-pipeline":
		c0.Send([]byte("PING\r\n\r\nPING\r\nSET " + k + " former\r\n"))
	case "inline-protocol-error-mid-pipeline":
		c0.Send([]byte("PING\r\n$abc\r\nPING\r\nSET " + k + " former\r\n"))
	case "stream-ends-inside-a-request":
		c0.Send(append(append([]byte{}, ping...), []byte("*3\r\n$3\r\nSET\r\n$2\r\nk")...))
	case "client-gone-with-pipeline-behind-a-busy-node":
		m0.Stalled = true
		var raw []byte
		for i := 0; i < 40; i++ {
			raw = append(raw, resp.Encode(resp.Cmd("GET", k))...)
		}
		c0.Send(append(raw, set...))
	case "clean-close":
		c0.Send(ping)
	}
	sched.WaitQuiescent()
	c0.Close()
	sched.WaitQuiescent()
	m0.Stalled = false
	sched.WaitQuiescent()
	for i := 0; i < later; i++ {
		c := s.NewClient(fmt.Sprintf("c%d", i+1))
		sched.WaitQuiescent()
		if rs, _ := c.Pending(); len(rs) > 0 {
			sched.Fail("reply-without-request / connection after one that ended badly", fmt.Sprintf("former connection: %s; later connection %d received %v before it sent anything", how, i+1, rs))
			return
		}
		mine := fmt.Sprintf("mine-%d", i)
		c.Send(append(resp.Encode(resp.Cmd("SET", k, mine)), resp.Encode(resp.Cmd("GET", k))...))
		sched.WaitQuiescent()
		rs, _ := c.Pending()
		if len(rs) != 2 || rs[0].Kind != '+' || string(rs[0].Str) != "OK" || string(rs[1].Str) != mine {
			sched.Fail("reply-differs / connection after one that ended badly", fmt.Sprintf("former connection: %s; later connection %d sent SET k %s, GET k and received %v", how, i+1, mine, rs))
			return
		}
		c.Close()
		sched.WaitQuiescent()
	}
	sched.SetOutcome(how)
}

// C01 (H): more requests in flight on one backend connection than its queue of written-but-unanswered requests
// holds (1024): one MGET (or DEL) over n keys of one node while the node is busy, then the node answers.
func c01manyInFlightBody() {
	cl := cluster.New(2, 0, 2)
	s := vfStartStack(cl, vfSvcConfig(0, nil, 0))
	n := []int{1023, 1024, 1025, 1100}[sched.Choose(sched.ClsInput, 4, "keys")]
	kind := []string{"MGET", "DEL"}[sched.Choose(sched.ClsInput, 2, "command")]
	w := s.NewClient("warm")
	var keys []string
	for i := 0; i < n; i++ {
		k := cl.KeyInGroup("k", 0, i)
		keys = append(keys, k)
		if i%7 != 3 { // some keys do not exist
			w.Send(resp.Encode(resp.Cmd("SET", k, fmt.Sprint("v", i))))
			refExec(s.ref, []string{"SET", k, fmt.Sprint("v", i)})
		}
	}
	sched.WaitQuiescent()
	w.Pending()
	m0 := cl.Masters()[0]
	m0.Stalled = true
	c := s.NewClient("c0")
	args := append([]string{kind}, keys...)
	reqs := []c01req{{raw: resp.Encode(resp.Cmd(args...)), args: args, name: strings.ToLower(kind)},
		{raw: resp.Encode(resp.Cmd("GET", keys[0])), args: []string{"GET", keys[0]}, name: "get"}}
	c.Send(append(append([]byte{}, reqs[0].raw...), reqs[1].raw...))
	sched.WaitQuiescent()
	m0.Stalled = false
	sched.WaitQuiescent()
	c01check(s, fmt.Sprintf("%s over %d keys of one busy node", kind, n), reqs, c)
	sched.SetOutcome(fmt.Sprintf("%s %d", kind, n))
}

// C01 (S) a late reply: a pipeline over two nodes of which one answers some milliseconds after the other (the
// clock advances while the first replies wait in the session), all schedules of the moment the late answer
// arrives (set-up on the default schedule).
func c01lateReplyBody() {
	sched.SetQuiet(true)
	s, a, b := c01stack()
	m1 := s.cl.Masters()[1]
	shape := sched.Choose(sched.ClsInput, 3, "pipeline")
	cmd := func(args ...string) c01req {
		return c01req{raw: resp.Encode(resp.Cmd(args...)), args: args, name: strings.ToLower(args[0])}
	}
	reqs := [][]c01req{
		{cmd("GET", a), cmd("PING"), cmd("GET", b)},
		{cmd("GET", a), cmd("GET", b), cmd("GET", a), cmd("GET", b)},
		{cmd("MGET", a, b), cmd("GET", a), cmd("SET", b, "late")},
	}[shape]
	var raw []byte
	for _, r := range reqs {
		raw = append(raw, r.raw...)
	}
	late := []int64{1, 6, 50, 11 * 60 * 1000}[sched.Choose(sched.ClsInput, 4, "milliseconds")]
	// the first key's slot group has just moved to (or is being migrated to) the late node: its request is redirected
	redirect := []string{"none", "moved", "ask"}[sched.Choose(sched.ClsInput, 3, "redirection")]
	switch redirect {
	case "moved":
		s.cl.MoveGroup(0, m1)
	case "ask":
		s.cl.SetMigrating(0, m1)
		s.cl.MigrateKey(a)
	}
	m1.Stalled = true
	c := s.NewClient("c0")
	c.Send(raw)
	sched.WaitQuiescent()
	if late < 1000 {
		sched.SetQuiet(false) // (a node that hangs for minutes: default schedule only, many periodic timers fire)
	}
	sched.AdvanceTime(late * int64(time.Millisecond))
	m1.Stalled = false
	sched.WaitQuiescent()
	sched.SetQuiet(true)
	c01check(s, fmt.Sprintf("pipeline %d, redirection %s, one node answers %d ms late", shape, redirect, late), reqs, c)
	sched.SetOutcome(fmt.Sprintf("%d/%dms/%s", shape, late, redirect))
}

func c01schedulesBody() {
	s, a, b := c01stack()
	alpha := c01alphabet(a, b)
	pls := c01pipelines(len(alpha), 2)
	// selected pipelines of length 3 mixing both nodes and multi-key commands
	pls = append(pls, []int{0, 1, 2}, []int{4, 0, 2}, []int{5, 0, 1}, []int{2, 3, 4}, []int{1, 5, 3}, []int{4, 2, 5})
	pl := pls[sched.Choose(sched.ClsInput, len(pls), "pipeline")]
	var reqs []c01req
	var raw []byte
	for _, i := range pl {
		reqs = append(reqs, alpha[i])
		raw = append(raw, alpha[i].raw...)
	}
	c := s.NewClient("c0")
	c.Send(raw)
	sched.WaitQuiescent()
	c01check(s, fmt.Sprintf("pipeline %v", pl), reqs, c)
	sched.SetOutcome(fmt.Sprintf("len=%d", len(pl)))
}

func c01twoConnsBody() {
	s, a, b := c01stack()
	// connection 0 works on a (node 1) and its own key, connection 1 on b (node 2) and its own key
	a2, b2 := s.cl.KeyInGroup("p", 1, 0), s.cl.KeyInGroup("q", 0, 0)
	sets := [][][]string{
		{{"GET", a}, {"MGET", a, a2}}, {{"SET", a, "n1"}, {"GET", a}}, {{"DEL", a, a2}, {"GET", a}},
	}
	sets2 := [][][]string{
		{{"GET", b}, {"MGET", b2, b}}, {{"SET", b, "n2"}, {"GET", b}}, {{"SET", b2, "z"}, {"MGET", b, b2}},
	}
	p0 := sets[sched.Choose(sched.ClsInput, len(sets), "conn0")]
	p1 := sets2[sched.Choose(sched.ClsInput, len(sets2), "conn1")]
	mk := func(p [][]string) ([]c01req, []byte) {
		var reqs []c01req
		var raw []byte
		for _, args := range p {
			r := c01req{raw: resp.Encode(resp.Cmd(args...)), args: args, name: strings.ToLower(args[0])}
			reqs = append(reqs, r)
			raw = append(raw, r.raw...)
		}
		return reqs, raw
	}
	r0, raw0 := mk(p0)
	r1, raw1 := mk(p1)
	c0, c1 := s.NewClient("c0"), s.NewClient("c1")
	sched.GoNamed("client0", func() { c0.Send(raw0) })
	sched.GoNamed("client1", func() { c1.Send(raw1) })
	sched.WaitQuiescent()
	c01check(s, "connection 0", r0, c0)
	c01check(s, "connection 1", r1, c1)
	sched.SetOutcome("ok")
}

func c01fifoBody() {
	a, b := vnet.Pipe()
	a.Label, b.Label = "proxy-backend-conn", "backend"
	c, err := newClient(a, vfConfig(0, nil), log.New("[verif]"))
	if err != nil {
		sched.Fail("harness-newclient", err.Error())
	}
	sched.GoNamed("client.Start", c.Start)
	// backend: echoes the key of every GET in order
	sched.GoServer("backend", func() {
		var buf []byte
		tmp := make([]byte, 4096)
		for {
			n, err := b.Read(tmp)
			if err != nil {
				return
			}
			buf = append(buf, tmp[:n]...)
			vs, rest, _ := resp.DecodeAll(buf)
			buf = rest
			for _, v := range vs {
				out := resp.Simple("OK")
				if len(v.Arr) == 2 {
					out = resp.Bulk(v.Arr[1].Str)
				}
				if _, err := b.Write(resp.Encode(out)); err != nil {
					return
				}
			}
		}
	})
	reqs := []*simpleRequest{}
	for i := 0; i < 4; i++ {
		reqs = append(reqs, newSimpleRequest(newStringArray("get", fmt.Sprintf("key%d", i))))
	}
	sched.GoNamed("sender1", func() { c.Send(reqs[0]); c.Send(reqs[1]) })
	sched.GoNamed("sender2", func() { c.Send(reqs[2]) })
	sched.GoNamed("sender3", func() { c.Send(reqs[3]) })
	sched.WaitQuiescent()
	for i, r := range reqs {
		if !reqDone(r) {
			sched.Fail("backend-request-unanswered", fmt.Sprintf("request %d", i))
		}
		if string(r.Response().Text) != fmt.Sprintf("key%d", i) {
			sched.Fail("backend-reply-paired-with-wrong-request", fmt.Sprintf("request for key%d received the reply %q", i, r.Response().Text))
		}
	}
	sched.SetOutcome("ok")
}

func c01longBody() {
	s, a, b := c01stack()
	var reqs []c01req
	var raw []byte
	for i := 0; i < 40; i++ {
		var args []string
		switch i % 10 {
		case 0:
			args = []string{"GET", a}
		case 1:
			args = []string{"SET", b, fmt.Sprintf("v%d", i)}
		case 2:
			args = []string{"MGET", a, b}
		case 3:
			args = []string{"GET", b}
		// replies of every other shape: empty array, nil, nested and partly empty arrays, zero, empty string
		case 4:
			args = []string{"LRANGE", "missing" + a, "0", "-1"}
		case 5:
			args = []string{"GET", "missing" + b}
		case 6:
			args = []string{"EVAL", "return {{},{{}},{}}", "1", a}
		case 7:
			args = []string{"EXISTS", "missing" + a, "missing" + b}
		case 8:
			args = []string{"HGETALL", "missing" + b}
		case 9:
			args = []string{"MGET", "missing" + a, b, "missing" + b}
		}
		r := c01req{raw: resp.Encode(resp.Cmd(args...)), args: args, name: strings.ToLower(args[0])}
		reqs = append(reqs, r)
		raw = append(raw, r.raw...)
	}
	cut := sched.Choose(sched.ClsInput, 40, "cut") * (len(raw) / 40)
	c := s.NewClient("c0")
	if cut == 0 {
		c.Send(raw)
	} else {
		c.Send(raw[:cut])
		sched.WaitQuiescent()
		c.Send(raw[cut:])
	}
	sched.WaitQuiescent()
	c01check(s, fmt.Sprintf("40 requests cut at %d", cut), reqs, c)
	sched.SetOutcome("ok")
}

func init() {
	reg := func(name string, quick, thorough sched.Bounds, body func(tier string) func()) {
		sched.Register(&sched.Scenario{Name: name, Setup: func(tier string) (sched.Config, func()) {
			b := quick
			if tier == "thorough" {
				b = thorough
			}
			return sched.Config{Bounds: b, Iterative: true, MaxSteps: 200000}, body(tier)
		}})
	}
	reg("C01/fragments", sched.Bounds{}, sched.Bounds{}, func(tier string) func() {
		if tier == "thorough" {
			return c01fragmentsBody(3)
		}
		return c01fragmentsBody(2)
	})
	reg("C01/odd-names", sched.Bounds{}, sched.Bounds{}, func(string) func() { return c01oddNamesBody })
	reg("C01/many-in-flight", sched.Bounds{}, sched.Bounds{F: 1}, func(string) func() { return c01manyInFlightBody })
	reg("C01/cold-start", sched.Bounds{P: 1, F: 2, Sel: 1}, sched.Bounds{P: 2, F: 2, Sel: 1}, func(string) func() { return c01coldBody })
	reg("C01/schedules", sched.Bounds{P: 1, F: 1, Sel: 1}, sched.Bounds{P: 2, F: 1, Sel: 1}, func(string) func() { return c01schedulesBody })
	reg("C01/two-conns", sched.Bounds{P: 1, F: 1, Sel: 1}, sched.Bounds{P: 2, F: 1, Sel: 1}, func(string) func() { return c01twoConnsBody })
	reg("C01/backend-fifo", sched.Bounds{P: 2, F: 2, Sel: 1}, sched.Bounds{P: 3, F: 2, Sel: 1}, func(string) func() { return c01fifoBody })
	reg("C01/late-reply", sched.Bounds{P: 2, F: 1, Sel: 1}, sched.Bounds{P: 3, F: 2, Sel: 1}, func(string) func() { return c01lateReplyBody })
	reg("C01/after-broken", sched.Bounds{}, sched.Bounds{P: 1, F: 1}, func(string) func() { return c01afterBrokenBody })
	reg("C01/long-pipeline", sched.Bounds{F: 1}, sched.Bounds{P: 1, F: 1}, func(string) func() { return c01longBody })
}
