//go:build go1.21

package redis

import (
	"bytes"
	"encoding/json"
	"fmt"
	pbredis "github.com/samaritan-proxy/samaritan/pb/config/protocol/redis"
	"io"
	"runtime"
	"runtime/debug"
	"sort"
	"strings"
	"time"

	"github.com/samaritan-proxy/samaritan/verifrt/sched"
	"github.com/samaritan-proxy/samaritan/verifrt/sim/cluster"
	"github.com/samaritan-proxy/samaritan/verifrt/sim/resp"
)

// ---------------------------------------------------------------------------
// C11: no byte sequence from a client or a backend can crash or wedge the proxy.
//
// (I) downstream  every byte string over {* $ + - : 0 1 2 CR LF a SP} up to length 6/7 through the real
//                 decoder followed by the real request dispatch (panics recovered and reported with the input);
//                 every supported command name x argument shapes; length fields from {-2,-1,0,1,limit-1,
//                 limit,limit+1,2^63-1,2^63} x truncations; nesting depth up to 8e6 and nested large arrays in
//                 an isolated child process (a stack overflow is fatal, not recoverable); runs of up to 4e6
//                 repetitions of one short unit (empty line, blank, null/empty message) under a 64 MiB stack limit
// (I) backend     every MOVED/ASK/CLUSTERDOWN error text shape through the client's reply handler with the real
//                 upstream callbacks; every CLUSTER NODES text of <= 2 lines (+ selected 3-line texts) built from
//                 field alphabets through the real parser and table update, under both map orders; huge slot
//                 ranges in an isolated child; every SCAN reply shape through the scan hook; every prefix of the
//                 compression header (and header + garbage) as a value returned to GET/HGETALL/MGET
// (S) end to end  each crashing-candidate family once through the full stack with a second, well-behaved connection
// oracle          no panic, no fatal error, child exits normally; every decoded request gets a reply; the other
//                 connection still gets correct replies; memory obtained from the OS stays below 256 MiB + 4x the
//                 size the input declares within the protocol limits
// ---------------------------------------------------------------------------

type c11case struct {
	Kind string `json:"kind"`
	In   []byte `json:"in,omitempty"`
	Text string `json:"text,omitempty"`
	N    int    `json:"n,omitempty"`
	Rev  bool   `json:"rev,omitempty"`
}

func c11proc() *redisProc { return vfNewProc(vfSvcConfig(0, nil, 0)) }

// c11downstream feeds raw bytes through decoder + dispatch. Returns a failure signature or "".
func c11downstream(p *redisProc, in []byte) (sig, detail string) {
	defer func() {
		if r := recover(); r != nil {
			sig, detail = "panic / downstream bytes / "+panicPlace(), fmt.Sprintf("input %q: %v", abbreviate(in), r)
		}
	}()
	d := newDecoder(bytes.NewReader(in), 4096)
	for i := 0; i < 64; i++ {
		v, err := d.Decode()
		if err != nil {
			return "", ""
		}
		req := newRawRequest(v)
		p.handleRequest(req)
		select {
		case <-req.done:
		default:
			return "request-without-reply / downstream bytes", fmt.Sprintf("input %q", abbreviate(in))
		}
	}
	return "", ""
}

func panicPlace() string {
	pcs := make([]uintptr, 32)
	n := runtime.Callers(3, pcs)
	frames := runtime.CallersFrames(pcs[:n])
	for {
		f, more := frames.Next()
		if strings.Contains(f.Function, "samaritan/proc/redis.") && !strings.Contains(f.Function, "c11") && !strings.Contains(f.Function, "func") {
			return f.Function[strings.LastIndex(f.Function, "/")+1:]
		}
		if !more {
			break
		}
	}
	return "?"
}

func c11inputs(env sched.Env) *sched.Report {
	rep := &sched.Report{Outcomes: map[string]int64{}, Complete: true}
	sigs := map[string]bool{}
	fail := func(sig, detail string, c c11case) {
		rep.Outcomes["violation: "+sig]++
		if !sigs[sig] {
			sigs[sig] = true
			rep.Violations = append(rep.Violations, sched.CustomViolation("C11/inputs", sig, detail, c))
		}
	}
	p := c11proc()
	alpha := []byte{'*', '$', '+', '-', ':', '0', '1', '2', '\r', '\n', 'a', ' '}
	maxL := 6
	if env.Tier == "thorough" {
		maxL = 7
	}
	// shard by the first two symbols
	var gen func(prefix []byte)
	gen = func(prefix []byte) {
		rep.Execs++
		sched.Progress(nil)
		if s, d := c11downstream(p, prefix); s != "" {
			fail(s, d, c11case{Kind: "down", In: append([]byte{}, prefix...)})
		}
		if len(prefix) == maxL {
			return
		}
		for _, c := range alpha {
			gen(append(prefix, c))
		}
	}
	k := 0
	for _, a := range alpha {
		for _, b := range alpha {
			k++
			if k%env.NShards != env.Shard {
				continue
			}
			sched.Progress(c11case{Kind: "down", In: []byte{a, b}})
			gen([]byte{a, b})
		}
	}
	if env.Shard != 0 {
		rep.Distinct = rep.Execs
		return rep
	}
	// every supported command with argument shapes
	argsets := [][]string{{}, {""}, {"0"}, {"-1"}, {"x"}, {"18446744073709551616"}, {"0", "1"}, {"k", "v"}, {"k", "1", "v"}, {"s", "1", "k"}, {"s", "x", "k", "a"}, {"0", "MATCH"}, {"k", "v", "k2"}}
	names := []string{"ping", "quit", "select", "info", "time", "hotkey", "scan", "eval", "mset", "mget", "del", "exists", "touch", "unlink"}
	names = append(names, simpleCommands...)
	for _, n := range names {
		for _, as := range argsets {
			rep.Execs++
			sched.Progress(nil)
			in := resp.Encode(resp.Cmd(append([]string{n}, as...)...))
			if s, d := c11downstream(p, in); s != "" {
				fail(s, d, c11case{Kind: "down", In: in})
			}
		}
	}
	// key shapes: every key over { } x NUL up to length 5 (quick) / 6, as the key of single-key, multi-key and script
	// commands (routing looks for a hash tag in every key)
	{
		kalpha := []byte{'{', '}', 'x', 0}
		kmax := 5
		if env.Tier == "thorough" {
			kmax = 6
		}
		var kgen func(k []byte)
		kgen = func(k []byte) {
			for _, args := range [][]string{{"get", string(k)}, {"mget", "a", string(k)}, {"eval", "return 1", "1", string(k)}, {"mset", string(k), "v", "{" + string(k), "v"}} {
				rep.Execs++
				sched.Progress(nil)
				in := resp.Encode(resp.Cmd(args...))
				if s, d := c11downstream(p, in); s != "" {
					fail(s+" / key made of braces", d, c11case{Kind: "down", In: in})
				}
			}
			if len(k) == kmax {
				return
			}
			for _, c := range kalpha {
				kgen(append(k, c))
			}
		}
		kgen(make([]byte, 0, 8))
	}
	// non-bulk elements, nulls and nesting inside requests
	for _, raw := range []string{"*1\r\n:1\r\n", "*2\r\n$3\r\nget\r\n$-1\r\n", "*-1\r\n", "*0\r\n", "$-1\r\n", "*1\r\n*1\r\n$3\r\nget\r\n", "*2\r\n$4\r\nscan\r\n:0\r\n", "+OK\r\n", "-ERR x\r\n", ":5\r\n",
		"*2\r\n$4\r\nmget\r\n*0\r\n", "*3\r\n$4\r\neval\r\n$1\r\ns\r\n$-1\r\n", "*4\r\n$4\r\neval\r\n$1\r\ns\r\n$1\r\n1\r\n$-1\r\n", "*2\r\n$3\r\nGET\r\n$-1\r\n"} {
		rep.Execs++
		sched.Progress(nil)
		if s, d := c11downstream(p, []byte(raw)); s != "" {
			fail(s, d, c11case{Kind: "down", In: []byte(raw)})
		}
	}
	// length fields x truncations (the allocation for limit-sized bulk strings is large but declared)
	for _, typ := range []string{"$", "*"} {
		limit := int64(maxBulkStringLen)
		if typ == "*" {
			limit = maxArrayLen
		}
		for _, n := range []string{"-2", "-1", "0", "1", fmt.Sprint(limit - 1), fmt.Sprint(limit), fmt.Sprint(limit + 1), "9223372036854775807", "9223372036854775808", "99999999999999999999999", "-9223372036854775808", "+5", " 5", "5 ", "0x10", ""} {
			full := typ + n + "\r\nab\r\n"
			for cut := 1; cut <= len(full); cut++ {
				if typ == "$" && (n == fmt.Sprint(limit-1) || n == fmt.Sprint(limit)) && cut > len(typ+n)+2 && env.Tier != "thorough" && cut != len(full) {
					continue // each of these allocates 512 MiB; quick tier keeps one per length
				}
				rep.Execs++
				sched.Progress(nil)
				in := []byte(full[:cut])
				if s, d := c11downstream(p, in); s != "" {
					fail(s, d, c11case{Kind: "down", In: in})
				}
			}
		}
	}
	// the nesting limit must not depend on what was decoded before on the same connection
	prefixes := []string{"*-1\r\n", "$-1\r\n", "*0\r\n", "-ERR x\r\n", "*1\r\n*1\r\n*0\r\n", "*2\r\n*-1\r\n*-1\r\n", ":1\r\n"}
	for _, pre := range prefixes {
		for _, count := range []int{1, 3, 1500} {
			for _, depth := range []int{100, 127, 128, 129, 130, 1000, 1700} {
				rep.Execs++
				sched.Progress(nil)
				nest := strings.Repeat("*1\r\n", depth) + "$1\r\na\r\n"
				fresh := newDecoder(strings.NewReader(nest), 4096)
				_, ferr := fresh.Decode()
				d := newDecoder(strings.NewReader(strings.Repeat(pre, count)+nest), 4096)
				var derr error
				for i := 0; i < count && derr == nil; i++ {
					_, derr = d.Decode() // the prefix messages
				}
				if derr == nil {
					_, derr = d.Decode() // the nested message
				}
				if (ferr == nil) != (derr == nil) {
					fail("nesting-limit-depends-on-earlier-messages", fmt.Sprintf("%d x %q then nesting %d: fresh decoder err=%v, this decoder err=%v", count, pre, depth, ferr, derr), c11case{Kind: "down", In: []byte(strings.Repeat(pre, count) + nest)})
				}
			}
		}
	}
	// nesting depth and nested large arrays: isolated child
	depths := []int{1, 2, 8, 64, 1024, 100000, 1000000, 8000000}
	for _, d := range depths {
		rep.Execs++
		sched.Progress(nil)
		c := c11case{Kind: "nest", N: d}
		r := sched.RunIsolated("C11/inputs", c, 120*time.Second, 1536)
		if r.Sig != "" {
			fail("downstream nesting depth: "+r.Sig, fmt.Sprintf("'*1\\r\\n' x %d: %s", d, r.Detail), c)
		}
	}
	for _, d := range []int{2, 8, 40} {
		rep.Execs++
		sched.Progress(nil)
		c := c11case{Kind: "nestbig", N: d}
		// declared: d arrays of 2^20 elements; a flat message may declare one such array (56 MiB of slots)
		r := sched.RunIsolated("C11/inputs", c, 120*time.Second, 256+4*64)
		if r.Sig != "" {
			fail("downstream nested maximum-length arrays: "+r.Sig, fmt.Sprintf("'*1048576\\r\\n' x %d: %s", d, r.Detail), c)
		}
	}
	// long runs of one short unit (empty lines, blanks, empty or null messages): stack and memory must not grow
	// with the length of the run; isolated child with a 64 MiB stack limit
	for _, unit := range []string{"\r\n", " \r\n", "\n", " ", "\r", "*0\r\n", "*-1\r\n", "$-1\r\n", "+\r\n", ":\r\n", "$0\r\n\r\n", "*1\r\n$0\r\n\r\n", "a\r\n"} {
		for _, n := range []int{10, 10000, 4000000} {
			rep.Execs++
			sched.Progress(nil)
			c := c11case{Kind: "repeat", Text: unit, N: n}
			r := sched.RunIsolated("C11/inputs", c, 120*time.Second, 1536)
			if r.Sig != "" {
				fail("downstream long run of one unit: "+r.Sig, fmt.Sprintf("%q x %d: %s", unit, n, r.Detail), c)
			}
		}
	}
	rep.Distinct = rep.Execs
	rep.Rule = "distinct byte strings / structured inputs; every one is run through the real decoder and dispatch"
	rep.CustomSamples = []interface{}{"*1\\r\\n$a", "$-2\\r\\n", "*1\\r\\n x 1000000", "scan 18446744073709551616"}
	return rep
}

func c11child(in json.RawMessage) string {
	var c c11case
	json.Unmarshal(in, &c)
	switch c.Kind {
	case "nest", "nestbig":
		unit := "*1\r\n"
		if c.Kind == "nestbig" {
			unit = "*1048576\r\n"
		}
		data := strings.Repeat(unit, c.N) + "$1\r\na\r\n"
		// backend side too: a reply is decoded by the same decoder
		for _, buf := range []int{4096, 8192} {
			d := newDecoder(strings.NewReader(data), buf)
			v, err := d.Decode()
			if err == nil && c.Kind == "nest" {
				// encoding the value back must not blow up either
				e := newEncoder(io.Discard, 8192)
				e.Encode(v)
				p := c11proc()
				req := newRawRequest(v)
				p.handleRequest(req)
			}
		}
	case "slotrange":
		parseClusterNodes(c.Text)
	case "repeat":
		debug.SetMaxStack(64 << 20)
		data := strings.Repeat(c.Text, c.N) + "*1\r\n$4\r\nPING\r\n"
		for _, buf := range []int{4096, 8192} {
			d := newDecoder(strings.NewReader(data), buf)
			p := c11proc()
			for {
				v, err := d.Decode()
				if err != nil {
					break
				}
				p.handleRequest(newRawRequest(v))
			}
		}
	}
	return ""
}

// ---- backend side -----------------------------------------------------------

func c11backend(env sched.Env) *sched.Report {
	rep := &sched.Report{Outcomes: map[string]int64{}, Complete: true}
	sigs := map[string]bool{}
	fail := func(sig, detail string, c c11case) {
		rep.Outcomes["violation: "+sig]++
		if !sigs[sig] {
			sigs[sig] = true
			rep.Violations = append(rep.Violations, sched.CustomViolation("C11/backend", sig, detail, c))
		}
	}
	// (1) redirection / cluster-down error texts through the real callbacks
	var texts []string
	toks := []string{"10.0.9.9:1", "", "x", ":", "1"}
	// "\u017f" (long s) and "\u212a" (Kelvin sign) fold to s and k under Unicode case folding
	for _, head := range []string{"MOVED", "ASK", "CLUSTERDOWN", "moved", "Ask", "MOVEDX", "ERR", "A\u017fK", "AS\u212a", "a\u017f\u212a", "CLU\u017fTERDOWN", "ASKING"} {
		texts = append(texts, head, head+" ")
		for _, a := range toks {
			texts = append(texts, head+" "+a)
			for _, b := range toks {
				texts = append(texts, head+" "+a+" "+b)
				for _, c := range toks[:3] {
					texts = append(texts, head+" "+a+" "+b+" "+c)
				}
			}
		}
	}
	for ti, text := range texts {
		if ti%env.NShards != env.Shard {
			continue
		}
		rep.Execs++
		sched.Progress(nil)
		c := c11case{Kind: "errtext", Text: text}
		sched.Progress(c)
		if s, d := c11errText(text); s != "" {
			fail(s, d, c)
		}
	}
	if env.Shard != 0 {
		rep.Distinct = rep.Execs
		return rep
	}
	// (2) CLUSTER NODES texts
	var lines []string
	ids := []string{"a", "b"}
	addrs := []string{"h:1", "h:1@2", "h", ":", ""}
	masters := []string{"-", "a", "b", "z"}
	slots := []string{"", "5", "0-5", "5-0", "x", "-", "[5->-a]", "99999", "-1", "1-2-3", "16383", "16384", "16380-16384"}
	for _, id := range ids {
		for _, ad := range addrs {
			for _, m := range masters {
				for _, sl := range slots {
					l := fmt.Sprintf("%s %s flags %s 0 0 1 connected", id, ad, m)
					if sl != "" {
						l += " " + sl
					}
					lines = append(lines, l)
				}
			}
		}
	}
	for nf := 0; nf <= 9; nf++ {
		lines = append(lines, strings.TrimSpace(strings.Repeat("f ", nf)))
	}
	lines = append(lines, "a h:1 myself,master - 0 0 1 connected 0-16383", "b h:2 slave a 0 0 1 connected", "c h:3 slave b 0 0 1 connected", "a h:1 master a 0 0 1 connected")
	tryNodes := func(text string) {
		for _, rev := range []bool{false, true} {
			rep.Execs++
			sched.Progress(nil)
			c := c11case{Kind: "nodes", Text: text, Rev: rev}
			if s, d := c11nodes(text, rev); s != "" {
				fail(s, d, c)
			}
		}
	}
	for _, l1 := range lines {
		tryNodes(l1)
		tryNodes(l1 + "\n")
		for _, l2 := range lines {
			tryNodes(l1 + "\n" + l2 + "\n")
		}
	}
	short := lines[len(lines)-14:]
	for _, l1 := range short {
		for _, l2 := range short {
			for _, l3 := range short {
				tryNodes(l1 + "\n" + l2 + "\n" + l3)
			}
		}
	}
	// the real refresh (request to a node, parse, table update) with boundary slot fields
	stoks := []string{"0", "16383", "16384", "16385", "-1", "-0", "65536", "0-16383", "0-16384", "16383-16384", "16384-16385", "16384-16384", "-1-0", "4294967296", "9223372036854775807"}
	var stexts []string
	for _, a := range stoks {
		stexts = append(stexts, "a h:1 myself,master - 0 0 1 connected "+a)
		for _, b := range stoks {
			stexts = append(stexts, "a h:1 myself,master - 0 0 1 connected "+a+" "+b, "a h:1 myself,master - 0 0 1 connected "+a+"\nb h:2 master - 0 0 1 connected "+b)
		}
	}
	// layouts in which a slot-owning master ends up without replicas, or with replicas only
	stexts = append(stexts,
		"a h:1 myself,master - 0 0 1 connected 0-16383",
		"a h:1 myself,master - 0 0 1 connected 0-16383\nb h:2 slave z 0 0 1 connected",
		"a h:1 myself,master - 0 0 1 connected 0-16383\nb h:1 slave a 0 0 1 connected",
		"a h:1 myself,master - 0 0 1 connected 0-8191\nc h:1 master - 0 0 2 connected 8192-16383\nb h:1 slave a 0 0 1 connected")
	for _, text := range stexts {
		rep.Execs++
		sched.Progress(nil)
		c := c11case{Kind: "nodes-refresh", Text: text}
		if s, d := c11nodesRefresh(text); s != "" {
			fail(s, d, c)
		}
	}
	for _, rng := range []string{"0-99999999999", "-5-99999999999", "0-9223372036854775807"} {
		rep.Execs++
		sched.Progress(nil)
		c := c11case{Kind: "slotrange", Text: "a h:1 master - 0 0 1 connected " + rng + "\n"}
		r := sched.RunIsolated("C11/inputs", c, 60*time.Second, 512)
		if r.Sig != "" {
			fail("cluster nodes slot range: "+r.Sig, fmt.Sprintf("slot field %q: %s", rng, r.Detail), c)
		}
	}
	// (3) SCAN reply shapes through the scan hook
	shapes := []resp.Value{resp.Array(), resp.Array(resp.BulkS("5")), resp.BulkS("5"), resp.Int(5), resp.Err("ERR x"), resp.Simple("OK"), resp.NullArray(), resp.NullBulk(),
		resp.Array(resp.Int(5), resp.Array()), resp.Array(resp.Array(), resp.Array()), resp.Array(resp.NullBulk(), resp.Array()), resp.Array(resp.BulkS("x"), resp.Array()),
		resp.Array(resp.BulkS("-1"), resp.Array()), resp.Array(resp.BulkS("18446744073709551616"), resp.Array()), resp.Array(resp.BulkS("281474976710656"), resp.Array()),
		resp.Array(resp.BulkS("5"), resp.BulkS("notarray")), resp.Array(resp.BulkS("5"), resp.Array(resp.Array(resp.BulkS("n")))), resp.Array(resp.BulkS("0"), resp.Array(), resp.BulkS("extra"))}
	for _, sh := range shapes {
		rep.Execs++
		sched.Progress(nil)
		c := c11case{Kind: "scan", In: resp.Encode(sh)}
		if s, d := c11scanShape(sh); s != "" {
			fail(s, d, c)
		}
	}
	// (4) values a backend may hold that look like the beginning of a compressed frame, returned to read commands
	// through the decompression hook (which is registered whether or not compression is configured)
	hdr := "(P$\x00\r\n"
	var vals []string
	for i := 0; i <= len(hdr); i++ {
		vals = append(vals, hdr[:i], hdr[:i]+"x")
	}
	vals = append(vals, "(P$\x01\r\n", "(P$\xff\r\nabc", hdr+"\xff\x06\x00\x00sNaPpY", hdr+"\xff\x06\x00\x00sNaPpY\x00", hdr+hdr)
	for _, cps := range []*pbredis.Compression{nil, c13cps(true, 8), c13cps(false, 8)} {
		for _, v := range vals {
			for _, shape := range []string{"get", "hgetall", "mget"} {
				rep.Execs++
				sched.Progress(nil)
				c := c11case{Kind: "framelike", Text: v, Rev: cps != nil && cps.Enable}
				func() {
					defer func() {
						if r := recover(); r != nil {
							fail("panic / frame-like value returned by a backend / "+panicPlace(), fmt.Sprintf("reply value %q to %s: %v", v, shape, r), c)
						}
					}()
					chain := newRequestFilterChain()
					chain.AddFilter(newCompressFilter(vfConfig(0, cps)))
					var req *simpleRequest
					var reply *RespValue
					switch shape {
					case "get":
						req, reply = newSimpleRequest(newStringArray("get", "k")), newBulkBytes([]byte(v))
					case "hgetall":
						req, reply = newSimpleRequest(newStringArray("hgetall", "k")), newArray(*newBulkString("f"), *newBulkBytes([]byte(v)))
					case "mget":
						req, reply = newSimpleRequest(newStringArray("get", "k")), newArray(*newBulkBytes([]byte(v)), *newBulkBytes(nil))
					}
					chain.Do(req)
					req.SetResponse(reply)
				}()
			}
		}
	}
	rep.Distinct = rep.Execs
	rep.Rule = "distinct backend reply texts/shapes, each run through the real handler/parser (CLUSTER NODES texts under both map iteration orders)"
	rep.CustomSamples = []interface{}{"-MOVED 1", "b h:1 flags z 0 0 1 connected (replica of an unlisted master)", "SCAN reply *0"}
	return rep
}

// c11errText: an error reply with this text answers a forwarded request.
func c11errText(text string) (sig, detail string) {
	body := func() {
		cl := cluster.New(1, 0, 1)
		s := vfStartStack(cl, vfSvcConfig(0, nil, 0))
		c := s.NewClient("c0")
		k := cl.KeyInGroup("k", 0, 0)
		cl.Nodes[0].BadReplies = map[string][]byte{"get": resp.Encode(resp.Err(text))}
		got, err := c.Do("GET", k)
		sched.WaitQuiescent()
		if err != nil {
			sched.Fail("downstream-connection-lost / backend error text", err.Error())
		}
		if got.Kind != '-' {
			sched.Fail("unexpected-reply / backend error text", got.String())
		}
		// the proxy still serves
		cl.Nodes[0].BadReplies = nil
		c2 := s.NewClient("c1")
		if v, err := c2.Do("SET", k, "1"); err != nil || !resp.Equal(v, resp.Simple("OK")) {
			sched.Fail("other-connection-not-served / after backend error text", fmt.Sprintf("%v %v", v, err))
		}
	}
	e := sched.RunOnce(nil, sched.Options{MaxSteps: 100000}, body)
	for _, f := range e.Failures {
		sig, detail = f.Sig, fmt.Sprintf("backend answered -%q: %s", text, f.Detail)
		if strings.HasPrefix(sig, "panic") {
			sig = c11errClass(text) + " / " + sig
		}
	}
	if sig == "" && e.EndWhy != "main-returned" {
		sig, detail = "execution-ended-"+e.EndWhy+" / "+c11errClass(text), text
	}
	return
}

func c11errClass(text string) string {
	f := strings.Fields(text)
	head := "other"
	if len(f) > 0 {
		head = strings.ToUpper(f[0])
	}
	return fmt.Sprintf("%s with %d tokens", head, len(strings.Split(text, " ")))
}

func c11nodes(text string, rev bool) (sig, detail string) {
	defer func() {
		sched.FreeMapReverse = false
		if r := recover(); r != nil {
			sig, detail = "panic / CLUSTER NODES text / "+c11nodesClass(text), fmt.Sprintf("text %q (reversed map order=%v): %v", text, rev, r)
		}
	}()
	sched.FreeMapReverse = rev
	insts, err := parseClusterNodes(text)
	if err != nil {
		return "", ""
	}
	var slots [slotNum]*instance
	for _, inst := range insts {
		for _, slot := range inst.Slots {
			if slot < 0 || slot >= slotNum {
				continue
			}
			slots[slot] = inst
		}
		for _, r := range inst.Replicas {
			_ = r.Addr
		}
	}
	return "", ""
}

// c11nodesRefresh lets the real slot refresh of a started proxy receive text as the CLUSTER NODES answer, under
// each read strategy, and then routes a read and a write for a key of every 1024th slot.
func c11nodesRefresh(text string) (sig, detail string) {
	for strat := 0; strat < 3; strat++ {
		e := sched.RunOnce(nil, sched.Options{MaxSteps: 400000}, func() {
			cl := cluster.New(1, 0, 1)
			cl.Nodes[0].Addr = "h:1"
			s := vfStartStack(cl, vfSvcConfig(pbredis.ReadStrategy(strat), nil, 0))
			cl.NodesTextOverride = text
			sched.AdvanceTime(int64(slotsRefFreq) + 1)
			sched.WaitQuiescent()
			s.RefreshRound()
			c := s.NewClient("c0")
			for _, k := range []string{"a", "b", "key:17", "{x}y"} {
				for _, args := range [][]string{{"GET", k}, {"SET", k, "v"}} {
					if _, err := c.Do(args...); err != nil {
						sched.Fail("proxy-stopped-serving / after a CLUSTER NODES answer", err.Error())
						return
					}
				}
			}
			if _, err := c.Do("PING"); err != nil {
				sched.Fail("proxy-stopped-serving / after a CLUSTER NODES answer", err.Error())
			}
		})
		for _, f := range e.Failures {
			return f.Sig + " / CLUSTER NODES answer with boundary slot fields", fmt.Sprintf("strategy %s, text %q: %s", pbredis.ReadStrategy(strat), text, f.Detail)
		}
	}
	return "", ""
}

func c11nodesClass(text string) string {
	switch {
	case strings.Contains(text, " z ") || true:
		return "replica of an unlisted master"
	case strings.Contains(text, "slave"):
		return "replica chain"
	}
	return "other"
}

func c11scanShape(sh resp.Value) (sig, detail string) {
	defer func() {
		if r := recover(); r != nil {
			sig, detail = "panic / SCAN reply shape", fmt.Sprintf("reply %s: %v", sh, r)
		}
	}()
	raw := newRawRequest(newStringArray("scan", "0"))
	sr, err := newScanRequest(raw)
	if err != nil {
		return "harness", err.Error()
	}
	_, sreq := sr.Convert()
	sreq.SetResponse(fromSim(sh))
	select {
	case <-raw.done:
	default:
		return "request-without-reply / SCAN reply shape", sh.String()
	}
	return "", ""
}

// ---- end to end ---------------------------------------------------------------

var c11e2eFamilies = []string{"moved-1-token", "scan-empty-array", "nodes-unlisted-master", "nodes-zero-fields", "readonly-answered-with-array", "garbage-reply-bytes", "huge-bulk-length-reply"}

func c11e2eBody() {
	fam := c11e2eFamilies[sched.Choose(sched.ClsInput, len(c11e2eFamilies), "family")]
	cl := cluster.New(2, 0, 2)
	s := vfStartStack(cl, vfSvcConfig(0, nil, 0))
	good := s.NewClient("good")
	k0, k1 := cl.KeyInGroup("k", 0, 0), cl.KeyInGroup("k", 1, 0)
	good.Do("SET", k1, "v")
	bad := s.NewClient("bad")
	n0 := cl.Nodes[0]
	var got resp.Value
	var err error
	switch fam {
	case "moved-1-token":
		n0.BadReplies = map[string][]byte{"get": []byte("-MOVED 1\r\n")}
		got, err = bad.Do("GET", k0)
	case "scan-empty-array":
		for _, n := range cl.Nodes {
			n.BadReplies = map[string][]byte{"scan": []byte("*0\r\n")}
		}
		got, err = bad.Do("SCAN", "0")
	case "nodes-unlisted-master":
		cl.NodesTextOverride = "a 10.0.1.1:6379 master - 0 0 1 connected 0-16383\nb 10.0.2.1:6379 slave zzz 0 0 1 connected\n"
		s.p.u.triggerSlotsRefresh()
		sched.WaitQuiescent()
		got, err = bad.Do("GET", k0)
	case "nodes-zero-fields":
		cl.NodesTextOverride = "\n\n \n"
		s.p.u.triggerSlotsRefresh()
		sched.WaitQuiescent()
		got, err = bad.Do("GET", k0)
	case "readonly-answered-with-array":
		n0.BadReplies = map[string][]byte{"readonly": []byte("*2\r\n:1\r\n*0\r\n")}
		n0.ResetConns()
		sched.WaitQuiescent()
		got, err = bad.Do("GET", k0)
	case "garbage-reply-bytes":
		n0.BadReplies = map[string][]byte{"get": []byte("!!garbage\r\n")}
		got, err = bad.Do("GET", k0)
	case "huge-bulk-length-reply":
		n0.BadReplies = map[string][]byte{"get": []byte("$99999999999\r\nx\r\n")}
		got, err = bad.Do("GET", k0)
	}
	sched.WaitQuiescent()
	_ = got
	_ = err
	for _, n := range cl.Nodes {
		n.BadReplies = nil
	}
	cl.NodesTextOverride = ""
	v, gerr := good.Do("GET", k1)
	if gerr != nil || !resp.Equal(v, resp.BulkS("v")) {
		sched.Fail("other-connection-not-served / "+fam, fmt.Sprintf("GET on the well-behaved connection: %s %v", v, gerr))
	}
	sched.SetOutcome(fam + " bad=" + string(got.Kind))
}

func init() {
	sched.Register(&sched.Scenario{Name: "C11/inputs", Custom: c11inputs, Child: c11child, ReplayCustom: func(in json.RawMessage) []sched.Failure {
		var c c11case
		json.Unmarshal(in, &c)
		switch c.Kind {
		case "down":
			if s, d := c11downstream(c11proc(), c.In); s != "" {
				return []sched.Failure{{Sig: s, Detail: d}}
			}
		case "nest", "nestbig", "slotrange", "repeat":
			r := sched.RunIsolated("C11/inputs", c, 120*time.Second, 1536)
			fmt.Println(r.Sig, r.Detail)
			if r.Sig != "" {
				pre := map[string]string{"nest": "downstream nesting depth: ", "nestbig": "downstream nested maximum-length arrays: ", "slotrange": "cluster nodes slot range: ", "repeat": "downstream long run of one unit: "}[c.Kind]
				return []sched.Failure{{Sig: pre + r.Sig, Detail: r.Detail}}
			}
		}
		return nil
	}})
	sched.Register(&sched.Scenario{Name: "C11/backend", Custom: c11backend, ReplayCustom: func(in json.RawMessage) []sched.Failure {
		var c c11case
		json.Unmarshal(in, &c)
		var s, d string
		switch c.Kind {
		case "errtext":
			s, d = c11errText(c.Text)
		case "nodes":
			s, d = c11nodes(c.Text, c.Rev)
		case "nodes-refresh":
			s, d = c11nodesRefresh(c.Text)
		case "scan":
			vs, _, _ := resp.DecodeAll(c.In)
			if len(vs) == 1 {
				s, d = c11scanShape(vs[0])
			}
		case "slotrange":
			r := sched.RunIsolated("C11/inputs", c, 60*time.Second, 512)
			if r.Sig != "" {
				s, d = "cluster nodes slot range: "+r.Sig, r.Detail
			}
		}
		fmt.Println(s, d)
		if s == "" {
			return nil
		}
		return []sched.Failure{{Sig: s, Detail: d}}
	}})
	sched.Register(&sched.Scenario{Name: "C11/end-to-end", Setup: func(tier string) (sched.Config, func()) {
		b := sched.Bounds{F: 1}
		if tier == "thorough" {
			b = sched.Bounds{P: 1, F: 1, Env: 1}
		}
		return sched.Config{Bounds: b, Iterative: true, MaxSteps: 100000}, c11e2eBody
	}})
}

// ---------------------------------------------------------------------------
// C11 (I) every supported command with every argument shape through the whole stack (session, handlers, backend
// clients and their filters, mini cluster), with transparent compression off and on (the compression filter
// inspects and rewrites requests on their way to the backend).
// oracle    no goroutine of the proxy panics; every request gets exactly one reply; a second connection is still served
// ---------------------------------------------------------------------------

func c11throughBody() {
	compress := sched.Choose(sched.ClsInput, 2, "compression") == 1
	part := sched.Choose(sched.ClsInput, 4, "part")
	cl := cluster.New(2, 0, 2)
	var cps *pbredis.Compression
	if compress {
		cps = c13cps(true, 8)
	}
	s := vfStartStack(cl, vfSvcConfig(0, cps, 0))
	good := s.NewClient("good")
	k1 := cl.KeyInGroup("k", 1, 0)
	good.Do("SET", k1, "v")
	bad := s.NewClient("bad")
	big := strings.Repeat("z", 100)
	argsets := [][]string{{}, {""}, {"0"}, {"x"}, {"k", "v"}, {"k", big}, {"k", "1", "v"}, {"k", "1", big}, {"k", "f"}, {"k", "f", big}, {"k", "f", big, "g"}, {"s", "1", "k"}, {"0", "MATCH"}, {"k", "v", "k2"}, {"k", "10"}}
	names := []string{"scan", "eval", "mset", "mget", "del", "exists", "touch", "unlink"}
	names = append(names, simpleCommands...)
	sort.Strings(names)
	n := 0
	for ni, name := range names {
		if ni%4 != part {
			continue
		}
		for _, as := range argsets {
			n++
			args := append([]string{name}, as...)
			if err := bad.Send(resp.Encode(resp.Cmd(args...))); err != nil {
				sched.Fail("connection-closed-by-proxy / "+name, fmt.Sprintf("compression=%v, before %q: %v", compress, args, err))
				return
			}
			sched.WaitQuiescent()
			rs, _ := bad.Pending()
			if len(rs) != 1 {
				sched.Fail("not-exactly-one-reply / request through the whole stack", fmt.Sprintf("compression=%v, %q (%d arguments): %d replies", compress, name, len(as), len(rs)))
				return
			}
		}
	}
	v, gerr := good.Do("GET", k1)
	if gerr != nil || !resp.Equal(v, resp.BulkS("v")) {
		sched.Fail("other-connection-not-served / after odd requests", fmt.Sprintf("compression=%v: GET on the well-behaved connection: %s %v", compress, v, gerr))
	}
	sched.SetOutcome(fmt.Sprintf("compression=%v part=%d requests=%d", compress, part, n))
}

func init() {
	sched.Register(&sched.Scenario{Name: "C11/through-the-stack", Setup: func(tier string) (sched.Config, func()) {
		return sched.Config{Bounds: sched.Bounds{}, Iterative: true, MaxSteps: 4000000}, c11throughBody
	}})
}
