//go:build go1.21

package redis

import (
	"fmt"

	"github.com/samaritan-proxy/samaritan/verifrt/sched"
	"github.com/samaritan-proxy/samaritan/verifrt/sim/cluster"
	"github.com/samaritan-proxy/samaritan/verifrt/sim/resp"
	"github.com/samaritan-proxy/samaritan/verifrt/vrand"
)

// ---------------------------------------------------------------------------
// C03 (S): requests of two connections while the periodic slot refresh runs; the slot layout never changes.
//
// alphabet  connection 0: SET k0, GET k0, GET k1 pipelined; connection 1: MGET k1 k0; the refresh (virtual
//           2-minute timer) is started at the same moment, the requests are issued immediately or when the refresh
//           thread arrives at its 1st/2nd/3rd statement touching the slot table; the table is read and written without
//           synchronisation by design, so every statement touching it is a scheduling point of its own
// bound     P, F, Sel (see Setup)
// oracle    replies equal the single-server replies; the nodes never answer MOVED/ASK (the routing table is
//           loaded and the layout does not change)
// ---------------------------------------------------------------------------

func c03refreshConcurrentBody() {
	vrand.Fair()
	for i := sched.Choose(sched.ClsInput, 2, "rotation of the random host picks"); i > 0; i-- {
		vrand.Intn(2)
	}
	cl := cluster.New(2, 0, 2)
	s := vfStartStack(cl, vfSvcConfig(0, nil, 0))
	c0, c1 := s.NewClient("c0"), s.NewClient("c1")
	k0, k1 := cl.KeyInGroup("k", 0, 0), cl.KeyInGroup("k", 1, 0)
	for _, args := range [][]string{{"SET", k0, "a"}, {"SET", k1, "b"}} {
		c0.Do(args...)
		refExec(s.ref, args)
	}
	sched.WaitQuiescent()
	s.RefreshRound()
	mark := len(cl.Log)
	// the requests are issued right away, or when the refresh thread arrives at its k-th statement touching the
	// slot table (it is parked in front of that statement then), or after the refresh if there is no k-th one
	k := sched.Choose(sched.ClsInput, 4, "requests arrive at the k-th table access of the refresh")
	before, base := s.p.u.slotsLastUpdateTime, sched.AccessCount("upstream.slots")
	sched.AdvanceTime(int64(slotsRefFreq) + 1) // the periodic refresh becomes runnable
	if k > 0 {
		sched.Wait("refresh-reaches-table-access", nil, func() bool {
			return sched.AccessCount("upstream.slots") >= base+k || !s.p.u.slotsLastUpdateTime.Equal(before)
		})
	}
	p0 := [][]string{{"SET", k0, "v2"}, {"GET", k0}, {"GET", k1}}
	p1 := [][]string{{"MGET", k1, k0}}
	var raw0, raw1 []byte
	for _, a := range p0 {
		raw0 = append(raw0, resp.Encode(resp.Cmd(a...))...)
	}
	for _, a := range p1 {
		raw1 = append(raw1, resp.Encode(resp.Cmd(a...))...)
	}
	c0.Send(raw0)
	sched.WaitQuiescent()
	c1.Send(raw1)
	sched.WaitQuiescent()
	r0, _ := c0.Pending()
	r1, _ := c1.Pending()
	if len(r0) != len(p0) || len(r1) != len(p1) {
		sched.Fail("reply-missing / request during a slot refresh", fmt.Sprintf("connection 0 got %v, connection 1 got %v", r0, r1))
		return
	}
	for i, a := range p0 {
		if want := refExec(s.ref, a); !resp.Equal(r0[i], want) {
			sched.Fail("reply-differs-from-single-server / request during a slot refresh", fmt.Sprintf("%s replied %s, a single server replies %s (all replies %v)", vfFmtCmd(a), r0[i], want, r0))
		}
	}
	if want := refExec(s.ref, p1[0]); !resp.Equal(r1[0], want) {
		sched.Fail("reply-differs-from-single-server / request during a slot refresh", fmt.Sprintf("%s replied %s, a single server replies %s", vfFmtCmd(p1[0]), r1[0], want))
	}
	if r := cl.Redirects(mark); r > 0 {
		sched.Fail("redirection-although-layout-unchanged / request during a slot refresh", fmt.Sprintf("%d commands were answered MOVED/ASK by the nodes although the routing table was loaded and the layout never changed", r))
	}
	sched.SetOutcome("ok")
}

func init() {
	sched.Register(&sched.Scenario{Name: "C03/refresh-concurrent", Setup: func(tier string) (sched.Config, func()) {
		b := sched.Bounds{P: 1, F: 1}
		if tier == "thorough" {
			b = sched.Bounds{P: 2, F: 2, Sel: 1}
		}
		return sched.Config{Bounds: b, Iterative: true, MaxSteps: 100000}, c03refreshConcurrentBody
	}})
}
