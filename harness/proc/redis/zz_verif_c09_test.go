//go:build go1.21

package redis

import (
	"fmt"
	"strings"
	"time"

	"github.com/samaritan-proxy/samaritan/host"

	"github.com/samaritan-proxy/samaritan/proc"
	"github.com/samaritan-proxy/samaritan/verifrt/sched"
	"github.com/samaritan-proxy/samaritan/verifrt/sim/cluster"
	"github.com/samaritan-proxy/samaritan/verifrt/sim/resp"
	"github.com/samaritan-proxy/samaritan/verifrt/vnet"
)

// ---------------------------------------------------------------------------
// C09 (S) redis processor stop: the real redisProc with its real listener on the virtual network.
//
// alphabet  backend responsive | silent | closes its connections ; session idle | request in flight |
//           no session ; cold start with a silent seed (Stop during the initial slot refresh) ; an endpoint is
//           removed while the periodic hot-key collection runs, then Stop ; Stop while the first connect to a
//           backend is still in progress (it completes afterwards)   (INPUT)
// bound     P, F, Sel (see Setup)
// oracle    Stop returns; afterwards the port is closed, every downstream and upstream connection is closed
//           and no goroutine of the processor is left
// ---------------------------------------------------------------------------

const c09redisAddr = "127.0.0.1:6400"

func c09redisBody() {
	backend := []string{"responsive", "silent", "closes"}[sched.Choose(sched.ClsInput, 3, "backend")]
	state := []string{"idle-session", "request-in-flight", "no-session", "cold-start", "connect-in-flight", "after-periodic-refresh"}[sched.Choose(sched.ClsInput, 6, "state")]
	c09redis(backend, state)
}

// the same processor; an endpoint is removed (its backend client is stopped, which takes several hand-overs
// between the client's goroutines) while the periodic hot-key collection round runs, then Stop.
func c09redisCollectBody() { c09redis("responsive", "host-removed-during-collect") }

func c09redis(backend, state string) {
	restore := proc.VerifSetListenFunc(vnet.Listen)
	sched.OnReset(restore)
	cl := cluster.New(2, 0, 2)
	cl.Start()
	if (state == "cold-start" || state == "connect-in-flight") && backend != "responsive" {
		for _, n := range cl.Nodes {
			n.Silent = true
		}
	}
	if state == "connect-in-flight" {
		vnet.HoldDials(true) // the first connect to a backend takes its time; Stop arrives meanwhile
	}
	seeds := []string{cl.Nodes[0].Addr, cl.Nodes[1].Addr}
	p := vfNewProc(vfSvcConfig(0, nil, 0), seeds...)
	p.Start()
	var c *vnet.VConn
	if state != "cold-start" && state != "connect-in-flight" {
		sched.WaitQuiescent()
		sched.AdvanceTime(int64(slotsRefMinRate) + 1)
		sched.WaitQuiescent()
	}
	if state == "connect-in-flight" {
		sched.WaitQuiescent()
	}
	k := cl.KeyInGroup("k", 0, 0)
	if state == "after-periodic-refresh" {
		// the service has been running quietly for longer than the refresh period: the timer-driven refresh ran
		sched.AdvanceTime(int64(slotsRefFreq) + 1)
		sched.WaitQuiescent()
		sched.AdvanceTime(int64(slotsRefMinRate) + 1)
		sched.WaitQuiescent()
	}
	if state == "idle-session" || state == "request-in-flight" || state == "host-removed-during-collect" || state == "after-periodic-refresh" {
		var err error
		c, err = vnet.DialConn(c09redisAddr)
		if err != nil {
			sched.Fail("harness-dial", err.Error())
		}
		c.Label = "client"
		c.Write(resp.Encode(resp.Cmd("SET", k, "1")))
		sched.WaitQuiescent()
		switch backend {
		case "silent":
			for _, n := range cl.Nodes {
				n.Silent = true
			}
		case "closes":
			for _, n := range cl.Nodes {
				n.CloseConns()
			}
		}
		if state == "request-in-flight" {
			c.Write(resp.Encode(resp.Cmd("GET", k)))
		}
	}
	if state == "host-removed-during-collect" {
		// an endpoint leaves the service (its backend client is stopped) while the periodic hot-key
		// collection round is running
		removed := false
		cli := p.u.loadClients()[cl.Nodes[0].Addr]
		sched.GoNamed("endpoint-remover", func() { p.OnSvcHostRemove([]*host.Host{host.New(cl.Nodes[0].Addr)}); removed = true })
		if cli != nil {
			// the collection tick arrives when the backend client's goroutines have ended, i.e. right before the
			// client releases its hot-key counter (the narrow driver: no delay budget is spent on getting there)
			sched.Wait("backend-client-ended", cli, func() bool {
				select {
				case <-cli.done:
					return true
				default:
					return false
				}
			})
		}
		sched.AdvanceTime(int64(11 * time.Second))
		sched.WaitQuiescent()
		if !removed {
			sched.Fail("host-removal-never-returns / redis", "OnSvcHostRemove called while the hot-key collector runs did not return")
		}
	}
	stopped := false
	sched.GoNamed("stopper", func() { p.Stop(); stopped = true })
	sched.WaitQuiescent()
	if state == "connect-in-flight" {
		vnet.HoldDials(false) // the connect completes now
		sched.WaitQuiescent()
	}
	tag := fmt.Sprintf("backend=%s state=%s", backend, state)
	if !stopped {
		var who []string
		for _, b := range sched.LiveNonServer() {
			who = append(who, b.Name+":"+b.Kind)
		}
		sched.Fail(fmt.Sprintf("redis-stop-never-returns / backend %s / %s", backend, state), fmt.Sprintf("%s; threads left: %s", tag, strings.Join(who, ", ")))
	}
	if vnet.Bound(c09redisAddr) {
		sched.Fail("listening-socket-left-open-after-stop / redis", tag)
	}
	for _, vc := range vnet.Conns() {
		mine := vc.Label == "" || strings.HasPrefix(vc.Label, "proxy") // proxy side ends: accepted downstream conns and dialled upstream conns
		if strings.HasPrefix(vc.Label, "node-") || vc.Label == "client" {
			mine = false
		}
		if mine && !vc.IsClosed() && !vc.WasReset() {
			sched.Fail("connection-left-open-after-stop / redis", fmt.Sprintf("%s: %s", tag, vc))
		}
	}
	for _, b := range sched.LiveNonServer() {
		sched.Fail("goroutine-left-after-stop / redis / "+b.Name, fmt.Sprintf("%s: %s parked in %s", tag, b.Name, b.Kind))
	}
	sched.SetOutcome(tag)
}

func init() {
	sched.Register(&sched.Scenario{Name: "C09/redis-collect", Setup: func(tier string) (sched.Config, func()) {
		b := sched.Bounds{P: 1, F: 1, Sel: 1}
		if tier == "thorough" {
			b = sched.Bounds{P: 2, F: 2, Sel: 1}
		}
		return sched.Config{Bounds: b, Iterative: true, MaxSteps: 100000}, c09redisCollectBody
	}})
	sched.Register(&sched.Scenario{Name: "C09/redis-stop", Setup: func(tier string) (sched.Config, func()) {
		b := sched.Bounds{P: 1, F: 1, Sel: 1}
		if tier == "thorough" {
			b = sched.Bounds{P: 2, F: 2, Sel: 1}
		}
		return sched.Config{Bounds: b, Iterative: true, MaxSteps: 100000}, c09redisBody
	}})
}
