//go:build go1.21

package redis

import (
	"encoding/json"
	"fmt"
	"strconv"

	"github.com/samaritan-proxy/samaritan/verifrt/sched"
	vsync "github.com/samaritan-proxy/samaritan/verifrt/vsync"
)

// ---------------------------------------------------------------------------
// C12 (I): the slot the real routing code uses (upstream.chooseHost over a table
// that maps slot i to an instance named i) against CRC16/XMODEM + hash-tag rule
// written from the Redis Cluster specification.
//
// alphabet  (1) every key of length 0..2; (2) every key of length 3 = every CRC state x every next
//           byte (induction step for all lengths); (3) keys of length 4..64 with two positions
//           ranging over all 256^2 values; (4) every string over {'{','}',a,b} up to length 9/11;
//           (5) tag sharing
// oracle    bitwise CRC16 (poly 0x1021, init 0), tag = between first '{' and first '}' after it if non-empty
// ---------------------------------------------------------------------------

func refCRC16(b []byte) uint16 {
	var crc uint16
	for _, c := range b {
		crc ^= uint16(c) << 8
		for i := 0; i < 8; i++ {
			if crc&0x8000 != 0 {
				crc = crc<<1 ^ 0x1021
			} else {
				crc <<= 1
			}
		}
	}
	return crc
}

func refSlot(key []byte) int {
	s := -1
	for i, c := range key {
		if c == '{' {
			s = i
			break
		}
	}
	if s >= 0 {
		for j := s + 1; j < len(key); j++ {
			if key[j] == '}' {
				if j > s+1 {
					key = key[s+1 : j]
				}
				break
			}
		}
	}
	return int(refCRC16(key)) % 16384
}

type c12ctx struct {
	u   *upstream
	req *simpleRequest
}

var c12table [slotNum]*instance

func newC12() *c12ctx {
	u := vfUpstream(vfConfig(0, nil))
	if c12table[0] == nil {
		for i := range c12table {
			c12table[i] = &instance{ID: strconv.Itoa(i), Addr: strconv.Itoa(i)}
		}
	}
	u.slots = c12table
	return &c12ctx{u: u, req: newSimpleRequest(newStringArray("set", "k", "v"))}
}

func (c *c12ctx) slot(key []byte) int {
	addr, err := c.u.chooseHost(key, c.req)
	if err != nil {
		return -1
	}
	n, err := strconv.Atoi(addr)
	if err != nil {
		return -2
	}
	return n
}

func c12sig(key []byte) string {
	hasOpen, hasTag := false, false
	s := -1
	for i, c := range key {
		if c == '{' {
			hasOpen, s = true, i
			break
		}
	}
	if hasOpen {
		for j := s + 1; j < len(key); j++ {
			if key[j] == '}' {
				hasTag = j > s+1
				break
			}
		}
	}
	switch {
	case hasTag:
		return "slot-mismatch / key with non-empty hash tag"
	case hasOpen:
		return "slot-mismatch / key with '{' but no usable tag"
	}
	return "slot-mismatch / key without '{'"
}

func c12run(env sched.Env) *sched.Report {
	rep := &sched.Report{Outcomes: map[string]int64{}, Complete: true}
	c := newC12()
	sigs := map[string]bool{}
	check := func(key []byte) {
		rep.Execs++
		sched.Progress(nil)
		got, want := c.slot(key), refSlot(key)
		if got != want {
			s := c12sig(key)
			rep.Outcomes["violation"]++
			if !sigs[s] {
				sigs[s] = true
				rep.Violations = append(rep.Violations, sched.CustomViolation("C12/slots", s,
					fmt.Sprintf("key %q routed by slot %d, specification says %d", key, got, want), key))
			}
		}
	}
	// (1) length 0..2, and the CRC states they reach
	states := map[uint16]bool{}
	check([]byte{})
	for a := 0; a < 256; a++ {
		check([]byte{byte(a)})
		for b := 0; b < 256; b++ {
			k := []byte{byte(a), byte(b)}
			check(k)
			states[refCRC16(k)] = true
		}
	}
	rep.Notes = append(rep.Notes, fmt.Sprintf("2-byte prefixes reach %d of 65536 CRC states", len(states)))
	if len(states) != 65536 {
		rep.Complete = false
	}
	// (2) every 3-byte key
	k3 := make([]byte, 3)
	for a := 0; a < 256; a++ {
		for b := 0; b < 256; b++ {
			for x := 0; x < 256; x++ {
				k3[0], k3[1], k3[2] = byte(a), byte(b), byte(x)
				check(k3)
			}
		}
	}
	// (3) two free positions in longer keys
	pairs := [][3]int{{4, 0, 3}, {8, 0, 7}, {16, 3, 9}, {33, 0, 32}, {64, 0, 63}, {64, 31, 32}, {17, 15, 16}, {5, 1, 2}}
	if env.Tier == "thorough" {
		for L := 6; L <= 64; L += 2 {
			pairs = append(pairs, [3]int{L, L / 3, L - 2}, [3]int{L, 0, L / 2})
		}
	}
	for _, p := range pairs {
		key := make([]byte, p[0])
		for i := range key {
			key[i] = byte('a' + i%23)
		}
		for a := 0; a < 256; a++ {
			for b := 0; b < 256; b++ {
				key[p[1]], key[p[2]] = byte(a), byte(b)
				check(key)
			}
		}
	}
	// (4) every string over {'{','}','a','b'}
	maxL := 9
	if env.Tier == "thorough" {
		maxL = 11
	}
	alpha := []byte{'{', '}', 'a', 'b'}
	var gen func(prefix []byte)
	gen = func(prefix []byte) {
		check(prefix)
		if len(prefix) == maxL {
			return
		}
		for _, ch := range alpha {
			gen(append(prefix, ch))
		}
	}
	gen(make([]byte, 0, maxL+1))
	// (5) keys sharing a tag are routed identically
	for _, tag := range []string{"a", "user1000", "{", "}x", "\x00", "ab}"} {
		for _, pre := range []string{"", "x", "}}", "p:"} {
			for _, suf := range []string{"", "y", "{z}", "}"} {
				k1 := []byte(pre + "{" + tag + "}" + suf)
				k2 := []byte("{" + tag + "}")
				rep.Execs++
				sched.Progress(nil)
				if refSlot(k1) == refSlot(k2) && c.slot(k1) != c.slot(k2) {
					s := "same-tag-different-slot"
					if !sigs[s] {
						sigs[s] = true
						rep.Violations = append(rep.Violations, sched.CustomViolation("C12/slots", s, fmt.Sprintf("%q and %q", k1, k2), k1))
					}
				}
			}
		}
	}
	rep.Outcomes["ok"] = rep.Execs - rep.Outcomes["violation"]
	rep.Distinct = rep.Execs
	rep.Rule = "each evaluation is a distinct key; families (1)-(5) of the harness header"
	rep.CustomSamples = []interface{}{"\"\" (empty key)", "every 3-byte key e.g. \"\\x00{}\"", "\"{a}{b\" style strings over {'{','}',a,b}", "64-byte key with positions 31,32 ranging over all byte pairs"}
	return rep
}

// C12 (S): routing is a pure function of the key also when sessions route concurrently.
// alphabet  3 threads x 2 routings over 4 keys with pairwise different slots; bound P<=2/3
// oracle    every routing returns the specification's slot
func c12concBody() {
	c := newC12()
	keys := [][]byte{[]byte("a"), []byte("b"), []byte("{a}x"), []byte("zz"), []byte("q{b}")}
	plan := [][]int{{0, 1}, {1, 3}, {2, 4}}
	var wg vsync.WaitGroup
	bad := ""
	for t, p := range plan {
		p := p
		t := t
		wg.Add(1)
		sched.Go(func() {
			defer wg.Done()
			req := newSimpleRequest(newStringArray("set", "k", "v"))
			if t != 0 {
				req = newSimpleRequest(newStringArray("get", "k")) // reads take the candidate-selection path
			}
			for _, ki := range p {
				addr, _ := c.u.chooseHost(keys[ki], req)
				if addr != strconv.Itoa(refSlot(keys[ki])) {
					bad = fmt.Sprintf("thread %d: key %q routed by slot %s, specification says %d", t, keys[ki], addr, refSlot(keys[ki]))
				}
			}
		})
	}
	wg.Wait()
	if bad != "" {
		sched.Fail("slot-mismatch / concurrent routing", bad)
	}
	sched.SetOutcome("ok")
}

func init() {
	sched.Register(&sched.Scenario{Name: "C12/concurrent", Setup: func(tier string) (sched.Config, func()) {
		b := sched.Bounds{P: 2, F: -1}
		if tier == "thorough" {
			b.P = 3
		}
		return sched.Config{Bounds: b, Iterative: true}, c12concBody
	}})
	sched.Register(&sched.Scenario{Name: "C12/slots", Custom: c12run, ReplayCustom: func(in json.RawMessage) []sched.Failure {
		var key []byte
		json.Unmarshal(in, &key)
		c := newC12()
		got, want := c.slot(key), refSlot(key)
		fmt.Printf("key %q: routed by slot %d, specification %d\n", key, got, want)
		if got != want {
			return []sched.Failure{{Sig: c12sig(key), Detail: fmt.Sprintf("key %q routed by slot %d, specification says %d", key, got, want)}}
		}
		return nil
	}})
}
