//go:build go1.21

package redis

import (
	"encoding/json"
	"fmt"
	"strings"

	"github.com/samaritan-proxy/samaritan/verifrt/sched"
	"github.com/samaritan-proxy/samaritan/verifrt/sim/cluster"
	"github.com/samaritan-proxy/samaritan/verifrt/sim/resp"
	"github.com/samaritan-proxy/samaritan/verifrt/vnet"
	"github.com/samaritan-proxy/samaritan/verifrt/vrand"
)

// ---------------------------------------------------------------------------
// C07 (H): fault and topology histories on the redis-stack; requests are issued at quiescence.
//
// alphabet  request(key on m0) | request(key on m1) | reset m0's connections | m0 down | m0 up |
//           move slot group g0 m0->m1 | move slot group g1 m0->m1 (m0 may end with no slots) |
//           connects to m0 time out (until m0 up) |
//           refresh round (virtual 5 s) | periodic refresh (virtual 2 min) | the other nodes start listing m1 as "fail?"
// bound     depth (quick 5, thorough 6); default schedule, random seed choice rotating fairly
// oracle    a request whose owner is reachable gets the single-server reply; errors only while the owner is
//           down; after a layout change, once a request was redirected and two refresh rounds passed, later
//           requests are not redirected any more
// ---------------------------------------------------------------------------

var c07ops = []string{"req-m0", "req-m1", "reset-m0", "m0-down", "m0-up", "move-g0", "move-g1", "refresh-round", "periodic-refresh", "m1-suspected", "m0-blackhole", "m0-silent-loss"}

type c07case struct {
	Ops []int `json:"ops"`
	// Hostnames: the nodes announce (and the proxy dials) host names, so the address a connection reports
	// after name resolution differs from the address the proxy knows the backend by.
	Hostnames bool `json:"hostnames,omitempty"`
	// Rot shifts the fair rotation of the proxy's random host picks (which node a refresh asks)
	Rot int `json:"rot,omitempty"`
}

func (c c07case) String() string {
	var s []string
	if c.Hostnames {
		s = append(s, "(nodes known by host name)")
	}
	for _, o := range c.Ops {
		s = append(s, c07ops[o])
	}
	return strings.Join(s, ", ")
}

func c07run(cs c07case) (sig, detail string) {
	body := func() {
		vrand.Fair()
		for i := 0; i < cs.Rot; i++ {
			vrand.Intn(2)
		}
		cl := cluster.New(2, 0, 4)
		m0, m1 := cl.Masters()[0], cl.Masters()[1]
		cl.Owner[0], cl.Owner[1], cl.Owner[2], cl.Owner[3] = m0, m0, m1, m1
		if cs.Hostnames {
			cl.UseHostnames()
		}
		s := vfStartStack(cl, vfSvcConfig(0, nil, 0))
		c := s.NewClient("c0")
		k0, k1, k2 := cl.KeyInGroup("k", 0, 0), cl.KeyInGroup("k", 1, 0), cl.KeyInGroup("k", 2, 0)
		n := 0
		redirectSeen, rounds := false, 0
		faultBefore := "no fault before"
		// roundsSinceMove[g]: refresh rounds since group g left m0 (-1 = never moved). While m0 is down the
		// proxy cannot be redirected by it, so it can only learn the new owner from a refresh: errors for a
		// moved group are tolerated until a periodic refresh (with one retry pause) has completed.
		roundsSinceMove := map[int]int{0: -1, 1: -1}
		// blackholed: connects to m0 time out (packets dropped) instead of being refused; lifted by m0-up
		blackholed := false
		vnet.SetDialHook(func(addr string) error {
			if blackholed && addr == m0.Addr {
				return vnet.ErrDialTimeout
			}
			return nil
		})
		for i, op := range cs.Ops {
			switch c07ops[op] {
			case "reset-m0":
				m0.ResetConns()
				sched.WaitQuiescent()
				faultBefore = "after a connection reset"
			case "m0-silent-loss":
				// the connections to m0 die without FIN or RST (reads and writes fail with ETIMEDOUT); m0 itself is fine
				m0.TimeoutConns()
				sched.WaitQuiescent()
				faultBefore = "after a connection was lost silently"
			case "m0-down":
				if !m0.Down {
					m0.Stop()
					sched.WaitQuiescent()
					faultBefore = "after the node went down"
				}
			case "m0-blackhole":
				if !m0.Down && !blackholed {
					blackholed = true
					m0.ResetConns()
					sched.WaitQuiescent()
					faultBefore = "after connects to the node timed out"
				}
			case "m0-up":
				if m0.Down {
					m0.Up()
					sched.WaitQuiescent()
				}
				blackholed = false
			case "move-g0":
				if cl.Owner[0] == m0 {
					cl.MoveGroup(0, m1)
					redirectSeen, rounds = false, 0
					roundsSinceMove[0] = 0
				}
			case "move-g1":
				if cl.Owner[1] == m0 {
					cl.MoveGroup(1, m1)
					redirectSeen, rounds = false, 0
					roundsSinceMove[1] = 0
				}
			case "m1-suspected":
				// the other nodes flag m1 as possibly failing ("fail?") from now on; it is alive and owns its slots
				m1.Suspected = true
			case "refresh-round":
				s.RefreshRound()
				if redirectSeen {
					rounds++
				}
				// (a pause alone refreshes nothing when no redirection triggered a refresh, so it does not
				// shorten the window in which errors for a group that left a dead node are tolerated)
			case "periodic-refresh":
				// first let a pending minimum-rate pause end (the 2-minute timer is only armed after it), then
				// let the periodic timer fire, then give a failed attempt (dead seed host) one retry
				s.RefreshRound()
				sched.AdvanceTime(int64(slotsRefFreq) + 1)
				sched.WaitQuiescent()
				s.RefreshRound()
				s.RefreshRound()
				if redirectSeen {
					rounds++
				}
				for g, r := range roundsSinceMove {
					if r >= 0 {
						roundsSinceMove[g] = r + 2
					}
				}
			case "req-m0", "req-m1":
				n++
				keys := []string{k0, k1}
				if c07ops[op] == "req-m1" {
					keys = []string{k2}
				}
				for _, k := range keys {
					for _, args := range [][]string{{"SET", k, fmt.Sprintf("v%d", n)}, {"GET", k}} {
						owner := cl.OwnerOfKey(k)
						mark := len(cl.Log)
						got, err := c.Do(args...)
						if err != nil {
							sig, detail = "downstream-connection-lost", fmt.Sprintf("history [%s] step %d: %v", cs, i, err)
							return
						}
						sched.WaitQuiescent()
						g := cl.Group(cluster.Slot([]byte(k)))
						m0gone := m0.Down || blackholed
						staleDown := m0gone && roundsSinceMove[g] >= 0 && roundsSinceMove[g] < 2
						if owner.Down || (owner == m0 && blackholed) || (staleDown && got.Kind == '-') {
							if got.Kind != '-' {
								refExec(s.ref, args)
							}
							continue
						}
						want := refExec(s.ref, args)
						if !resp.Equal(got, want) {
							what := "wrong-reply"
							if got.Kind == '-' {
								what = "error-reply-although-backend-reachable"
							}
							sig = fmt.Sprintf("%s / %s", what, faultBefore)
							detail = fmt.Sprintf("history [%s] step %d %s: proxy replied %s, expected %s (owner %s is up)", cs, i, vfFmtCmd(args), got, want, owner.ID)
							return
						}
						if r := cl.Redirects(mark); r > 0 {
							if redirectSeen && rounds >= 2 {
								zero := "source keeps slots"
								if cl.Owner[0] != m0 && cl.Owner[1] != m0 {
									zero = "source master left without slots"
								}
								sig = "still-redirected-after-two-refresh-rounds / " + zero
								detail = fmt.Sprintf("history [%s] step %d %s: %d redirections", cs, i, vfFmtCmd(args), r)
								return
							}
							redirectSeen = true
						}
					}
				}
			}
		}
	}
	e := sched.RunOnce(nil, sched.Options{MaxSteps: 400000}, body)
	for _, f := range e.Failures {
		sig, detail = f.Sig, f.Detail
	}
	if sig == "" && e.EndWhy != "main-returned" {
		sig, detail = "execution-ended-"+e.EndWhy, cs.String()
	}
	return
}

func c07histories(env sched.Env) *sched.Report {
	rep := &sched.Report{Outcomes: map[string]int64{}, Complete: true}
	depth := 5
	if env.Tier == "thorough" {
		depth = 6
	}
	sigs := map[string]bool{}
	n := 0
	var rec func(ops []int)
	rec = func(ops []int) {
		if len(ops) > 0 && ops[len(ops)-1] <= 1 { // histories ending in a request
			n++
			if n%env.NShards == env.Shard {
				if sched.PastDeadline(env.Deadline) {
					rep.Complete = false
					return
				}
				for vi, hn := range []bool{false, true, false} {
					if hn && len(ops) > depth-1 {
						continue // the host-name variant is explored one level less deep
					}
					cs := c07case{Ops: append([]int{}, ops...), Hostnames: hn}
					if vi == 2 {
						// third variant, for histories under the standing suspicion only: the other rotation of the
						// random host picks (the refresh asks the other node)
						if c07ops[ops[0]] != "m1-suspected" {
							continue
						}
						cs.Rot = 1
					}
					sched.Progress(cs)
					sig, detail := c07run(cs)
					rep.Execs++
					sched.Progress(nil)
					rep.Transitions += int64(len(ops))
					if sig != "" {
						rep.Outcomes["violation: "+sig]++
						if !sigs[sig] {
							sigs[sig] = true
							rep.Violations = append(rep.Violations, sched.CustomViolation("C07/histories", sig, detail, cs))
						}
					} else {
						rep.Outcomes["ok"]++
					}
				}
			}
		}
		if len(ops) == depth {
			return
		}
		for op := range c07ops {
			if c07ops[op] == "m1-suspected" && len(ops) > 0 {
				continue // a standing condition of the environment: only as the first step of a history
			}
			rec(append(ops, op))
		}
	}
	rec(nil)
	// deeper convergence histories: layout change, first redirect, k refresh rounds, request
	for _, h := range [][]int{{9, 5, 0, 7, 7, 0}, {9, 5, 6, 0, 8, 0, 0}, {5, 0, 7, 7, 0}, {5, 6, 0, 7, 7, 0}, {5, 6, 0, 8, 8, 0, 0}, {6, 0, 7, 7, 7, 0}, {3, 4, 0, 2, 0, 0}, {3, 0, 4, 0, 0}, {2, 0, 2, 0, 0}, {3, 5, 4, 0, 7, 7, 0}} {
		n++
		if n%env.NShards != env.Shard {
			continue
		}
		for rot := 0; rot < 2; rot++ {
			cs := c07case{Ops: h, Rot: rot}
			sig, detail := c07run(cs)
			rep.Execs++
			sched.Progress(nil)
			if sig != "" && !sigs[sig] {
				sigs[sig] = true
				rep.Violations = append(rep.Violations, sched.CustomViolation("C07/histories", sig, detail, cs))
			}
		}
	}
	rep.States = rep.Execs
	rep.Distinct = rep.Execs
	rep.CustomSamples = []interface{}{c07case{Ops: []int{2, 0, 0}}.String(), c07case{Ops: []int{5, 6, 0, 7, 7, 0}}.String()}
	return rep
}

// C07 (S): several backend connections are lost at about the same time (their client goroutines exit
// concurrently); afterwards every backend must be reachable again over a new connection.
func c07concurrentLossBody() {
	vrand.Fair()
	cl := cluster.New(3, 0, 3)
	s := vfStartStack(cl, vfSvcConfig(0, nil, 0))
	c := s.NewClient("c0")
	keys := []string{cl.KeyInGroup("k", 0, 0), cl.KeyInGroup("k", 1, 0), cl.KeyInGroup("k", 2, 0)}
	for _, k := range keys {
		c.Do("SET", k, "1")
	}
	sched.WaitQuiescent()
	how := sched.Choose(sched.ClsInput, 2, "how")
	for _, n := range cl.Nodes {
		n := n
		sched.GoNamed("fault-"+n.ID, func() {
			if how == 0 {
				n.ResetConns()
			} else {
				n.CloseConns()
			}
		})
	}
	sched.WaitQuiescent()
	for i, k := range keys {
		v, err := c.Do("GET", k)
		if err != nil || !resp.Equal(v, resp.BulkS("1")) {
			sched.Fail("error-reply-although-backend-reachable / after concurrent connection losses", fmt.Sprintf("GET on node %d after all connections were lost at once: %s %v", i, v, err))
		}
	}
	sched.SetOutcome("ok")
}

// C07 (S): the layout changes and a request is redirected while a slot refresh is in flight whose answer
// was produced from the old layout (the answer is delayed on the network). The refresh triggered by that first
// redirection must still happen: after two refresh rounds requests are not redirected any more.
func c07refreshInFlightBody() {
	vrand.Fair()
	if sched.Choose(sched.ClsInput, 2, "rotation of the random host picks") == 1 {
		vrand.Intn(2) // shifts the rotation, so that the in-flight refresh asks the other node
	}
	cl := cluster.New(2, 0, 4)
	m0, m1 := cl.Masters()[0], cl.Masters()[1]
	cl.Owner[0], cl.Owner[1], cl.Owner[2], cl.Owner[3] = m0, m0, m1, m1
	s := vfStartStack(cl, vfSvcConfig(0, nil, 0))
	c := s.NewClient("c0")
	k0 := cl.KeyInGroup("k", 0, 0)
	if v, err := c.Do("SET", k0, "1"); err != nil || v.Kind == '-' {
		sched.Fail("error-reply-although-backend-reachable / no fault before", fmt.Sprintf("SET: %s %v", v, err))
		return
	}
	sched.WaitQuiescent()
	s.RefreshRound()
	cl.HoldCluster = true
	sched.AdvanceTime(int64(slotsRefFreq) + 1) // the periodic refresh starts; its answer stays in flight
	sched.WaitQuiescent()
	if cl.Held == 0 {
		sched.SetOutcome("no refresh in flight")
		return
	}
	cl.MoveGroup(0, m1)
	mark := len(cl.Log)
	c.Send(resp.Encode(resp.Cmd("GET", k0)))
	sched.WaitQuiescent()
	fault := sched.Choose(sched.ClsInput, 2, "the connection carrying the refresh is lost") == 1
	if fault {
		// the node that was asked loses its connections while its answer is still in flight: this refresh fails
		asked := ""
		for _, e := range cl.Log {
			if strings.EqualFold(e.Args[0], "cluster") {
				asked = e.Node
			}
		}
		cl.HoldCluster = false
		cl.NodeByAddrID(asked).ResetConns()
		sched.WaitQuiescent()
		// (the GET may have been lost with the connection; the client gets an error reply then)
		if v, err := c.Read(); err != nil {
			sched.Fail("downstream-connection-lost / refresh in flight", err.Error())
			return
		} else if v.Kind != '-' && !resp.Equal(v, resp.BulkS("1")) {
			sched.Fail("wrong-reply / refresh in flight", fmt.Sprintf("GET %s: %s", k0, v))
			return
		}
		redirected := cl.Redirects(mark) > 0
		s.RefreshRound()
		s.RefreshRound()
		s.RefreshRound()
		mark = len(cl.Log)
		v, err := c.Do("GET", k0)
		if err != nil || !resp.Equal(v, resp.BulkS("1")) {
			sched.Fail("error-reply-although-backend-reachable / after the refresh connection was lost", fmt.Sprintf("GET %s: %s %v", k0, v, err))
			return
		}
		sched.WaitQuiescent()
		if r := cl.Redirects(mark); redirected && r > 0 {
			sched.Fail("still-redirected-after-two-refresh-rounds / the connection carrying the first refresh was lost",
				fmt.Sprintf("group 0 moved, GET was redirected (refresh triggered), the asked node %s lost its connections before answering, three refresh pauses passed, the next GET was redirected %d more times", asked, r))
		}
		sched.SetOutcome(fmt.Sprintf("refresh connection lost, redirected=%v", redirected))
		return
	}
	cl.HoldCluster = false
	v, err := c.Read()
	if err != nil || !resp.Equal(v, resp.BulkS("1")) {
		sched.Fail("wrong-reply / refresh in flight", fmt.Sprintf("GET %s while a refresh is in flight: %s %v", k0, v, err))
		return
	}
	sched.WaitQuiescent()
	redirected := cl.Redirects(mark) > 0
	s.RefreshRound()
	s.RefreshRound()
	mark = len(cl.Log)
	v, err = c.Do("GET", k0)
	if err != nil || !resp.Equal(v, resp.BulkS("1")) {
		sched.Fail("wrong-reply / refresh in flight", fmt.Sprintf("second GET %s: %s %v", k0, v, err))
		return
	}
	sched.WaitQuiescent()
	if r := cl.Redirects(mark); redirected && r > 0 {
		sched.Fail("still-redirected-after-two-refresh-rounds / first redirection during an in-flight refresh",
			fmt.Sprintf("group 0 moved m0->m1 while a refresh answered from the old layout was in flight; GET was redirected, two refresh rounds passed, the next GET was redirected %d more times", r))
	}
	if redirected {
		sched.SetOutcome("redirected during the refresh, converged")
	} else {
		sched.SetOutcome("not redirected")
	}
}

func init() {
	sched.Register(&sched.Scenario{Name: "C07/refresh-in-flight", Setup: func(tier string) (sched.Config, func()) {
		b := sched.Bounds{P: 1, F: 1}
		if tier == "thorough" {
			b = sched.Bounds{P: 2, F: 2}
		}
		return sched.Config{Bounds: b, Iterative: true, MaxSteps: 100000}, c07refreshInFlightBody
	}})
	sched.Register(&sched.Scenario{Name: "C07/concurrent-loss", Setup: func(tier string) (sched.Config, func()) {
		b := sched.Bounds{P: 1, F: 1}
		if tier == "thorough" {
			b = sched.Bounds{P: 2, F: 1}
		}
		return sched.Config{Bounds: b, Iterative: true, MaxSteps: 100000}, c07concurrentLossBody
	}})
	sched.Register(&sched.Scenario{Name: "C07/histories", Custom: c07histories, ReplayCustom: func(in json.RawMessage) []sched.Failure {
		var cs c07case
		json.Unmarshal(in, &cs)
		sig, detail := c07run(cs)
		fmt.Println(cs.String(), "->", sig, detail)
		if sig == "" {
			return nil
		}
		return []sched.Failure{{Sig: sig, Detail: detail}}
	}})
}
