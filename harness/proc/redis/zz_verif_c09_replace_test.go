//go:build go1.21

package redis

import (
	"fmt"
	"strings"

	"github.com/samaritan-proxy/samaritan/host"
	"github.com/samaritan-proxy/samaritan/proc"
	"github.com/samaritan-proxy/samaritan/verifrt/sched"
	"github.com/samaritan-proxy/samaritan/verifrt/sim/cluster"
	"github.com/samaritan-proxy/samaritan/verifrt/sim/resp"
	"github.com/samaritan-proxy/samaritan/verifrt/vnet"
)

// ---------------------------------------------------------------------------
// C09 (S) the endpoint list of a running Redis service is replaced, removed from or added to while a request
// is waiting for its backend connection to be established (the connect takes its time), then Stop.
//
// alphabet  notice in {replace with the same hosts, replace with the other node only, remove the node, add it
//           again} x the request goes to node 0 | 1 x it waits for a slow connect | it is being MOVED-redirected to
//           the other node (to which no connection exists yet)
// bound     all schedules P1 (quick) / P1 F1 Sel1 (thorough)
// oracle    the notice returns, Stop returns, the port is closed, every connection of the proxy is closed, no
//           goroutine is left
// ---------------------------------------------------------------------------

func c09redisReplaceBody() {
	notice := []string{"replace-same", "replace-other", "remove", "add"}[sched.Choose(sched.ClsInput, 4, "notice")]
	target := sched.Choose(sched.ClsInput, 2, "node")
	// redirected: instead of waiting for a slow connect, the request is answered MOVED by its node (the slot group
	// has just moved to the other node) and the notice races with the read loop that follows the redirection
	redirected := sched.Choose(sched.ClsInput, 2, "redirected") == 1
	restore := proc.VerifSetListenFunc(vnet.Listen)
	sched.OnReset(restore)
	cl := cluster.New(2, 0, 2)
	cl.Start()
	seeds := []string{cl.Nodes[0].Addr, cl.Nodes[1].Addr}
	p := vfNewProc(vfSvcConfig(0, nil, 0), seeds...)
	p.Start()
	sched.WaitQuiescent()
	sched.AdvanceTime(int64(slotsRefMinRate) + 1)
	sched.WaitQuiescent()
	// every backend connection is lost; the next request has to connect again, and that takes its time
	if redirected {
		cl.Nodes[1-target].CloseConns() // no connection to the node the request will be redirected to
		sched.WaitQuiescent()
		cl.MoveGroup(target, cl.Nodes[1-target])
	} else {
		for _, n := range cl.Nodes {
			n.CloseConns()
		}
		sched.WaitQuiescent()
		vnet.HoldDials(true, seeds...)
	}
	c, err := vnet.DialConn(c09redisAddr)
	if err != nil {
		sched.Fail("harness-dial", err.Error())
		return
	}
	c.Label = "client"
	c.Write(resp.Encode(resp.Cmd("GET", cl.KeyInGroup("k", target, 0))))
	if !redirected {
		sched.WaitQuiescent()
	}
	noticed := false
	sched.GoNamed("endpoint-notice", func() {
		h0, h1 := host.New(seeds[0]), host.New(seeds[1])
		switch notice {
		case "replace-same":
			p.OnSvcAllHostReplace([]*host.Host{h0, h1})
		case "replace-other":
			p.OnSvcAllHostReplace([]*host.Host{[]*host.Host{h1, h0}[target]})
		case "remove":
			p.OnSvcHostRemove([]*host.Host{[]*host.Host{h0, h1}[target]})
		case "add":
			p.OnSvcHostAdd([]*host.Host{[]*host.Host{h0, h1}[target]})
		}
		noticed = true
	})
	sched.WaitQuiescent()
	vnet.HoldDials(false) // the connects complete now
	sched.WaitQuiescent()
	tag := fmt.Sprintf("notice=%s while a request waits for the connection to node %d", notice, target)
	if redirected {
		tag = fmt.Sprintf("notice=%s while a request to node %d is being redirected", notice, target)
	}
	if !noticed {
		sched.Fail("endpoint-notice-never-returns / redis / "+notice, tag)
		return
	}
	stopped := false
	sched.GoNamed("stopper", func() { p.Stop(); stopped = true })
	sched.WaitQuiescent()
	if !stopped {
		var who []string
		for _, b := range sched.LiveNonServer() {
			who = append(who, b.Name+":"+b.Kind)
		}
		sched.Fail("redis-stop-never-returns / after "+notice, fmt.Sprintf("%s; threads left: %s", tag, strings.Join(who, ", ")))
		return
	}
	if vnet.Bound(c09redisAddr) {
		sched.Fail("listening-socket-left-open-after-stop / redis", tag)
	}
	for _, vc := range vnet.Conns() {
		mine := vc.Label == "" || strings.HasPrefix(vc.Label, "proxy")
		if strings.HasPrefix(vc.Label, "node-") || vc.Label == "client" {
			mine = false
		}
		if mine && !vc.IsClosed() && !vc.WasReset() {
			sched.Fail("connection-left-open-after-stop / redis / after "+notice, fmt.Sprintf("%s: %s", tag, vc))
		}
	}
	for _, b := range sched.LiveNonServer() {
		sched.Fail("goroutine-left-after-stop / redis / after "+notice, fmt.Sprintf("%s: %s parked in %s", tag, b.Name, b.Kind))
	}
	sched.SetOutcome(tag)
}

func init() {
	sched.Register(&sched.Scenario{Name: "C09/redis-replace", Setup: func(tier string) (sched.Config, func()) {
		b := sched.Bounds{P: 1}
		if tier == "thorough" {
			b = sched.Bounds{P: 1, F: 1, Sel: 1}
		}
		return sched.Config{Bounds: b, Iterative: true, MaxSteps: 100000}, c09redisReplaceBody
	}})
}
