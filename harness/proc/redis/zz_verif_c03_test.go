//go:build go1.21

package redis

import (
	"encoding/json"
	"fmt"
	"strings"

	"github.com/samaritan-proxy/samaritan/verifrt/sched"
	"github.com/samaritan-proxy/samaritan/verifrt/sim/cluster"
	"github.com/samaritan-proxy/samaritan/verifrt/sim/resp"
)

// ---------------------------------------------------------------------------
// C03 (H): programs of supported commands through the real proxy against a stable mini cluster,
// compared reply by reply with a single server holding all data.
//
// alphabet  ~40 commands over 4 keys ({t}a and {t}b share a slot, c and d live in two other slot
//           groups) covering every handler (simple, sum-result, MSET, MGET, EVAL, local);
//           connections: all on one / alternating between two; 5 layouts of 3 slot groups on 1-3 nodes
// bound     program depth (quick 3, +depth 4 on the 3-node layout; thorough 4, +5), states
//           de-duplicated by the canonical dump of the reference keyspace; default schedule (the
//           quantifier is programs x inputs x layouts, not schedules)
// oracle    each reply equals the single-server reply; every keyed command arrives first at the node
//           owning the key's slot; no redirection; at the end the union of the nodes' keyspaces
//           equals the reference keyspace
// ---------------------------------------------------------------------------

type c03case struct {
	Layout  int        `json:"layout"`
	TwoConn bool       `json:"two_conns"`
	Prog    [][]string `json:"prog"`
}

// layouts: which master owns slot group 0,1,2
var c03layouts = [][]int{{0, 0, 0}, {0, 0, 1}, {0, 1, 0}, {0, 1, 1}, {0, 1, 2}}

func c03cluster(layout int) *cluster.Cluster {
	l := c03layouts[layout]
	n := 0
	for _, m := range l {
		if m+1 > n {
			n = m + 1
		}
	}
	cl := cluster.New(n, 0, 3)
	for g, m := range l {
		cl.Owner[g] = cl.Masters()[m]
	}
	return cl
}

type c03keys struct{ a, b, c, d string }

var c03k *c03keys

func c03keyset() *c03keys {
	if c03k == nil {
		cl := cluster.New(1, 0, 3)
		tag := cl.KeyInGroup("t", 0, 0)
		c03k = &c03keys{a: "{" + tag + "}a", b: "{" + tag + "}b", c: cl.KeyInGroup("c", 1, 0), d: cl.KeyInGroup("d", 2, 0)}
	}
	return c03k
}

func c03alphabet() [][]string {
	k := c03keyset()
	return [][]string{
		{"SET", k.a, "v1"}, {"set", k.b, "v2"}, {"SET", k.c, "10"}, {"GET", k.a}, {"get", k.c}, {"GET", k.d},
		{"SETNX", k.c, "x"}, {"GETSET", k.a, "v3"}, {"APPEND", k.a, "xyz"}, {"STRLEN", k.a}, {"INCR", k.c}, {"DECRBY", k.c, "3"},
		{"DEL", k.a, k.c}, {"DEL", k.d}, {"EXISTS", k.a, k.b, k.c, k.d}, {"TOUCH", k.b, k.d}, {"UNLINK", k.b, k.c},
		{"MSET", k.a, "1", k.c, "2", k.d, "3"}, {"MSET", k.b, "only"}, {"MGET", k.a, k.b, k.c, k.d}, {"MGET", k.d, k.a}, {"mget", k.c},
		{"HSET", k.b, "f", "hv"}, {"HGET", k.b, "f"}, {"HGETALL", k.b}, {"HMSET", k.d, "f1", "1", "f2", "2"}, {"HDEL", k.b, "f"},
		{"RPUSH", k.d, "x", "y"}, {"LPOP", k.d}, {"LRANGE", k.d, "0", "-1"},
		{"SADD", k.a, "m1", "m2"}, {"SMEMBERS", k.a}, {"ZADD", k.c, "1", "m"}, {"ZRANGE", k.c, "0", "-1"},
		{"EVAL", "s", "1", k.a, "arg"}, {"EVAL", "t", "1", k.d},
		{"TYPE", k.a}, {"TTL", k.c}, {"EXPIRE", k.d, "100"},
		{"PING"}, {"SELECT", "0"}, {"TIME"}, {"INFO"},
	}
}

type c03result struct {
	sig, detail string
	state       string
}

func c03run(cs c03case) c03result {
	var res c03result
	body := func() {
		cl := c03cluster(cs.Layout)
		s := vfStartStack(cl, vfSvcConfig(0, nil, 0))
		clients := []*vfClient{s.NewClient("c0")}
		if cs.TwoConn {
			clients = append(clients, s.NewClient("c1"))
		}
		for i, args := range cs.Prog {
			c := clients[i%len(clients)]
			mark := len(cl.Log)
			got, err := c.Do(args...)
			if err != nil {
				res.sig, res.detail = "connection-failed / "+strings.ToLower(args[0]), fmt.Sprintf("step %d %s: %v", i, vfFmtCmd(args), err)
				return
			}
			name := strings.ToLower(args[0])
			switch name {
			case "time":
				if got.Kind != '*' || len(got.Arr) != 2 {
					res.sig, res.detail = "reply-shape / time", got.String()
					return
				}
				continue
			case "info":
				if got.Kind != '$' {
					res.sig, res.detail = "reply-shape / info", got.String()
					return
				}
				continue
			case "ping":
				if !resp.Equal(got, resp.Simple("PONG")) {
					res.sig, res.detail = "reply-differs / ping", got.String()
					return
				}
				continue
			case "select":
				if !resp.Equal(got, resp.Simple("OK")) {
					res.sig, res.detail = "reply-differs / select", got.String()
					return
				}
				continue
			}
			want := refExec(s.ref, args)
			if !resp.Equal(got, want) {
				res.sig = "reply-differs-from-single-server / " + name
				res.detail = fmt.Sprintf("step %d %s: proxy replied %s, a single server replies %s", i, vfFmtCmd(args), got, want)
				return
			}
			// routing: per key the first arrival must be at the owner, and nothing is redirected
			if r := cl.Redirects(mark); r != 0 {
				res.sig, res.detail = "redirected-on-stable-cluster / "+name, fmt.Sprintf("step %d %s: %d redirections", i, vfFmtCmd(args), r)
				return
			}
			seenKey := map[string]bool{}
			for _, e := range cl.DataCmds(mark) {
				info, ok := cluster.Commands[strings.ToLower(e.Args[0])]
				if !ok || len(e.Args) <= info.KeyIdx {
					continue
				}
				key := e.Args[info.KeyIdx]
				if seenKey[key] {
					continue
				}
				seenKey[key] = true
				if own := cl.OwnerOfKey(key); own.ID != e.Node {
					res.sig, res.detail = "first-delivery-not-at-slot-owner / "+name, fmt.Sprintf("step %d %s: key %q arrived at %s, owner is %s", i, vfFmtCmd(args), key, e.Node, own.ID)
					return
				}
			}
		}
		// the cluster's data equals the reference data
		union := cluster.NewStore()
		var dumps []string
		for _, m := range cl.Masters() {
			dumps = append(dumps, m.Store().Dump())
		}
		_ = union
		all := strings.Join(dumps, "")
		ref := s.ref.Dump()
		if len(all) != len(ref) || !sameEntries(all, ref) {
			res.sig, res.detail = "stored-data-differs-from-single-server", fmt.Sprintf("nodes hold %s, single server holds %s", all, ref)
			return
		}
		res.state = ref
	}
	e := sched.RunOnce(nil, sched.Options{}, body)
	for _, f := range e.Failures {
		res.sig, res.detail = f.Sig, f.Detail
	}
	if res.sig == "" && e.EndWhy != "main-returned" {
		res.sig, res.detail = "execution-ended-"+e.EndWhy, fmt.Sprintf("program %v", cs.Prog)
	}
	return res
}

// sameEntries compares two dumps as multisets of ';'-terminated entries.
func sameEntries(a, b string) bool {
	ea, eb := strings.Split(a, ";"), strings.Split(b, ";")
	if len(ea) != len(eb) {
		return false
	}
	m := map[string]int{}
	for _, x := range ea {
		m[x]++
	}
	for _, x := range eb {
		m[x]--
		if m[x] < 0 {
			return false
		}
	}
	return true
}

func c03programs(env sched.Env) *sched.Report {
	rep := &sched.Report{Outcomes: map[string]int64{}, Complete: true}
	alpha := c03alphabet()
	sigs := map[string]bool{}
	type depthPlan struct {
		layout, depth int
		two           bool
	}
	var plans []depthPlan
	base, deep := 3, 4
	if env.Tier == "thorough" {
		base, deep = 4, 5
	}
	for l := range c03layouts {
		d := base
		if l == len(c03layouts)-1 {
			d = deep
		}
		plans = append(plans, depthPlan{l, d, true})
		if env.Tier == "thorough" || l == len(c03layouts)-1 {
			plans = append(plans, depthPlan{l, base, false})
		}
	}
	for _, pl := range plans {
		seen := map[string]bool{}
		type node struct{ prog [][]string }
		frontier := []node{{}}
		for d := 0; d < pl.depth && len(frontier) > 0; d++ {
			var next []node
			for _, n := range frontier {
				for ai, a := range alpha {
					first := ai
					if len(n.prog) > 0 {
						first = -1
					}
					if first >= 0 && first%env.NShards != env.Shard {
						continue // shard by the first command of the program
					}
					if sched.PastDeadline(env.Deadline) {
						rep.Complete = false
						goto done
					}
					cs := c03case{Layout: pl.layout, TwoConn: pl.two, Prog: append(append([][]string{}, n.prog...), a)}
					sched.Progress(cs)
					r := c03run(cs)
					rep.Execs++
					sched.Progress(nil)
					rep.Transitions += int64(len(cs.Prog))
					if r.sig != "" {
						rep.Outcomes["violation: "+r.sig]++
						if !sigs[r.sig] {
							sigs[r.sig] = true
							rep.Violations = append(rep.Violations, sched.CustomViolation("C03/programs", r.sig, fmt.Sprintf("layout %v two-connections=%v program %v\n%s", c03layouts[pl.layout], pl.two, cs.Prog, r.detail), cs))
						}
						continue
					}
					rep.Outcomes["ok"]++
					if seen[r.state] {
						continue
					}
					seen[r.state] = true
					next = append(next, node{cs.Prog})
				}
			}
			frontier = next
		}
		rep.States += int64(len(seen))
		rep.Notes = append(rep.Notes, fmt.Sprintf("layout %v depth %d two-connections=%v: %d keyspace states", c03layouts[pl.layout], pl.depth, pl.two, len(seen)))
	}
done:
	rep.Distinct = rep.States
	rep.CustomSamples = []interface{}{c03case{Layout: 4, TwoConn: true, Prog: [][]string{alpha[17], alpha[12], alpha[19]}}}
	return rep
}

// ---------------------------------------------------------------------------
// C03 (I): binary safety and length boundaries of keys, arguments and values.
// ---------------------------------------------------------------------------

type c03val struct {
	Cmd  string `json:"cmd"`
	KeyN int    `json:"key"`
	ValN int    `json:"val"`
	// Frag: every request arrives in pieces, cut between the CR and the LF that end its first lines (each piece is
	// read on its own by the session)
	Frag bool `json:"fragmented,omitempty"`
}

// c03doFragmented sends the request cut after each of its first CRs and reads the reply.
func c03doFragmented(c *vfClient, args []string) (resp.Value, error) {
	raw := resp.Encode(resp.Cmd(args...))
	start, cuts := 0, 0
	for i := 0; i < len(raw) && cuts < 12; i++ {
		if raw[i] == '\r' && i+1 < len(raw) && raw[i+1] == '\n' {
			if err := c.Send(raw[start : i+1]); err != nil {
				return resp.Value{}, err
			}
			sched.WaitQuiescent()
			start = i + 1
			cuts++
		}
	}
	if err := c.Send(raw[start:]); err != nil {
		return resp.Value{}, err
	}
	return c.Read()
}

func c03specials(tier string) [][]byte {
	mk := func(n int) []byte {
		b := make([]byte, n)
		for i := range b {
			b[i] = byte(i*31 + 7)
		}
		return b
	}
	out := [][]byte{{}, []byte("x"), []byte("\r"), []byte("\n"), []byte("\r\n"), {0}, []byte("$-1\r\n"), []byte("*1\r\n$1\r\nx\r\n"), []byte("a b"),
		[]byte("a}{tag}b"), []byte("{}{tag}"), []byte("{tag"), []byte("x{tag}y{other}"), []byte("}{user1000}.following"), []byte("{{tag}}")}
	for _, n := range []int{511, 512, 513, 4095, 4096, 4097, 8191, 8192, 8193} {
		out = append(out, mk(n))
	}
	if tier == "thorough" {
		out = append(out, mk(65536), mk(3<<20))
	} else {
		out = append(out, mk(70000))
	}
	return out
}

func c03valueRun(cs c03val, tier string) (sig, detail string) {
	sp := c03specials(tier)
	key, val := string(sp[cs.KeyN]), string(sp[cs.ValN])
	if key == "" {
		key = "\x00k"
	}
	var prog [][]string
	switch cs.Cmd {
	case "set":
		prog = [][]string{{"SET", key, val}, {"GET", key}, {"STRLEN", key}, {"MGET", key, "other"}}
	case "mset":
		prog = [][]string{{"MSET", key, val, "other", val}, {"MGET", "other", key}, {"EXISTS", key, "other", key}}
	case "hset":
		prog = [][]string{{"HSET", key, val, val}, {"HGET", key, val}, {"HGETALL", key}, {"HDEL", key, val}}
	case "rpush":
		prog = [][]string{{"RPUSH", key, val, val}, {"LRANGE", key, "0", "-1"}, {"LPOP", key}}
	case "sadd":
		prog = [][]string{{"SADD", key, val}, {"SISMEMBER", key, val}, {"SMEMBERS", key}, {"DEL", key}}
	case "append":
		prog = [][]string{{"APPEND", key, val}, {"APPEND", key, val}, {"GET", key}, {"GETSET", key, val}}
	case "eval":
		prog = [][]string{{"EVAL", val, "1", key, val}, {"GET", key}}
	}
	body := func() {
		cl := cluster.New(3, 0, 3)
		s := vfStartStack(cl, vfSvcConfig(0, nil, 0))
		c := s.NewClient("c0")
		for i, args := range prog {
			mark := len(cl.Log)
			var got resp.Value
			var err error
			if cs.Frag {
				got, err = c03doFragmented(c, args)
			} else {
				got, err = c.Do(args...)
			}
			if err != nil {
				sig, detail = "connection-failed / "+strings.ToLower(args[0]), fmt.Sprintf("step %d: %v", i, err)
				return
			}
			want := refExec(s.ref, args)
			if !resp.Equal(got, want) {
				sig = "reply-differs-from-single-server / " + strings.ToLower(args[0])
				detail = fmt.Sprintf("step %d %s: proxy replied %s, a single server replies %s", i, vfFmtCmd(args), got, want)
				return
			}
			if r := cl.Redirects(mark); r != 0 {
				sig, detail = "redirected-on-stable-cluster / "+strings.ToLower(args[0]), fmt.Sprintf("step %d", i)
				return
			}
		}
	}
	e := sched.RunOnce(nil, sched.Options{MaxSteps: 400000}, body)
	for _, f := range e.Failures {
		sig, detail = f.Sig, f.Detail
	}
	if sig == "" && e.EndWhy != "main-returned" {
		sig = "execution-ended-" + e.EndWhy
	}
	return
}

func c03values(env sched.Env) *sched.Report {
	rep := &sched.Report{Outcomes: map[string]int64{}, Complete: true}
	sp := c03specials(env.Tier)
	sigs := map[string]bool{}
	n := 0
	for _, cmd := range []string{"set", "mset", "hset", "rpush", "sadd", "append", "eval"} {
		for ki := range sp {
			if len(sp[ki]) > 9000 {
				continue // keys up to 8193 bytes
			}
			for vi := range sp {
				n++
				if n%env.NShards != env.Shard {
					continue
				}
				if sched.PastDeadline(env.Deadline) {
					rep.Complete = false
					return rep
				}
				for _, frag := range []bool{false, true} {
					if frag && (ki+vi)%4 != 0 && env.Tier != "thorough" {
						continue // quick: a quarter of the pairs also fragmented
					}
					cs := c03val{cmd, ki, vi, frag}
					sched.Progress(cs)
					sig, detail := c03valueRun(cs, env.Tier)
					rep.Execs++
					sched.Progress(nil)
					if sig != "" {
						if frag {
							sig += " / request in fragments"
						}
						rep.Outcomes["violation: "+sig]++
						if !sigs[sig] {
							sigs[sig] = true
							rep.Violations = append(rep.Violations, sched.CustomViolation("C03/values", sig, fmt.Sprintf("%s key #%d (%d bytes) value #%d (%d bytes): %s", cmd, ki, len(sp[ki]), vi, len(sp[vi]), detail), cs))
						}
					} else {
						rep.Outcomes["ok"]++
					}
				}
			}
		}
	}
	rep.States = rep.Execs
	rep.Distinct = rep.Execs
	rep.Transitions = rep.Execs * 3
	rep.CustomSamples = []interface{}{map[string]interface{}{"cmd": "mset", "key": "\\r\\n", "value_bytes": 8193}}
	return rep
}

func init() {
	sched.Register(&sched.Scenario{Name: "C03/programs", Custom: c03programs, ReplayCustom: func(in json.RawMessage) []sched.Failure {
		var cs c03case
		json.Unmarshal(in, &cs)
		r := c03run(cs)
		fmt.Printf("layout %v program %v -> %s %s\n", c03layouts[cs.Layout], cs.Prog, r.sig, r.detail)
		if r.sig == "" {
			return nil
		}
		return []sched.Failure{{Sig: r.sig, Detail: r.detail}}
	}})
	sched.Register(&sched.Scenario{Name: "C03/values", Custom: c03values, ReplayCustom: func(in json.RawMessage) []sched.Failure {
		var cs c03val
		json.Unmarshal(in, &cs)
		for _, tier := range []string{"quick", "thorough"} {
			if sig, detail := c03valueRun(cs, tier); sig != "" {
				return []sched.Failure{{Sig: sig, Detail: detail}}
			}
		}
		return nil
	}})
}

// ---------------------------------------------------------------------------
// C19 (H) HOTKEY command: traffic through the real proxy stack, collection ticks on the virtual clock, then
// the HOTKEY command; the report is parsed from the reply.
// oracle    at most 50 keys (the collector's capacity), no key twice, non-increasing counters, only keys that
//           were accessed
// ---------------------------------------------------------------------------

func c19hotkeyCommand(env sched.Env) *sched.Report {
	rep := &sched.Report{Outcomes: map[string]int64{}, Complete: true}
	sigs := map[string]bool{}
	plans := [][]int{{1}, {3, 1}, {1, 3}, {5, 5, 1}, {2, 9, 4, 1}, {60}, {0}}
	for pi, plan := range plans {
		if pi%env.NShards != env.Shard {
			continue
		}
		var sig, detail string
		body := func() {
			cl := cluster.New(2, 0, 2)
			s := vfStartStack(cl, vfSvcConfig(0, nil, 0))
			c := s.NewClient("c0")
			accessed := map[string]bool{}
			for round, n := range plan {
				if n == 60 {
					for i := 0; i < 60; i++ { // more distinct keys than the capacity
						k := fmt.Sprintf("key%02d", i)
						c.Do("SET", k, "v")
						accessed[k] = true
					}
				}
				for i := 0; i < n && n != 60; i++ {
					for j := 0; j <= i; j++ {
						k := fmt.Sprintf("k%d", i)
						c.Do("GET", k)
						accessed[k] = true
					}
				}
				// scripts: a script called without keys accesses none (its arguments are not key names); one called with a
				// key accesses that key
				for j := 0; j < 3; j++ {
					c.Do("EVAL", "return 1", "0", "only-an-argument")
				}
				c.Do("EVAL", "return 1", "1", "script-key", "script-arg")
				accessed["script-key"] = true
				sched.WaitQuiescent()
				sched.AdvanceTime(int64(10*1e9) + 1) // the collect ticker
				sched.WaitQuiescent()
				if round%2 == 1 {
					sched.AdvanceTime(int64(60*1e9) + 1) // the evict ticker
					sched.WaitQuiescent()
				}
				got, err := c.Do("HOTKEY")
				if err != nil || got.Kind != '$' {
					sig, detail = "hotkey-reply-shape", fmt.Sprintf("%s %v", got, err)
					return
				}
				lines := strings.Split(string(got.Str), "\n")
				seen := map[string]bool{}
				last := int64(1 << 62)
				if len(lines)-1 > 50 {
					sig, detail = "hotkey-report-longer-than-capacity", fmt.Sprintf("%d keys", len(lines)-1)
					return
				}
				for _, l := range lines[1:] {
					var cnt int64
					var name string
					if _, err := fmt.Sscanf(l, "counter: %d  keyname: %s", &cnt, &name); err != nil {
						sig, detail = "hotkey-report-unparseable", l
						return
					}
					if seen[name] {
						sig, detail = "hotkey-report-lists-key-twice", name
						return
					}
					seen[name] = true
					if !accessed[name] {
						sig, detail = "hotkey-report-lists-key-never-accessed", name
						return
					}
					if cnt > last {
						sig, detail = "hotkey-report-not-ordered", string(got.Str)
						return
					}
					last = cnt
				}
				if n > 0 && round == 0 && len(lines) < 2 {
					sig, detail = "hotkey-report-empty-after-traffic", string(got.Str)
					return
				}
			}
		}
		e := sched.RunOnce(nil, sched.Options{MaxSteps: 400000}, body)
		rep.Execs++
		sched.Progress(nil)
		rep.Transitions += int64(e.Steps())
		for _, f := range e.Failures {
			sig, detail = f.Sig, f.Detail
		}
		if sig == "" && e.EndWhy != "main-returned" {
			sig = "execution-ended-" + e.EndWhy
		}
		if sig != "" && !sigs[sig] {
			sigs[sig] = true
			rep.Violations = append(rep.Violations, sched.CustomViolation("C19/hotkey-command", sig, fmt.Sprintf("plan %v: %s", plan, detail), plan))
		}
	}
	rep.States, rep.Distinct = rep.Execs, rep.Execs
	return rep
}

func init() {
	sched.Register(&sched.Scenario{Name: "C19/hotkey-command", Custom: c19hotkeyCommand, ReplayCustom: func(in json.RawMessage) []sched.Failure { return nil }})
}
