//go:build go1.21

package host

import (
	"encoding/json"
	"fmt"
	"sort"
	"strings"
	"testing"

	"github.com/samaritan-proxy/samaritan/verifrt/sched"
	"github.com/samaritan-proxy/samaritan/verifrt/vrand"
	vsync "github.com/samaritan-proxy/samaritan/verifrt/vsync"
)

func TestVerif(t *testing.T) { sched.Main(t) }

// ---------------------------------------------------------------------------
// C15 (H): every operation sequence on a real host.Set up to a depth, against a
// reference model, with canonical-state de-duplication.
//
// alphabet  AddFresh(addr,type) | ReAdd(obj) | RemoveFresh(addr,type) | RemoveObj(obj) | AddBatch/RemoveBatch(two hosts, both orders) |
//           ReplaceAll(list) | MarkHealthy(obj) | MarkUnhealthy(obj)
//           addr in {a,b}, type in {Main,Backup}, obj = any host object created so far (<= maxObjs)
// bound     depth (quick 5, thorough 7)
// oracle    Healthy() == members flagged healthy in the preferred tier, sorted, identical objects;
//           Random() (every rand outcome) and All() only return members
// ---------------------------------------------------------------------------

type c15op struct {
	Kind string `json:"k"`
	Addr string `json:"a,omitempty"`
	Typ  int    `json:"t,omitempty"`
	Obj  int    `json:"o,omitempty"`
	List string `json:"l,omitempty"`
}

func (o c15op) String() string {
	switch o.Kind {
	case "AddFresh", "RemoveFresh":
		return fmt.Sprintf("%s(%s,%s)", o.Kind, o.Addr, Type(o.Typ))
	case "ReplaceAll", "AddBatch", "RemoveBatch":
		return fmt.Sprintf("%s[%s]", o.Kind, o.List)
	}
	return fmt.Sprintf("%s(#%d)", o.Kind, o.Obj)
}

var c15addrs = []string{"10.0.0.1:1", "10.0.0.2:1"}
var c15lists = []string{"", "aM", "aM,bM", "aM,bB", "aB", "bM", "aM,aB"}

func c15short(addr string) string {
	if addr == c15addrs[0] {
		return "a"
	}
	return "b"
}

type c15world struct {
	set  *Set
	objs []*Host
	// reference model
	members map[string]int // addr -> object index
	flag    []bool         // per object: marked healthy
	gone    []bool         // per object: was removed from membership at some point
}

func newC15World() *c15world {
	return &c15world{set: NewSet(), members: map[string]int{}}
}

func (w *c15world) fresh(addr string, typ Type) int {
	h := NewWithType(addr, typ)
	w.objs = append(w.objs, h)
	w.flag = append(w.flag, true)
	w.gone = append(w.gone, false)
	return len(w.objs) - 1
}

func (w *c15world) modelAdd(i int) {
	h := w.objs[i]
	if old, ok := w.members[h.Addr]; ok && old != i {
		w.gone[old] = true
	}
	w.members[h.Addr] = i
	w.gone[i] = false
}

func (w *c15world) modelRemoveAddr(addr string) {
	if old, ok := w.members[addr]; ok {
		w.gone[old] = true
		delete(w.members, addr)
	}
}

func parseList(w *c15world, l string) []int {
	var idx []int
	if l == "" {
		return idx
	}
	for _, e := range strings.Split(l, ",") {
		addr := c15addrs[0]
		if e[0] == 'b' {
			addr = c15addrs[1]
		}
		typ := TypeMain
		if e[1] == 'B' {
			typ = TypeBackup
		}
		idx = append(idx, w.fresh(addr, typ))
	}
	return idx
}

// pre describes the abstract precondition under which op is applied (for signatures).
func (w *c15world) pre(op c15op) string {
	switch op.Kind {
	case "AddFresh":
		if i, ok := w.members[op.Addr]; ok {
			if int(w.objs[i].Type) == op.Typ {
				return "addr-present-same-type"
			}
			return "addr-present-other-type"
		}
		return "addr-absent"
	case "ReAdd":
		h := w.objs[op.Obj]
		s := "flag-healthy"
		if !w.flag[op.Obj] {
			s = "flag-unhealthy"
		}
		if i, ok := w.members[h.Addr]; ok {
			if i == op.Obj {
				return "already-member," + s
			}
			if w.objs[i].Type == h.Type {
				return "addr-present-same-type," + s
			}
			return "addr-present-other-type," + s
		}
		return "addr-absent," + s
	case "RemoveFresh":
		if i, ok := w.members[op.Addr]; ok {
			if int(w.objs[i].Type) == op.Typ {
				return "present-same-type"
			}
			return "present-other-type"
		}
		return "absent"
	case "RemoveObj":
		h := w.objs[op.Obj]
		if i, ok := w.members[h.Addr]; ok {
			if i == op.Obj {
				return "member"
			}
			if w.objs[i].Type == h.Type {
				return "stale-object,addr-present-same-type"
			}
			return "stale-object,addr-present-other-type"
		}
		return "stale-object,addr-absent"
	case "MarkHealthy", "MarkUnhealthy":
		h := w.objs[op.Obj]
		s := "flag-healthy"
		if !w.flag[op.Obj] {
			s = "flag-unhealthy"
		}
		if i, ok := w.members[h.Addr]; ok {
			if i == op.Obj {
				return "member," + s
			}
			if w.objs[i].Type == h.Type {
				return "stale-object,addr-present-same-type," + s
			}
			return "stale-object,addr-present-other-type," + s
		}
		return "stale-object,addr-absent," + s
	case "ReplaceAll":
		return "any"
	case "AddBatch", "RemoveBatch":
		return "batch:" + op.List
	}
	return ""
}

func (w *c15world) apply(op c15op) {
	switch op.Kind {
	case "AddFresh":
		i := w.fresh(op.Addr, Type(op.Typ))
		w.set.Add(w.objs[i])
		w.modelAdd(i)
	case "ReAdd":
		w.set.Add(w.objs[op.Obj])
		w.modelAdd(op.Obj)
	case "RemoveFresh":
		i := w.fresh(op.Addr, Type(op.Typ))
		w.set.Remove(w.objs[i])
		w.gone[i] = true
		w.modelRemoveAddr(op.Addr)
	case "RemoveObj":
		w.set.Remove(w.objs[op.Obj])
		w.gone[op.Obj] = true
		w.modelRemoveAddr(w.objs[op.Obj].Addr)
	case "AddBatch", "RemoveBatch":
		idx := parseList(w, op.List)
		hs := make([]*Host, len(idx))
		for k, i := range idx {
			hs[k] = w.objs[i]
		}
		if op.Kind == "AddBatch" {
			w.set.Add(hs...)
			for _, i := range idx {
				w.modelAdd(i)
			}
		} else {
			w.set.Remove(hs...)
			for _, i := range idx {
				w.gone[i] = true
				w.modelRemoveAddr(w.objs[i].Addr)
			}
		}
	case "ReplaceAll":
		idx := parseList(w, op.List)
		hs := make([]*Host, len(idx))
		for k, i := range idx {
			hs[k] = w.objs[i]
		}
		w.set.ReplaceAll(hs)
		for a := range w.members {
			w.modelRemoveAddr(a)
		}
		for _, i := range idx {
			w.modelAdd(i)
		}
	case "MarkHealthy":
		w.set.MarkHostHealthy(w.objs[op.Obj])
		w.flag[op.Obj] = true
	case "MarkUnhealthy":
		w.set.MarkHostUnhealthy(w.objs[op.Obj])
		w.flag[op.Obj] = false
	}
}

func (w *c15world) idx(h *Host) int {
	for i, o := range w.objs {
		if o == h {
			return i
		}
	}
	return -1
}

func (w *c15world) expectedUsable() []int {
	var main, backup []int
	for _, i := range w.members {
		if !w.flag[i] {
			continue
		}
		if w.objs[i].Type == TypeMain {
			main = append(main, i)
		} else {
			backup = append(backup, i)
		}
	}
	pick := main
	if len(pick) == 0 {
		pick = backup
	}
	sort.Slice(pick, func(x, y int) bool { return w.objs[pick[x]].Addr < w.objs[pick[y]].Addr })
	return pick
}

// check evaluates the oracle; returns "" or the name of the failed oracle + detail.
func (w *c15world) check() (string, string) {
	exp := w.expectedUsable()
	got := w.set.Healthy()
	var gi []int
	for _, h := range got {
		gi = append(gi, w.idx(h))
	}
	if fmt.Sprint(gi) != fmt.Sprint(exp) {
		why := "usable-view-differs"
		for _, i := range gi {
			if i < 0 || w.members[w.objs[i].Addr] != i || w.gone[i] {
				why = "usable-view-lists-non-member"
				break
			}
		}
		if why == "usable-view-differs" {
			for _, i := range gi {
				if !w.flag[i] {
					why = "usable-view-lists-unhealthy-member"
				}
			}
		}
		if why == "usable-view-differs" && len(gi) < len(exp) {
			why = "usable-view-misses-healthy-member"
		}
		return why, fmt.Sprintf("Healthy() returned objects %v, reference says %v (members %v, flags %v)", gi, exp, w.members, w.flag)
	}
	// Random(): every rand outcome
	n := len(w.set.healthy())
	for k := 0; k < n || k == 0; k++ {
		kk := k
		vrand.FreeIntn = func(int) int { return kk }
		h := w.set.Random()
		vrand.FreeIntn = nil
		if h == nil {
			if len(exp) != 0 {
				return "random-returns-nil", fmt.Sprintf("Random() returned nil with rand=%d although %v are usable", k, exp)
			}
			continue
		}
		i := w.idx(h)
		ok := false
		for _, e := range exp {
			if e == i {
				ok = true
			}
		}
		if !ok {
			return "random-selects-unusable", fmt.Sprintf("Random() with rand=%d returned object %d, usable are %v", k, i, exp)
		}
	}
	all := w.set.All()
	if len(all) != len(w.members) {
		return "all-differs", fmt.Sprintf("All() has %d hosts, reference %d", len(all), len(w.members))
	}
	for _, h := range all {
		i := w.idx(h)
		if i < 0 || w.members[h.Addr] != i {
			return "all-lists-non-member", fmt.Sprintf("All() lists object %d", i)
		}
	}
	return "", ""
}

func (w *c15world) canon() string {
	var b strings.Builder
	dump := func(name string, m map[string]*Host) {
		keys := make([]string, 0, len(m))
		for k := range m {
			keys = append(keys, k)
		}
		sort.Strings(keys)
		b.WriteString(name + "{")
		for _, k := range keys {
			fmt.Fprintf(&b, "%s:%d ", c15short(k), w.idx(m[k]))
		}
		b.WriteString("}")
	}
	dump("all", w.set.all)
	dump("hm", w.set.healthyMain)
	dump("hb", w.set.healthyBackup)
	b.WriteString("objs[")
	for i, o := range w.objs {
		rem := 0
		select {
		case <-o.removeCh:
			rem = 1
		default:
		}
		hf := 0
		if o.IsHealthy() {
			hf = 1
		}
		fmt.Fprintf(&b, "%d:%s%d%d%d%d ", i, c15short(o.Addr), o.Type, hf, rem, o.failedCount.Load())
	}
	b.WriteString("]")
	return b.String()
}

func c15enabled(w *c15world, maxObjs int) []c15op {
	var ops []c15op
	room := len(w.objs) < maxObjs
	if room {
		for _, a := range c15addrs {
			for t := 0; t < 2; t++ {
				ops = append(ops, c15op{Kind: "AddFresh", Addr: a, Typ: t})
			}
		}
		for _, a := range c15addrs {
			for t := 0; t < 2; t++ {
				ops = append(ops, c15op{Kind: "RemoveFresh", Addr: a, Typ: t})
			}
		}
	}
	if len(w.objs)+2 <= maxObjs {
		for _, l := range c15lists {
			ops = append(ops, c15op{Kind: "ReplaceAll", List: l})
		}
		// (also one address twice in one call, as two objects of the same or of different types)
		for _, l := range []string{"aM,bM", "bM,aM", "aM,bB", "bB,aM", "aM,aB", "aB,aM", "aM,aM"} {
			ops = append(ops, c15op{Kind: "AddBatch", List: l}, c15op{Kind: "RemoveBatch", List: l})
		}
	}
	for i := range w.objs {
		ops = append(ops, c15op{Kind: "ReAdd", Obj: i}, c15op{Kind: "RemoveObj", Obj: i},
			c15op{Kind: "MarkHealthy", Obj: i}, c15op{Kind: "MarkUnhealthy", Obj: i})
	}
	return ops
}

func c15replay(path []c15op) (*c15world, string, string, string) {
	w := newC15World()
	for i, op := range path {
		pre := w.pre(op)
		w.apply(op)
		if i == len(path)-1 {
			o, d := w.check()
			return w, o, d, pre
		}
	}
	o, d := w.check()
	return w, o, d, ""
}

func c15history(env sched.Env) *sched.Report {
	depth, maxObjs := 5, 5
	if env.Tier == "thorough" {
		depth, maxObjs = 7, 6
	}
	rep := &sched.Report{Outcomes: map[string]int64{}, Complete: true}
	type node struct{ path []c15op }
	seen := map[string]bool{newC15World().canon(): true}
	frontier := []node{{}}
	sigSeen := map[string]bool{}
	for d := 0; d < depth && len(frontier) > 0; d++ {
		var next []node
		for _, n := range frontier {
			if !env.Deadline.IsZero() && sched.PastDeadline(env.Deadline) {
				rep.Complete = false
				break
			}
			w0, _, _, _ := c15replay(n.path)
			for _, op := range c15enabled(w0, maxObjs) {
				path := append(append([]c15op{}, n.path...), op)
				w, oracle, detail, pre := c15replay(path)
				rep.Transitions++
				rep.Execs++
				sched.Progress(nil)
				if oracle != "" {
					sig := fmt.Sprintf("%s / %s / %s", oracle, op.Kind, pre)
					rep.Outcomes["violation: "+sig]++
					if !sigSeen[sig] {
						sigSeen[sig] = true
						rep.Violations = append(rep.Violations, sched.CustomViolation("C15/history", sig,
							fmt.Sprintf("history %v\n%s", path, detail), path))
					}
					continue // failing states are not expanded
				}
				rep.Outcomes["ok"]++
				k := w.canon()
				if seen[k] {
					continue
				}
				seen[k] = true
				if len(rep.CustomSamples) < 3 && len(path) >= 3 {
					rep.CustomSamples = append(rep.CustomSamples, fmt.Sprint(path))
				}
				next = append(next, node{path})
			}
		}
		frontier = next
		rep.Notes = append(rep.Notes, fmt.Sprintf("depth %d: %d states so far, frontier %d", d+1, len(seen), len(next)))
	}
	rep.States = int64(len(seen))
	rep.Distinct = rep.States
	return rep
}

func c15replayCustom(input json.RawMessage) []sched.Failure {
	var path []c15op
	if err := json.Unmarshal(input, &path); err != nil {
		return []sched.Failure{{Sig: "bad-input", Detail: err.Error()}}
	}
	w := newC15World()
	var out []sched.Failure
	for _, op := range path {
		pre := w.pre(op)
		w.apply(op)
		fmt.Printf("  %-28s -> %s\n", op, w.canon())
		if o, d := w.check(); o != "" {
			out = append(out, sched.Failure{Sig: fmt.Sprintf("%s / %s / %s", o, op.Kind, pre), Detail: d})
			break
		}
	}
	return out
}

func init() {
	sched.Register(&sched.Scenario{Name: "C15/history", Custom: c15history, ReplayCustom: c15replayCustom})
}

var _ = vsync.Mutex{}
