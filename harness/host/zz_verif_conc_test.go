//go:build go1.21

package host

import (
	"fmt"
	"sort"
	"strings"

	"github.com/samaritan-proxy/samaritan/verifrt/hutil"
	"github.com/samaritan-proxy/samaritan/verifrt/sched"
	vsync "github.com/samaritan-proxy/samaritan/verifrt/vsync"
)

// ---------------------------------------------------------------------------
// C15 (S): all interleavings (preemption bounded) of 2-3 threads doing 1-2 set
// operations each on one real host.Set, plus a concurrent reader.
//
// alphabet  the combos below (INPUT choice), hosts a,b main, c backup
// bound     P (quick 2, thorough 3)
// oracle    at the end: Healthy() == members whose flag is healthy in the preferred tier,
//           sorted, no duplicates; every Healthy() a reader saw was sorted, duplicate free and
//           contained only hosts that were members at some point of the execution; for combos of single batch
//           calls (ReplaceAll, Add(d,e), Remove(a,b)) the reader sees only views that exist before or after a call
// ---------------------------------------------------------------------------

type c15combo struct {
	name    string
	init    func(s *Set, h map[string]*Host)
	threads []func(s *Set, h map[string]*Host)
}

// c15views lists, for combos made of single batch calls, every usable view a concurrent reader may see: each
// call takes the set from one view to the next in one step.
var c15views = map[string][]string{
	"replaceall(c'backup,a',b')": {"[a b]", "[a2 b2]"},
	"add(d,e)||remove(a,b)":      {"[a b]", "[a b d e]", "[c]", "[d e]"},
}

func c15combos() []c15combo {
	A, B, C := "10.0.0.1:1", "10.0.0.2:1", "10.0.0.3:1"
	mk := func() (*Set, map[string]*Host) {
		h := map[string]*Host{"a": NewWithType(A, TypeMain), "b": NewWithType(B, TypeMain), "c": NewWithType(C, TypeBackup)}
		return NewSet(h["a"], h["b"], h["c"]), h
	}
	_ = mk
	return []c15combo{
		{"unhealthy(a)||healthy(a)", nil, []func(*Set, map[string]*Host){
			func(s *Set, h map[string]*Host) { s.MarkHostUnhealthy(h["a"]) },
			func(s *Set, h map[string]*Host) { s.MarkHostHealthy(h["a"]) },
		}},
		{"unhealthy(a);healthy(a)||unhealthy(a)", nil, []func(*Set, map[string]*Host){
			func(s *Set, h map[string]*Host) { s.MarkHostUnhealthy(h["a"]); s.MarkHostHealthy(h["a"]) },
			func(s *Set, h map[string]*Host) { s.MarkHostUnhealthy(h["a"]) },
		}},
		{"healthy(a)[a down]||unhealthy(a)||healthy(a)", func(s *Set, h map[string]*Host) { s.MarkHostUnhealthy(h["a"]) }, []func(*Set, map[string]*Host){
			func(s *Set, h map[string]*Host) { s.MarkHostHealthy(h["a"]) },
			func(s *Set, h map[string]*Host) { s.MarkHostUnhealthy(h["a"]) },
			func(s *Set, h map[string]*Host) { s.MarkHostHealthy(h["a"]) },
		}},
		{"unhealthy(a)||remove(a');add(a'')", nil, []func(*Set, map[string]*Host){
			func(s *Set, h map[string]*Host) { s.MarkHostUnhealthy(h["a"]) },
			func(s *Set, h map[string]*Host) {
				s.Remove(NewWithType(A, TypeMain))
				n := NewWithType(A, TypeMain)
				h["a2"] = n
				s.Add(n)
			},
		}},
		{"unhealthy(a);unhealthy(b)||remove(a)", nil, []func(*Set, map[string]*Host){
			func(s *Set, h map[string]*Host) { s.MarkHostUnhealthy(h["a"]); s.MarkHostUnhealthy(h["b"]) },
			func(s *Set, h map[string]*Host) { s.Remove(h["a"]) },
		}},
		{"add(d)||replaceall(a',b')", nil, []func(*Set, map[string]*Host){
			func(s *Set, h map[string]*Host) { n := New("10.0.0.4:1"); h["d"] = n; s.Add(n) },
			func(s *Set, h map[string]*Host) {
				a2, b2 := NewWithType(A, TypeMain), NewWithType(B, TypeBackup)
				h["a2"], h["b2"] = a2, b2
				s.ReplaceAll([]*Host{a2, b2})
			},
		}},
		{"replaceall(c'backup,a',b')", nil, []func(*Set, map[string]*Host){
			func(s *Set, h map[string]*Host) {
				c2, a2, b2 := NewWithType(C, TypeBackup), NewWithType(A, TypeMain), NewWithType(B, TypeMain)
				h["c2"], h["a2"], h["b2"] = c2, a2, b2
				s.ReplaceAll([]*Host{c2, a2, b2})
			},
		}},
		{"add(d,e)||remove(a,b)", nil, []func(*Set, map[string]*Host){
			func(s *Set, h map[string]*Host) {
				d, e := New("10.0.0.4:1"), New("10.0.0.5:1")
				h["d"], h["e"] = d, e
				s.Add(d, e)
			},
			func(s *Set, h map[string]*Host) { s.Remove(h["a"], h["b"]) },
		}},
		{"unhealthy(a)||unhealthy(b)||healthy(c)[c down]", func(s *Set, h map[string]*Host) { s.MarkHostUnhealthy(h["c"]) }, []func(*Set, map[string]*Host){
			func(s *Set, h map[string]*Host) { s.MarkHostUnhealthy(h["a"]) },
			func(s *Set, h map[string]*Host) { s.MarkHostUnhealthy(h["b"]) },
			func(s *Set, h map[string]*Host) { s.MarkHostHealthy(h["c"]) },
		}},
	}
}

func c15concBody() {
	hutil.Quiet()
	combos := c15combos()
	k := sched.Choose(sched.ClsInput, len(combos), "combo")
	cb := combos[k]
	A, B, C := "10.0.0.1:1", "10.0.0.2:1", "10.0.0.3:1"
	h := map[string]*Host{"a": NewWithType(A, TypeMain), "b": NewWithType(B, TypeMain), "c": NewWithType(C, TypeBackup)}
	s := NewSet(h["a"], h["b"], h["c"])
	if cb.init != nil {
		cb.init(s, h)
	}
	var wg vsync.WaitGroup
	var seen [][]*Host
	for _, th := range cb.threads {
		th := th
		wg.Add(1)
		sched.Go(func() { defer wg.Done(); th(s, h) })
	}
	wg.Add(1)
	sched.GoNamed("reader", func() {
		defer wg.Done()
		seen = append(seen, s.Healthy())
		seen = append(seen, s.Healthy())
	})
	wg.Wait()

	name := func(x *Host) string {
		for k, v := range h {
			if v == x {
				return k
			}
		}
		return "?" + x.Addr
	}
	render := func(hs []*Host) string {
		var out []string
		for _, x := range hs {
			out = append(out, name(x))
		}
		return "[" + strings.Join(out, " ") + "]"
	}
	for _, hs := range seen {
		if views := c15views[cb.name]; views != nil {
			ok := false
			for _, v := range views {
				ok = ok || v == render(hs)
			}
			if !ok {
				sched.Fail("reader-saw-view-between-two-states / "+cb.name, fmt.Sprintf("a concurrent reader saw %s; the views before and after each single call are %v", render(hs), views))
			}
		}
		for i := range hs {
			if name(hs[i])[0] == '?' {
				sched.Fail("reader-saw-unknown-host", cb.name+": "+render(hs))
			}
			if i > 0 && hs[i-1].Addr >= hs[i].Addr {
				sched.Fail("reader-saw-unsorted-or-duplicate", cb.name+": "+render(hs))
			}
		}
	}
	// final consistency
	members := map[*Host]bool{}
	all := s.All()
	for _, x := range all {
		members[x] = true
	}
	var main, backup []*Host
	for _, x := range all { // (slice order: the harness must not iterate a map, Go randomises the order)
		if !x.IsHealthy() {
			continue
		}
		if x.Type == TypeMain {
			main = append(main, x)
		} else {
			backup = append(backup, x)
		}
	}
	exp := main
	if len(exp) == 0 {
		exp = backup
	}
	sort.Slice(exp, func(i, j int) bool { return exp[i].Addr < exp[j].Addr })
	got := s.Healthy()
	sched.SetOutcome(cb.name + " -> " + render(got))
	if render(got) != render(exp) {
		why := "final-usable-view-differs"
		for _, g := range got {
			if !members[g] {
				why = "final-usable-view-lists-non-member"
			} else if !g.IsHealthy() {
				why = "final-usable-view-lists-unhealthy-member"
			}
		}
		if why == "final-usable-view-differs" && len(got) < len(exp) {
			why = "final-usable-view-misses-healthy-member"
		}
		sched.Fail(why+" / "+cb.name, fmt.Sprintf("Healthy()=%s but members flagged healthy in the preferred tier=%s", render(got), render(exp)))
	}
}

func init() {
	sched.Register(&sched.Scenario{Name: "C15/concurrent", Setup: func(tier string) (sched.Config, func()) {
		b := sched.Bounds{P: 2, F: -1}
		if tier == "thorough" {
			b.P = 3
		}
		return sched.Config{Bounds: b, Iterative: true}, c15concBody
	}})
}

// Race pass: the set operations of the concurrent scenarios by real goroutines under the race detector.
func c15setRace() {
	A, B, C := "10.0.0.1:1", "10.0.0.2:1", "10.0.0.3:1"
	a, b, c := NewWithType(A, TypeMain), NewWithType(B, TypeMain), NewWithType(C, TypeBackup)
	s := NewSet(a, b, c)
	var wg vsync.WaitGroup
	run := func(f func()) { wg.Add(1); go func() { defer wg.Done(); f() }() }
	run(func() { s.MarkHostUnhealthy(a); s.MarkHostHealthy(a) })
	run(func() { s.MarkHostUnhealthy(a); s.MarkHostUnhealthy(b) })
	run(func() { s.Remove(NewWithType(B, TypeMain)); s.Add(NewWithType(B, TypeMain)) })
	run(func() { s.ReplaceAll([]*Host{NewWithType(A, TypeMain), NewWithType(C, TypeBackup)}) })
	run(func() {
		for i := 0; i < 4; i++ {
			for _, h := range s.Healthy() {
				_ = h.Addr
			}
			_ = s.Random()
			_ = s.All()
			_ = s.Len()
		}
	})
	wg.Wait()
}

func init() {
	sched.Register(&sched.Scenario{Name: "C15/set-race", Race: c15setRace})
}
