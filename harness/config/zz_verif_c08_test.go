//go:build go1.21

package config

import (
	"context"
	"errors"
	"fmt"
	"sort"
	"strings"
	"time"

	"google.golang.org/grpc"

	"github.com/samaritan-proxy/samaritan/pb/api"
	"github.com/samaritan-proxy/samaritan/pb/common"
	"github.com/samaritan-proxy/samaritan/pb/config/bootstrap"
	"github.com/samaritan-proxy/samaritan/pb/config/protocol"
	"github.com/samaritan-proxy/samaritan/pb/config/service"
	"github.com/samaritan-proxy/samaritan/verifrt/sched"
)

// ---------------------------------------------------------------------------
// C08 (S) discovery streams feeding the real store: the real discoveryClient (three stream goroutines and
// their send/receive loops) with the store's own handlers as hooks, over a scripted discovery service that
// behaves like the real one: a subscription is answered once with the service's current configuration
// (config stream) / current endpoints (endpoint stream); afterwards only changes are sent.
//
// history   dependency messages: +foo | +foo +bar (one message) | +foo, -foo, +foo | +foo then a config change
//           of foo at the source   (INPUT)
// bound     P, F, Sel (see Setup)
// oracle    once everything is processed, replaying the store's events like the controller does yields exactly
//           one running service per current dependency, with the source's current configuration and endpoints
// ---------------------------------------------------------------------------

type discWorld struct {
	depMsgs   []*api.DependencyDiscoveryResponse
	cfgMsgs   []*api.SvcConfigDiscoveryResponse
	epMsgs    []*api.SvcEndpointDiscoveryResponse
	cancelled bool
	// the source of truth at the discovery service
	srcCfg map[string]*service.Config
	srcEps map[string][]*service.Endpoint
	cfgSub map[string]bool
}

type discDepStream struct {
	stubStream
	w *discWorld
}

func (s *discDepStream) Recv() (*api.DependencyDiscoveryResponse, error) {
	sched.Wait("dep-recv", "dependency-stream", func() bool { return len(s.w.depMsgs) > 0 || s.w.cancelled })
	if s.w.cancelled {
		return nil, errors.New("cancelled")
	}
	m := s.w.depMsgs[0]
	s.w.depMsgs = s.w.depMsgs[1:]
	return m, nil
}

type discCfgStream struct {
	stubStream
	w *discWorld
}

func (s *discCfgStream) Send(r *api.SvcConfigDiscoveryRequest) error {
	sched.Op("stream-send", "config-stream")
	for _, n := range r.SvcNamesUnsubscribe {
		delete(s.w.cfgSub, n)
	}
	for _, n := range r.SvcNamesSubscribe {
		s.w.cfgSub[n] = true
		if c, ok := s.w.srcCfg[n]; ok {
			s.w.cfgMsgs = append(s.w.cfgMsgs, &api.SvcConfigDiscoveryResponse{Updated: map[string]*service.Config{n: c}})
		}
	}
	return nil
}

func (s *discCfgStream) Recv() (*api.SvcConfigDiscoveryResponse, error) {
	sched.Wait("stream-recv", "config-stream", func() bool { return len(s.w.cfgMsgs) > 0 || s.w.cancelled })
	if s.w.cancelled {
		return nil, errors.New("cancelled")
	}
	m := s.w.cfgMsgs[0]
	s.w.cfgMsgs = s.w.cfgMsgs[1:]
	return m, nil
}

type discEpStream struct {
	stubStream
	w *discWorld
}

func (s *discEpStream) Send(r *api.SvcEndpointDiscoveryRequest) error {
	sched.Op("stream-send", "endpoint-stream")
	for _, n := range r.SvcNamesSubscribe {
		if eps, ok := s.w.srcEps[n]; ok {
			s.w.epMsgs = append(s.w.epMsgs, &api.SvcEndpointDiscoveryResponse{SvcName: n, Added: eps})
		}
	}
	return nil
}

func (s *discEpStream) Recv() (*api.SvcEndpointDiscoveryResponse, error) {
	sched.Wait("stream-recv", "endpoint-stream", func() bool { return len(s.w.epMsgs) > 0 || s.w.cancelled })
	if s.w.cancelled {
		return nil, errors.New("cancelled")
	}
	m := s.w.epMsgs[0]
	s.w.epMsgs = s.w.epMsgs[1:]
	return m, nil
}

type discAPI struct{ w *discWorld }

func (f *discAPI) StreamDependencies(ctx context.Context, in *api.DependencyDiscoveryRequest, opts ...grpc.CallOption) (api.DiscoveryService_StreamDependenciesClient, error) {
	return &discDepStream{stubStream{ctx}, f.w}, nil
}

func (f *discAPI) StreamSvcConfigs(ctx context.Context, opts ...grpc.CallOption) (api.DiscoveryService_StreamSvcConfigsClient, error) {
	return &discCfgStream{stubStream{ctx}, f.w}, nil
}

func (f *discAPI) StreamSvcEndpoints(ctx context.Context, opts ...grpc.CallOption) (api.DiscoveryService_StreamSvcEndpointsClient, error) {
	return &discEpStream{stubStream{ctx}, f.w}, nil
}

func discCfg(idle time.Duration) *service.Config {
	to := time.Second
	return &service.Config{
		Listener:       &service.Listener{Address: &common.Address{Ip: "127.0.0.1", Port: 7000}},
		ConnectTimeout: &to,
		IdleTimeout:    &idle,
		Protocol:       protocol.TCP,
		ProtocolOptions: &service.Config_TcpOption{
			TcpOption: &protocol.TCPOption{},
		},
	}
}

func discEps(ips ...string) []*service.Endpoint {
	var out []*service.Endpoint
	for _, ip := range ips {
		out = append(out, &service.Endpoint{Address: &common.Address{Ip: ip, Port: 80}})
	}
	return out
}

func c08discoveryBody() {
	w := &discWorld{srcCfg: map[string]*service.Config{}, srcEps: map[string][]*service.Endpoint{}, cfgSub: map[string]bool{}}
	w.srcCfg["foo"], w.srcEps["foo"] = discCfg(time.Minute), discEps("10.0.0.1")
	w.srcCfg["bar"], w.srcEps["bar"] = discCfg(2*time.Minute), discEps("10.0.0.2", "10.0.0.3")
	plan := sched.Choose(sched.ClsInput, 4, "plan")
	var msgs []*api.DependencyDiscoveryResponse
	deps := map[string]bool{"foo": true}
	switch plan {
	case 0, 3:
		msgs = append(msgs, &api.DependencyDiscoveryResponse{Added: svcs("foo")})
	case 1:
		msgs = append(msgs, &api.DependencyDiscoveryResponse{Added: svcs("foo", "bar")})
		deps["bar"] = true
	case 2:
		msgs = append(msgs, &api.DependencyDiscoveryResponse{Added: svcs("foo")}, &api.DependencyDiscoveryResponse{Removed: svcs("foo")}, &api.DependencyDiscoveryResponse{Added: svcs("foo")})
	}
	store, err := New(&bootstrap.Bootstrap{Admin: &bootstrap.Admin{Bind: &common.Address{Ip: "127.0.0.1", Port: 8888}}})
	if err != nil {
		panic(err)
	}
	c := newDiscoveryClient(&discAPI{w})
	ctx, cancel := context.WithCancel(context.Background())
	inst := &common.Instance{Id: "i", Belong: "b"}
	sched.GoNamed("dependency-stream", func() { c.StreamDependencies(ctx, inst, store.handleDependencyUpdate) })
	sched.GoNamed("config-stream", func() { c.StreamSvcConfigs(ctx, store.handleSvcConfigUpdate) })
	sched.GoNamed("endpoint-stream", func() { c.StreamSvcEndpoints(ctx, store.handleSvcEndpointUpdate) })
	sched.WaitQuiescent()
	// the dependency messages arrive back to back
	w.depMsgs = append(w.depMsgs, msgs...)
	sched.Settle(4)
	if plan == 3 {
		// the configuration of foo changes at the source; subscribers are told
		w.srcCfg["foo"] = discCfg(3 * time.Minute)
		if w.cfgSub["foo"] {
			w.cfgMsgs = append(w.cfgMsgs, &api.SvcConfigDiscoveryResponse{Updated: map[string]*service.Config{"foo": w.srcCfg["foo"]}})
		}
		sched.Settle(4)
	}
	// replay the store's events like the controller does
	type run struct {
		cfg *service.Config
		eps map[string]bool
	}
	running := map[string]*run{}
	evts := store.Subscribe()
	for len(evts) > 0 {
		switch e := (<-evts).(type) {
		case *SvcAddEvent:
			r := &run{cfg: e.Config, eps: map[string]bool{}}
			for _, ep := range e.Endpoints {
				r.eps[ep.Address.Ip] = true
			}
			running[e.Name] = r
		case *SvcRemoveEvent:
			delete(running, e.Name)
		case *SvcConfigEvent:
			if r := running[e.Name]; r != nil {
				r.cfg = e.Config
			}
		case *SvcEndpointEvent:
			if r := running[e.Name]; r != nil {
				for _, ep := range e.Added {
					r.eps[ep.Address.Ip] = true
				}
				for _, ep := range e.Removed {
					delete(r.eps, ep.Address.Ip)
				}
			}
		}
	}
	tag := fmt.Sprintf("plan %d", plan)
	for _, name := range []string{"bar", "foo"} {
		r := running[name]
		switch {
		case deps[name] && r == nil:
			sched.Fail("configured-service-not-running / discovery streams feeding the store", fmt.Sprintf("%s: %s is a dependency with a configuration and endpoints at the discovery service, but the store never announced it; store table: %v", tag, name, store.VerifDump(func(c *service.Config) string {
				if c == nil {
					return "none"
				}
				return c.IdleTimeout.String()
			})))
		case !deps[name] && r != nil:
			sched.Fail("processor-running-for-service-not-in-store / discovery streams feeding the store", fmt.Sprintf("%s: %s", tag, name))
		case r != nil:
			var got, want []string
			for ip := range r.eps {
				got = append(got, ip)
			}
			for _, ep := range w.srcEps[name] {
				want = append(want, ep.Address.Ip)
			}
			sort.Strings(got)
			sort.Strings(want)
			if strings.Join(got, ",") != strings.Join(want, ",") || r.cfg == nil || *r.cfg.IdleTimeout != *w.srcCfg[name].IdleTimeout {
				sched.Fail("processor-differs-from-store / discovery streams feeding the store", fmt.Sprintf("%s: %s runs with %v idle=%v, the source has %v idle=%v", tag, name, got, r.cfg.GetIdleTimeout(), want, w.srcCfg[name].IdleTimeout))
			}
		}
	}
	sched.SetOutcome(tag)
	w.cancelled = true
	cancel()
}

func init() {
	sched.Register(&sched.Scenario{Name: "C08/discovery", Setup: func(tier string) (sched.Config, func()) {
		b := sched.Bounds{P: 1, F: 1, Sel: 1}
		if tier == "thorough" {
			b = sched.Bounds{P: 2, F: 2, Sel: 1}
		}
		return sched.Config{Bounds: b, Iterative: true, MaxSteps: 100000}, c08discoveryBody
	}})
}
