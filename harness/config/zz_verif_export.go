//go:build verif && go1.21

package config

import "github.com/samaritan-proxy/samaritan/pb/config/service"

// Verification seams (only compiled into the instrumented overlay build): the store's three
// update handlers are otherwise reachable only through a live gRPC stream.

func (c *Config) VerifDependencyUpdate(added, removed []*service.Service) {
	c.handleDependencyUpdate(added, removed)
}

func (c *Config) VerifSvcConfigUpdate(name string, cfg *service.Config) {
	c.handleSvcConfigUpdate(name, cfg)
}

func (c *Config) VerifSvcEndpointUpdate(name string, added, removed []*service.Endpoint) {
	c.handleSvcEndpointUpdate(name, added, removed)
}

// VerifDump renders the store's service table canonically.
func (c *Config) VerifDump(cfgName func(*service.Config) string) map[string][2]string {
	c.RLock()
	defer c.RUnlock()
	out := map[string][2]string{}
	for name, sw := range c.sws {
		eps := "nil"
		if sw.Endpoints != nil {
			eps = ""
			for _, e := range sw.Endpoints {
				eps += e.Address.Ip + ","
			}
		}
		out[name] = [2]string{cfgName(sw.Config), eps}
	}
	return out
}

// VerifPendingEvents reports the number of queued events.
func (c *Config) VerifPendingEvents() int { return len(c.evtCh) }
