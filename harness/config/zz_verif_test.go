//go:build go1.21

package config

import (
	"context"
	"encoding/json"
	"errors"
	"fmt"
	"sort"
	"strings"
	"testing"

	"github.com/samaritan-proxy/samaritan/verifrt/hutil"
	"github.com/samaritan-proxy/samaritan/verifrt/sched"
	"google.golang.org/grpc/codes"
	"google.golang.org/grpc/status"
)

func TestVerif(t *testing.T) { hutil.Quiet(); sched.Main(t) }

// ---------------------------------------------------------------------------
// C16 (S): the real subscription client (svcDiscoveryClient) with a scripted stream factory.
//
// threads   Run (with its sender loop), the receiver it spawns, one caller executing a sequence of
//           Subscribe/Unsubscribe, a fault thread that breaks the current stream
// alphabet  caller sequences over names {x,y,z} of length <= 4 (INPUT), or 17-20 distinct Subscribes (queue 16),
//           or the queues shrunk to 2 with 3-5 distinct Subscribes; stream creation fails / Send fails as ENV
//           choices; the fault thread breaks the stream 0..2 times at schedule-chosen moments
// bound     P, F, Sel, Env (see Setup); retry timers are virtual; the harness lets up to 6 of them fire before judging
// oracle    at quiescence with a stream up: the server's set for the current stream (subscribe minus
//           unsubscribe folded per message) = the client's subscribed map = the caller's reference set;
//           the caller is not blocked; Run is alive (parked on the stream or on its retry timer)
// ---------------------------------------------------------------------------

type fakeStream struct {
	w      *c16world
	id     int
	set    map[string]bool
	broken bool
	// recvBroken: the server ended its side (Recv fails) but a Send on the dead stream still returns without
	// error, as it may for a while on a real stream
	recvBroken bool
	msgs       int
	ambig      bool
}

func (s *fakeStream) Send(sub, unsub []string) error {
	sched.Op("stream-send", "stream")
	if s.w.holdSend {
		// the transport is slow: the call returns when it is released (or finds the stream broken by then)
		sched.Wait("stream-send-in-progress", "stream", func() bool { return !s.w.holdSend })
	}
	if s.broken {
		return s.w.err("stream broken")
	}
	if s.w.sendFailures > 0 && sched.Choose(sched.ClsEnv, 2, "send-fails") == 1 {
		s.w.sendFailures--
		s.broken = true
		return s.w.err("send failed")
	}
	s.msgs++
	in := map[string]bool{}
	for _, n := range sub {
		in[n] = true
		s.set[n] = true
	}
	for _, n := range unsub {
		if in[n] {
			s.ambig = true
		}
		delete(s.set, n)
	}
	return nil
}

func (s *fakeStream) Recv() error {
	sched.Wait("stream-recv", "stream", func() bool { return s.broken || s.recvBroken || s.w.cancelled })
	if s.w.cancelled {
		return errors.New("stream closed")
	}
	return s.w.err("stream closed")
}

type c16world struct {
	c            *svcDiscoveryClient
	streams      []*fakeStream
	createFails  int
	sendFailures int
	cancelled    bool
	down         bool // the discovery service is unreachable: no stream can be created
	holdSend     bool // Send calls are in progress until released
	errKind      int  // what a failing stream operation returns: 0 a plain error, 1 gRPC status Canceled, 2 gRPC status Unavailable
}

// err is the error of a failed stream operation (the client's own context is alive whenever it is returned).
func (w *c16world) err(msg string) error {
	switch w.errKind {
	case 1:
		return status.Error(codes.Canceled, msg) // e.g. the server cancelled the RPC while shutting down
	case 2:
		return status.Error(codes.Unavailable, msg)
	}
	return errors.New(msg)
}

func (w *c16world) maker(ctx context.Context) (svcDiscoveryStream, error) {
	sched.Op("stream-create", "stream")
	if w.down {
		return nil, w.err("discovery service unreachable")
	}
	if w.createFails > 0 && sched.Choose(sched.ClsEnv, 2, "create-fails") == 1 {
		w.createFails--
		return nil, w.err("cannot create stream")
	}
	s := &fakeStream{w: w, id: len(w.streams), set: map[string]bool{}}
	w.streams = append(w.streams, s)
	return s, nil
}

func (w *c16world) current() *fakeStream {
	if len(w.streams) == 0 {
		return nil
	}
	s := w.streams[len(w.streams)-1]
	if s.broken || s.recvBroken {
		return nil
	}
	return s
}

func keysOf(m map[string]bool) string {
	var ks []string
	for k, v := range m {
		if v {
			ks = append(ks, k)
		}
	}
	sort.Strings(ks)
	return strings.Join(ks, ",")
}

func c16body(variant string) func() {
	return func() {
		w := &c16world{createFails: 2, sendFailures: 2}
		w.c = newSvcDiscoveryClient("config", w.maker)
		var seq []string
		downFirst := false
		switch variant {
		case "short":
			ops := []string{"+x", "+y", "-x", "-y", "+z"}
			n := 1 + sched.Choose(sched.ClsInput, 4, "len")
			for i := 0; i < n; i++ {
				seq = append(seq, ops[sched.Choose(sched.ClsInput, len(ops), "op")])
			}
		case "many":
			n := 17 + sched.Choose(sched.ClsInput, 4, "count")
			for i := 0; i < n; i++ {
				seq = append(seq, fmt.Sprintf("+svc%02d", i))
			}
			downFirst = sched.Choose(sched.ClsInput, 2, "stream-down-at-first") == 1
		case "smallqueue":
			w.c.subCh = make(chan string, 2)
			w.c.unsubCh = make(chan string, 2)
			n := 3 + sched.Choose(sched.ClsInput, 3, "count")
			for i := 0; i < n; i++ {
				seq = append(seq, fmt.Sprintf("+svc%02d", i))
			}
			if sched.Choose(sched.ClsInput, 2, "with-unsubscribes") == 1 {
				seq = append(seq, "-svc00", "-svc01", "-svc02")
			}
			downFirst = sched.Choose(sched.ClsInput, 2, "stream-down-at-first") == 1
		}
		ctx, cancel := context.WithCancel(context.Background())
		ref := map[string]bool{}
		callerDone := false
		caller := func() {
			for _, op := range seq {
				if op[0] == '+' {
					w.c.Subscribe(op[1:])
					ref[op[1:]] = true
				} else {
					w.c.Unsubscribe(op[1:])
					delete(ref, op[1:])
				}
			}
			callerDone = true
		}
		if downFirst {
			// the dependencies arrive while no stream has been established yet
			sched.GoNamed("caller", caller)
			sched.WaitQuiescent()
			sched.GoNamed("Run", func() { w.c.Run(ctx) })
		} else {
			sched.GoNamed("Run", func() { w.c.Run(ctx) })
			sched.GoNamed("caller", caller)
		}
		breaks := sched.Choose(sched.ClsInput, 3, "breaks")
		if breaks > 0 {
			sched.GoNamed("fault", func() {
				for i := 0; i < breaks; i++ {
					sched.Yield()
					if s := w.current(); s != nil {
						s.broken = true
					}
					sched.Yield()
				}
			})
		}
		sched.Settle(6)
		tag := fmt.Sprintf("variant=%s calls=%d stream-down-first=%v breaks=%d", variant, len(seq), downFirst, breaks)
		if !callerDone {
			where := ""
			for _, b := range sched.Blocked() {
				if b.Name == "caller" {
					where = b.Kind
				}
			}
			runAt := ""
			for _, b := range sched.Blocked() {
				if b.Name == "Run" {
					runAt = b.Kind
				}
			}
			over := "within the queue size"
			if len(seq) > cap(w.c.subCh) {
				over = "more calls than the queue holds"
			}
			sched.Fail("caller-blocked-forever / "+over, fmt.Sprintf("%s: the caller is parked in %s, Run is parked in %s, %d streams created", tag, where, runAt, len(w.streams)))
		}
		if !sched.Alive("Run") {
			sched.Fail("client-stopped-retrying", tag)
		}
		cur := w.current()
		if cur == nil {
			sched.Fail("no-stream-at-quiescence", fmt.Sprintf("%s: %d streams created, retry budget exhausted?", tag, len(w.streams)))
		}
		clientSet := map[string]bool{}
		for k := range w.c.subscribed {
			clientSet[k] = true
		}
		if keysOf(clientSet) != keysOf(ref) {
			sched.Fail("client-set-differs-from-dependencies", fmt.Sprintf("%s: client %s, dependencies %s", tag, keysOf(clientSet), keysOf(ref)))
		}
		if keysOf(cur.set) != keysOf(ref) {
			kind := "stream-subscriptions-differ-from-dependencies"
			if cur.ambig {
				kind += " / subscribe and unsubscribe of one service in one message"
			}
			sched.Fail(kind, fmt.Sprintf("%s calls %v: stream %d holds {%s}, dependencies {%s}", tag, seq, cur.id, keysOf(cur.set), keysOf(ref)))
		}
		sched.SetOutcome(fmt.Sprintf("%s streams=%d", variant, len(w.streams)))
		w.cancelled = true
		cancel()
	}
}

// ---------------------------------------------------------------------------
// C16 (H) phases: every history of calls and stream outages, each step run to quiescence (retry timers
// included) at the default schedule.
//
// alphabet  +x | -x | +y | -y | the stream breaks and the service stays unreachable | the service is reachable again
// bound     length <= 5 (quick) / 6 (thorough)
// oracle    after a final "reachable again": the set subscribed on the live stream = the client's set = the dependency set
// ---------------------------------------------------------------------------

// C16 (S) slow send: a Send is still in progress when the stream breaks; more services are added before it
// returns. Whatever happens to the old stream's sender, the re-established stream ends with the dependency set.
func c16slowSendBody() {
	w := &c16world{}
	w.c = newSvcDiscoveryClient("config", w.maker)
	ctx, cancel := context.WithCancel(context.Background())
	sched.GoNamed("Run", func() { w.c.Run(ctx) })
	sched.Settle(4)
	w.holdSend = true
	w.c.Subscribe("x")
	sched.WaitQuiescent() // the sender is inside Send now
	how := sched.Choose(sched.ClsInput, 2, "how the stream breaks")
	if s := w.current(); s != nil {
		if how == 0 {
			s.broken = true
		} else {
			s.recvBroken = true // only the receiving side fails; the pending Send still returns normally
		}
	}
	sched.Settle(4)
	n := 1 + sched.Choose(sched.ClsInput, 2, "services added meanwhile")
	ref := map[string]bool{"x": true}
	for i := 0; i < n; i++ {
		name := fmt.Sprintf("y%d", i)
		w.c.Subscribe(name)
		ref[name] = true
	}
	sched.WaitQuiescent()
	w.holdSend = false
	sched.Settle(8)
	cur := w.current()
	if cur == nil {
		sched.Fail("no-stream-at-quiescence / slow send", fmt.Sprintf("%d streams created", len(w.streams)))
	} else if keysOf(cur.set) != keysOf(ref) {
		sched.Fail("stream-subscriptions-differ-from-dependencies / a send was in progress when the stream broke", fmt.Sprintf("stream %d holds {%s}, dependencies {%s}", cur.id, keysOf(cur.set), keysOf(ref)))
	}
	sched.SetOutcome(fmt.Sprint(n))
	w.cancelled = true
	cancel()
}

var c16phaseOps = []string{"+x", "-x", "+y", "-y", "outage", "back"}

type c16phaseCase struct {
	Ops []int `json:"ops"`
	Err int   `json:"error_kind,omitempty"` // 0 plain error, 1 gRPC Canceled, 2 gRPC Unavailable
}

func (c c16phaseCase) String() string {
	var s []string
	for _, o := range c.Ops {
		s = append(s, c16phaseOps[o])
	}
	return strings.Join(s, " ")
}

func c16phaseRun(cs c16phaseCase) (sig, detail string) {
	e := sched.RunOnce(nil, sched.Options{MaxSteps: 200000}, func() {
		w := &c16world{errKind: cs.Err}
		w.c = newSvcDiscoveryClient("config", w.maker)
		ctx, cancel := context.WithCancel(context.Background())
		sched.GoNamed("Run", func() { w.c.Run(ctx) })
		sched.Settle(4)
		ref := map[string]bool{}
		for _, o := range append(append([]int{}, cs.Ops...), 5) { // every history ends with the service reachable
			switch op := c16phaseOps[o]; op {
			case "outage":
				w.down = true
				if s := w.current(); s != nil {
					s.broken = true
				}
			case "back":
				w.down = false
			default:
				if op[0] == '+' {
					w.c.Subscribe(op[1:])
					ref[op[1:]] = true
				} else {
					w.c.Unsubscribe(op[1:])
					delete(ref, op[1:])
				}
			}
			sched.Settle(8)
		}
		cur := w.current()
		if cur == nil {
			sched.Fail("no-stream-at-quiescence / phases", fmt.Sprintf("history [%s]: %d streams created", cs, len(w.streams)))
		} else if keysOf(cur.set) != keysOf(ref) {
			sched.Fail("stream-subscriptions-differ-from-dependencies / after an outage", fmt.Sprintf("history [%s]: stream %d holds {%s}, dependencies {%s}", cs, cur.id, keysOf(cur.set), keysOf(ref)))
		}
		clientSet := map[string]bool{}
		for k := range w.c.subscribed {
			clientSet[k] = true
		}
		if keysOf(clientSet) != keysOf(ref) {
			sched.Fail("client-set-differs-from-dependencies / phases", fmt.Sprintf("history [%s]: client %s, dependencies %s", cs, keysOf(clientSet), keysOf(ref)))
		}
		w.cancelled = true
		cancel()
	})
	for _, f := range e.Failures {
		return f.Sig, f.Detail
	}
	return "", ""
}

func c16phases(env sched.Env) *sched.Report {
	rep := &sched.Report{Outcomes: map[string]int64{}, Complete: true}
	depth := 5
	if env.Tier == "thorough" {
		depth = 6
	}
	sigs := map[string]bool{}
	n := 0
	var rec func(ops []int)
	rec = func(ops []int) {
		if len(ops) > 0 {
			n++
			if n%env.NShards == env.Shard {
				outage := false
				for _, o := range ops {
					outage = outage || c16phaseOps[o] == "outage"
				}
				for kind := 0; kind < 3; kind++ {
					if kind > 0 && !outage {
						continue // (the kind of error only matters where a stream operation fails)
					}
					cs := c16phaseCase{Ops: append([]int{}, ops...), Err: kind}
					sched.Progress(cs)
					sig, detail := c16phaseRun(cs)
					rep.Execs++
					sched.Progress(nil)
					rep.Transitions += int64(len(ops))
					if sig != "" {
						if kind > 0 {
							sig += fmt.Sprintf(" / stream errors with gRPC status %s", []string{"", "Canceled", "Unavailable"}[kind])
						}
						rep.Outcomes["violation: "+sig]++
						if !sigs[sig] {
							sigs[sig] = true
							rep.Violations = append(rep.Violations, sched.CustomViolation("C16/phases", sig, detail, cs))
						}
					} else {
						rep.Outcomes["ok"]++
					}
				}
			}
		}
		if len(ops) == depth {
			return
		}
		for op := range c16phaseOps {
			rec(append(ops, op))
		}
	}
	rec(nil)
	rep.States, rep.Distinct = rep.Execs, rep.Execs
	rep.CustomSamples = []interface{}{c16phaseCase{Ops: []int{0, 4, 1, 5, 0}}.String()}
	return rep
}

func init() {
	sched.Register(&sched.Scenario{Name: "C16/phases", Custom: c16phases, ReplayCustom: func(in json.RawMessage) []sched.Failure {
		var cs c16phaseCase
		json.Unmarshal(in, &cs)
		sig, detail := c16phaseRun(cs)
		fmt.Println(cs.String(), "->", sig, detail)
		if sig == "" {
			return nil
		}
		return []sched.Failure{{Sig: sig, Detail: detail}}
	}})
	reg := func(name, variant string, quick, thorough sched.Bounds) {
		sched.Register(&sched.Scenario{Name: name, Setup: func(tier string) (sched.Config, func()) {
			b := quick
			if tier == "thorough" {
				b = thorough
			}
			return sched.Config{Bounds: b, Iterative: true, MaxSteps: 100000}, c16body(variant)
		}})
	}
	sched.Register(&sched.Scenario{Name: "C16/slow-send", Setup: func(tier string) (sched.Config, func()) {
		b := sched.Bounds{P: 1, F: 1, Sel: 1}
		if tier == "thorough" {
			b = sched.Bounds{P: 2, F: 2, Sel: 2}
		}
		return sched.Config{Bounds: b, Iterative: true, MaxSteps: 100000}, c16slowSendBody
	}})
	reg("C16/short", "short", sched.Bounds{P: 1, F: 1, Sel: 1, Env: 1}, sched.Bounds{P: 2, F: 1, Sel: 1, Env: 2})
	reg("C16/many", "many", sched.Bounds{P: 0, F: 1, Sel: 0, Env: 1}, sched.Bounds{P: 1, F: 1, Sel: 1, Env: 1})
	reg("C16/smallqueue", "smallqueue", sched.Bounds{P: 1, F: 1, Sel: 1, Env: 1}, sched.Bounds{P: 2, F: 2, Sel: 1, Env: 2})
}
