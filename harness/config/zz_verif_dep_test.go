//go:build go1.21

package config

import (
	"context"
	"errors"
	"fmt"

	"google.golang.org/grpc"
	"google.golang.org/grpc/metadata"

	"github.com/samaritan-proxy/samaritan/pb/api"
	"github.com/samaritan-proxy/samaritan/pb/common"
	"github.com/samaritan-proxy/samaritan/pb/config/service"
	"github.com/samaritan-proxy/samaritan/verifrt/sched"
)

// ---------------------------------------------------------------------------
// C16 (S) dependency hook: the real discoveryClient (dependency stream feeding the two subscription
// clients through its hook) over a scripted DiscoveryServiceClient.
//
// history   dependency messages: +16 services, +x, -x (INPUT: also +x,-x,+x and -svc00; one message naming a service
//           both as added and as removed), while the service
//           streams are down; then the service streams come up
// bound     P, F, Sel (see Setup); virtual retry timers (Settle)
// oracle    at quiescence with the streams up, the set subscribed on the config stream and on the endpoint
//           stream (subscribe minus unsubscribe, folded per message) equals the current dependency set
// ---------------------------------------------------------------------------

type stubStream struct{ ctx context.Context }

func (stubStream) Header() (metadata.MD, error) { return nil, nil }
func (stubStream) Trailer() metadata.MD         { return nil }
func (stubStream) CloseSend() error             { return nil }
func (s stubStream) Context() context.Context   { return s.ctx }
func (stubStream) SendMsg(m interface{}) error  { return nil }
func (stubStream) RecvMsg(m interface{}) error  { return nil }

type depWorld struct {
	msgs      []*api.DependencyDiscoveryResponse
	svcUp     bool
	cancelled bool
	cfgSets   []map[string]bool
	epSets    []map[string]bool
}

type depStream struct {
	stubStream
	w *depWorld
}

func (s *depStream) Recv() (*api.DependencyDiscoveryResponse, error) {
	sched.Wait("dep-recv", "dependency-stream", func() bool { return len(s.w.msgs) > 0 || s.w.cancelled })
	if s.w.cancelled {
		return nil, errors.New("cancelled")
	}
	m := s.w.msgs[0]
	s.w.msgs = s.w.msgs[1:]
	return m, nil
}

type cfgStream struct {
	stubStream
	w   *depWorld
	set map[string]bool
}

func fold(set map[string]bool, sub, unsub []string) {
	for _, n := range sub {
		set[n] = true
	}
	for _, n := range unsub {
		delete(set, n)
	}
}

func (s *cfgStream) Send(r *api.SvcConfigDiscoveryRequest) error {
	sched.Op("stream-send", "config-stream")
	fold(s.set, r.SvcNamesSubscribe, r.SvcNamesUnsubscribe)
	return nil
}

func (s *cfgStream) Recv() (*api.SvcConfigDiscoveryResponse, error) {
	sched.Wait("stream-recv", "config-stream", func() bool { return s.w.cancelled })
	return nil, errors.New("cancelled")
}

type epStream struct {
	stubStream
	w   *depWorld
	set map[string]bool
}

func (s *epStream) Send(r *api.SvcEndpointDiscoveryRequest) error {
	sched.Op("stream-send", "endpoint-stream")
	fold(s.set, r.SvcNamesSubscribe, r.SvcNamesUnsubscribe)
	return nil
}

func (s *epStream) Recv() (*api.SvcEndpointDiscoveryResponse, error) {
	sched.Wait("stream-recv", "endpoint-stream", func() bool { return s.w.cancelled })
	return nil, errors.New("cancelled")
}

type fakeAPI struct{ w *depWorld }

func (f *fakeAPI) StreamDependencies(ctx context.Context, in *api.DependencyDiscoveryRequest, opts ...grpc.CallOption) (api.DiscoveryService_StreamDependenciesClient, error) {
	sched.Op("stream-create", "dependency-stream")
	return &depStream{stubStream{ctx}, f.w}, nil
}

func (f *fakeAPI) StreamSvcConfigs(ctx context.Context, opts ...grpc.CallOption) (api.DiscoveryService_StreamSvcConfigsClient, error) {
	sched.Op("stream-create", "config-stream")
	if !f.w.svcUp {
		return nil, errors.New("unavailable")
	}
	s := &cfgStream{stubStream{ctx}, f.w, map[string]bool{}}
	f.w.cfgSets = append(f.w.cfgSets, s.set)
	return s, nil
}

func (f *fakeAPI) StreamSvcEndpoints(ctx context.Context, opts ...grpc.CallOption) (api.DiscoveryService_StreamSvcEndpointsClient, error) {
	sched.Op("stream-create", "endpoint-stream")
	if !f.w.svcUp {
		return nil, errors.New("unavailable")
	}
	s := &epStream{stubStream{ctx}, f.w, map[string]bool{}}
	f.w.epSets = append(f.w.epSets, s.set)
	return s, nil
}

func svcs(names ...string) []*service.Service {
	var out []*service.Service
	for _, n := range names {
		out = append(out, &service.Service{Name: n})
	}
	return out
}

func c16depBody() {
	w := &depWorld{}
	plan := sched.Choose(sched.ClsInput, 5, "plan")
	var first []string
	for i := 0; i < 16; i++ {
		first = append(first, fmt.Sprintf("svc%02d", i))
	}
	want := map[string]bool{}
	for _, n := range first {
		want[n] = true
	}
	msgs := []*api.DependencyDiscoveryResponse{{Added: svcs(first...)}}
	switch plan {
	case 0: // added then removed while the streams are down
		msgs = append(msgs, &api.DependencyDiscoveryResponse{Added: svcs("x")}, &api.DependencyDiscoveryResponse{Removed: svcs("x")})
	case 1: // added, removed, added again
		msgs = append(msgs, &api.DependencyDiscoveryResponse{Added: svcs("x")}, &api.DependencyDiscoveryResponse{Removed: svcs("x")}, &api.DependencyDiscoveryResponse{Added: svcs("x")})
		want["x"] = true
	case 2: // an early service removed, another added
		msgs = append(msgs, &api.DependencyDiscoveryResponse{Added: svcs("x"), Removed: svcs("svc00")}, &api.DependencyDiscoveryResponse{Removed: svcs("x"), Added: svcs("svc00")})
	case 3: // one message names a service as added and as removed: the removal decides (as it does for the dependency set kept by Config)
		msgs = append(msgs, &api.DependencyDiscoveryResponse{Added: svcs("x"), Removed: svcs("x")})
	case 4: // the same for a service that is a dependency already
		msgs = append(msgs, &api.DependencyDiscoveryResponse{Added: svcs("svc03", "y"), Removed: svcs("svc03")})
		delete(want, "svc03")
		want["y"] = true
	}
	c := newDiscoveryClient(&fakeAPI{w})
	ctx, cancel := context.WithCancel(context.Background())
	inst := &common.Instance{Id: "i", Belong: "b"}
	sched.GoNamed("dependency-stream", func() { c.StreamDependencies(ctx, inst, nil) })
	sched.GoNamed("config-stream", func() { c.StreamSvcConfigs(ctx, nil) })
	sched.GoNamed("endpoint-stream", func() { c.StreamSvcEndpoints(ctx, nil) })
	sched.WaitQuiescent()
	for _, m := range msgs {
		w.msgs = append(w.msgs, m)
		sched.WaitQuiescent()
	}
	w.svcUp = true
	sched.Settle(8)
	tag := fmt.Sprintf("plan %d", plan)
	if len(w.msgs) > 0 {
		sched.Fail("dependency-messages-not-consumed", fmt.Sprintf("%s: %d dependency messages are still waiting although the service streams are up", tag, len(w.msgs)))
	}
	if len(w.cfgSets) == 0 || len(w.epSets) == 0 {
		sched.Fail("service-streams-never-established", tag)
	}
	for i, sets := range [][]map[string]bool{w.cfgSets, w.epSets} {
		name := []string{"config", "endpoint"}[i]
		cur := sets[len(sets)-1]
		if keysOf(cur) != keysOf(want) {
			sched.Fail("stream-subscriptions-differ-from-dependencies / "+name+" stream fed by the dependency hook", fmt.Sprintf("%s: %s stream holds {%s}, dependencies {%s}", tag, name, keysOf(cur), keysOf(want)))
		}
	}
	sched.SetOutcome(tag)
	w.cancelled = true
	cancel()
}

func init() {
	sched.Register(&sched.Scenario{Name: "C16/dependency-hook", Setup: func(tier string) (sched.Config, func()) {
		b := sched.Bounds{P: 1, F: 1, Sel: 1}
		if tier == "thorough" {
			b = sched.Bounds{P: 2, F: 2, Sel: 1}
		}
		return sched.Config{Bounds: b, Iterative: true, MaxSteps: 100000}, c16depBody
	}})
}
