//go:build go1.21

package controller

import (
	"encoding/json"
	"fmt"
	"sort"
	"strings"
	"testing"
	"time"

	"github.com/samaritan-proxy/samaritan/config"
	"github.com/samaritan-proxy/samaritan/host"
	"github.com/samaritan-proxy/samaritan/pb/common"
	"github.com/samaritan-proxy/samaritan/pb/config/bootstrap"
	"github.com/samaritan-proxy/samaritan/pb/config/protocol"
	"github.com/samaritan-proxy/samaritan/pb/config/service"
	"github.com/samaritan-proxy/samaritan/proc"
	"github.com/samaritan-proxy/samaritan/verifrt/hutil"
	"github.com/samaritan-proxy/samaritan/verifrt/sched"
)

func TestVerif(t *testing.T) { hutil.Quiet(); sched.Main(t) }

// ---------------------------------------------------------------------------
// C08: the real configuration store (config.Config, handlers reached through injected wrappers) feeding the
// real Controller whose newProc builds recording processors (each owns a real host.Set).
//
// alphabet  dependency add/remove s in {s1,s2}; config(s, valid v1 | valid v2 | invalid); endpoints(s, added
//           subset of {a,b}, removed subset of {a,b}) including an address in both lists and removals before
//           any addition; optionally a static service from the bootstrap file
// modes     (i) the controller drains its queue after every update (H, BFS with canonical-state de-duplication),
//           (ii) only at the end, (iii) all schedules of the updater and the controller loop within bounds (S)
// oracle    once pending events are processed: one processor for each service that is a dependency, has a valid
//           latest configuration and an endpoint list, none for any other; each processor's configuration is the
//           latest one and its host set equals the store's endpoints = the reference model's; updates for
//           unknown or removed services changed nothing
// ---------------------------------------------------------------------------

type recProc struct {
	name    string
	cfg     *service.Config
	hosts   *host.Set
	started bool
	stopped bool
}

func (p *recProc) Name() string            { return p.name }
func (p *recProc) Address() string         { return "" }
func (p *recProc) Start() error            { p.started = true; return nil }
func (p *recProc) StopListen() error       { return nil }
func (p *recProc) Stop() error             { p.stopped = true; return nil }
func (p *recProc) Config() *service.Config { return p.cfg }
func (p *recProc) OnSvcHostAdd(hs []*host.Host) error {
	p.hosts.Add(hs...)
	return nil
}
func (p *recProc) OnSvcHostRemove(hs []*host.Host) error {
	p.hosts.Remove(hs...)
	return nil
}
func (p *recProc) OnSvcAllHostReplace(hs []*host.Host) error {
	p.hosts.ReplaceAll(hs)
	return nil
}
func (p *recProc) OnSvcConfigUpdate(c *service.Config) error {
	if err := c.Validate(); err != nil {
		return err
	}
	p.cfg = c
	return nil
}

var _ proc.Proc = (*recProc)(nil)

func dur(d time.Duration) *time.Duration { return &d }

func mkCfg(kind string) *service.Config {
	c := &service.Config{
		Listener:       &service.Listener{Address: &common.Address{Ip: "0.0.0.0", Port: 12321}},
		ConnectTimeout: dur(3 * time.Second),
		IdleTimeout:    dur(10 * time.Minute),
		LbPolicy:       service.LoadBalancePolicy_ROUND_ROBIN,
		Protocol:       protocol.TCP,
	}
	switch kind {
	case "v2":
		c.LbPolicy = service.LoadBalancePolicy_RANDOM
	case "invalid":
		c.Listener.Address.Port = 99999
	}
	return c
}

func cfgName(c *service.Config) string {
	switch {
	case c == nil:
		return "nil"
	case c.Listener.Address.Port == 99999:
		return "invalid"
	case c.LbPolicy == service.LoadBalancePolicy_RANDOM:
		return "v2"
	}
	return "v1"
}

var epAddr = map[string]string{"a": "10.0.0.1", "b": "10.0.0.2"}

// mkEps: one endpoint per letter; a lower-case letter is a main endpoint, an upper-case one the same address
// announced as a backup endpoint; '!' marks the endpoint before it as reported DOWN.
func mkEps(names string) []*service.Endpoint {
	var out []*service.Endpoint
	for _, n := range names {
		if n == '!' { // the endpoint before is reported with state DOWN (e.g. a removal that says why)
			out[len(out)-1].State = service.Endpoint_DOWN
			continue
		}
		ep := &service.Endpoint{Address: &common.Address{Ip: epAddr[strings.ToLower(string(n))], Port: 80}}
		if n >= 'A' && n <= 'Z' {
			ep.Type = service.Endpoint_BACKUP
		}
		out = append(out, ep)
	}
	return out
}

type c08op struct {
	Kind    string `json:"k"` // dep+ dep- cfg ep
	Svc     string `json:"s"`
	Cfg     string `json:"c,omitempty"`
	Added   string `json:"a,omitempty"`
	Removed string `json:"r,omitempty"`
}

func (o c08op) String() string {
	switch o.Kind {
	case "cfg":
		return fmt.Sprintf("config(%s,%s)", o.Svc, o.Cfg)
	case "ep":
		return fmt.Sprintf("endpoints(%s,+%s,-%s)", o.Svc, o.Added, o.Removed)
	}
	return fmt.Sprintf("%s(%s)", o.Kind, o.Svc)
}

func c08alphabet() []c08op {
	var ops []c08op
	for _, s := range []string{"s1", "s2"} {
		ops = append(ops, c08op{Kind: "dep+", Svc: s}, c08op{Kind: "dep-", Svc: s})
		for _, c := range []string{"v1", "v2", "invalid"} {
			ops = append(ops, c08op{Kind: "cfg", Svc: s, Cfg: c})
		}
		for _, a := range []string{"", "a", "b", "ab"} {
			for _, r := range []string{"", "a", "b", "ab"} {
				if a == "" && r == "" {
					continue
				}
				ops = append(ops, c08op{Kind: "ep", Svc: s, Added: a, Removed: r})
			}
		}
		// the same address announced with the other type: alone (ignored while present), and removed and
		// re-added in one update (the type changes)
		ops = append(ops, c08op{Kind: "ep", Svc: s, Added: "A"}, c08op{Kind: "ep", Svc: s, Added: "A", Removed: "a"}, c08op{Kind: "ep", Svc: s, Added: "a", Removed: "a"})
		// a removal whose descriptor reports the endpoint as DOWN (endpoints are identified by their address)
		ops = append(ops, c08op{Kind: "ep", Svc: s, Removed: "a!"}, c08op{Kind: "ep", Svc: s, Added: "b", Removed: "a!"})
	}
	return ops
}

// reference model
type c08svc struct {
	dep   bool
	cfg   string // "", v1, v2, invalid
	eps   map[string]bool
	known bool // an endpoint list exists
	// lastValid is the latest valid configuration seen; when the latest configuration is invalid the
	// statement does not say whether the processor keeps running with it, so both are accepted.
	lastValid string
}

type c08model map[string]*c08svc

func (m c08model) apply(o c08op) {
	s := m[o.Svc]
	switch o.Kind {
	case "dep+":
		if s == nil {
			m[o.Svc] = &c08svc{dep: true, eps: map[string]bool{}}
		}
	case "dep-":
		delete(m, o.Svc)
	case "cfg":
		if s != nil {
			s.cfg = o.Cfg
			if o.Cfg != "invalid" {
				s.lastValid = o.Cfg
			}
		}
	case "ep":
		if s != nil {
			// endpoints are identified by their address: a removal removes whatever type is stored, an
			// addition of an address that is present is ignored, whatever its type
			for _, r := range o.Removed {
				delete(s.eps, strings.ToLower(string(r)))
				delete(s.eps, strings.ToUpper(string(r)))
			}
			for _, a := range o.Added {
				lo, up := strings.ToLower(string(a)), strings.ToUpper(string(a))
				if !s.eps[lo] && !s.eps[up] {
					s.eps[string(a)] = true
				}
				s.known = true
			}
		}
	}
}

// undetermined lists services whose latest configuration is invalid after a valid one.
func (m c08model) undetermined() map[string]bool {
	out := map[string]bool{}
	for name, s := range m {
		if s.cfg == "invalid" && s.lastValid != "" {
			out[name] = true
		}
	}
	return out
}

func (m c08model) expected() map[string][2]string {
	out := map[string][2]string{}
	for name, s := range m {
		if s.dep && (s.cfg == "v1" || s.cfg == "v2") && s.known {
			var eps []string
			for e := range s.eps {
				if e == strings.ToUpper(e) {
					eps = append(eps, epAddr[strings.ToLower(e)]+":80(backup)")
				} else {
					eps = append(eps, epAddr[e]+":80")
				}
			}
			sort.Strings(eps)
			out[name] = [2]string{s.cfg, strings.Join(eps, ",")}
		}
	}
	return out
}

type c08world struct {
	cfg   *config.Config
	ctl   *Controller
	procs map[string]*recProc // every processor ever created, latest per name
	all   []*recProc
}

func c08setup(static bool) *c08world {
	w := &c08world{procs: map[string]*recProc{}}
	old := newProc
	newProc = func(name string, cfg *service.Config, hosts []*host.Host) (proc.Proc, error) {
		p := &recProc{name: name, cfg: cfg, hosts: host.NewSet(hosts...)}
		w.procs[name] = p
		w.all = append(w.all, p)
		return p, nil
	}
	sched.OnReset(func() { newProc = old })
	b := &bootstrap.Bootstrap{Admin: &bootstrap.Admin{Bind: &common.Address{Ip: "127.0.0.1", Port: 8888}}}
	if static {
		b.StaticServices = []*bootstrap.StaticService{{Name: "static", Config: mkCfg("v1"), Endpoints: mkEps("a")}}
	}
	c, err := config.New(b)
	if err != nil {
		panic(err)
	}
	w.cfg = c
	w.ctl, _ = New(c.Subscribe())
	return w
}

func (w *c08world) feed(o c08op) {
	switch o.Kind {
	case "dep+":
		w.cfg.VerifDependencyUpdate([]*service.Service{{Name: o.Svc}}, nil)
	case "dep-":
		w.cfg.VerifDependencyUpdate(nil, []*service.Service{{Name: o.Svc}})
	case "cfg":
		w.cfg.VerifSvcConfigUpdate(o.Svc, mkCfg(o.Cfg))
	case "ep":
		w.cfg.VerifSvcEndpointUpdate(o.Svc, mkEps(o.Added), mkEps(o.Removed))
	}
}

// running returns name -> (config, hosts) of the processors the controller runs.
func (w *c08world) running() map[string][2]string {
	out := map[string][2]string{}
	for _, p := range w.ctl.GetAllProcs() {
		rp := p.(*recProc)
		var hs []string
		for _, h := range rp.hosts.All() {
			if h.Type == host.TypeBackup {
				hs = append(hs, h.Addr+"(backup)")
			} else {
				hs = append(hs, h.Addr)
			}
		}
		sort.Strings(hs)
		out[rp.name] = [2]string{cfgName(rp.cfg), strings.Join(hs, ",")}
	}
	return out
}

func sortedNames(m map[string][2]string) []string {
	var ns []string
	for n := range m {
		ns = append(ns, n)
	}
	sort.Strings(ns)
	return ns
}

func (w *c08world) judge(m c08model, static bool, last c08op) (sig, detail string) {
	exp := m.expected()
	if static {
		exp["static"] = [2]string{"v1", "10.0.0.1:80"}
	}
	got := w.running()
	for _, name := range []string{"s1", "s2"} {
		if !m.undetermined()[name] {
			continue
		}
		if g, ok := got[name]; ok {
			// if it runs, it runs the last valid configuration with the current endpoints
			s := m[name]
			var eps []string
			for e := range s.eps {
				if e == strings.ToUpper(e) {
					eps = append(eps, epAddr[strings.ToLower(e)]+":80(backup)")
				} else {
					eps = append(eps, epAddr[e]+":80")
				}
			}
			sort.Strings(eps)
			if g[0] != s.lastValid {
				return "processor-config-not-latest-valid", fmt.Sprintf("service %s runs %s, last valid %s", name, g[0], s.lastValid)
			}
			if g[1] != strings.Join(eps, ",") {
				return "processor-hosts-differ-from-endpoints / after " + last.Kind + c08epClass(last), fmt.Sprintf("service %s has hosts {%s}, the endpoint set is {%s}", name, g[1], strings.Join(eps, ","))
			}
			delete(got, name)
		}
	}
	for _, name := range sortedNames(exp) {
		e := exp[name]
		g, ok := got[name]
		switch {
		case !ok:
			why := "configured-service-not-running"
			if m[name] != nil && m[name].cfg != "" {
				why += " / " + c08why(m, name, last)
			}
			return why, fmt.Sprintf("service %s should run with config %s and endpoints {%s}; running: %v", name, e[0], e[1], got)
		case g[0] != e[0]:
			return "processor-config-not-latest", fmt.Sprintf("service %s runs config %s, latest is %s", name, g[0], e[0])
		case g[1] != e[1]:
			return "processor-hosts-differ-from-endpoints / after " + last.Kind + c08epClass(last), fmt.Sprintf("service %s has hosts {%s}, the endpoint set is {%s}", name, g[1], e[1])
		}
	}
	for _, name := range sortedNames(got) {
		if _, ok := exp[name]; !ok {
			return "processor-running-for-unconfigured-service", fmt.Sprintf("service %s is running but is not a dependency with a valid config and endpoints (model %+v)", name, m[name])
		}
	}
	// the store agrees with the model
	dump := w.cfg.VerifDump(cfgName)
	for _, name := range []string{"s1", "s2"} {
		s := m[name]
		if s == nil {
			continue
		}
		d, ok := dump[name]
		if !ok {
			return "store-lost-a-dependency", name
		}
		var eps []string
		for e := range s.eps {
			eps = append(eps, epAddr[strings.ToLower(e)]) // (the dump lists addresses only)
		}
		sort.Strings(eps)
		ds := strings.Split(strings.TrimSuffix(d[1], ","), ",")
		if d[1] == "nil" || d[1] == "" {
			ds = nil
		}
		sort.Strings(ds)
		if strings.Join(ds, ",") != strings.Join(eps, ",") {
			return "store-endpoints-differ-from-updates", fmt.Sprintf("service %s: store {%s}, updates give {%s}", name, d[1], strings.Join(eps, ","))
		}
	}
	// stopped processors are stopped exactly when they are no longer running
	for _, p := range w.all {
		if m.undetermined()[p.name] {
			continue
		}
		_, run := got[p.name]
		if p.stopped && run && w.procs[p.name] == p {
			return "running-processor-was-stopped", p.name
		}
		if !p.stopped && (!run || w.procs[p.name] != p) {
			return "removed-processor-not-stopped", p.name
		}
	}
	return "", ""
}

func c08epClass(o c08op) string {
	if o.Kind != "ep" {
		return ""
	}
	for _, a := range o.Added {
		if strings.ContainsRune(o.Removed, a) {
			return " with an address in both lists"
		}
	}
	return ""
}

func c08why(m c08model, name string, last c08op) string {
	return "last update " + last.Kind
}

type c08case struct {
	Static bool    `json:"static"`
	Mode   string  `json:"mode"` // each | end
	Ops    []c08op `json:"ops"`
}

func c08run(cs c08case) (sig, detail, state string) {
	body := func() {
		w := c08setup(cs.Static)
		w.ctl.Start()
		m := c08model{}
		sched.WaitQuiescent()
		var last c08op
		for i, o := range cs.Ops {
			w.feed(o)
			m.apply(o)
			last = o
			if cs.Mode == "each" || i == len(cs.Ops)-1 {
				sched.WaitQuiescent()
				if s, d := w.judge(m, cs.Static, last); s != "" {
					sig, detail = s, fmt.Sprintf("history %v: %s", cs.Ops, d)
					return
				}
			}
		}
		// canonical state: store dump + running processors
		dump := w.cfg.VerifDump(cfgName)
		var parts []string
		for n, d := range dump {
			parts = append(parts, fmt.Sprintf("%s=%s|%s", n, d[0], d[1]))
		}
		for n, r := range w.running() {
			parts = append(parts, fmt.Sprintf("run:%s=%s|%s", n, r[0], r[1]))
		}
		sort.Strings(parts)
		state = strings.Join(parts, ";")
	}
	e := sched.RunOnce(nil, sched.Options{MaxSteps: 100000}, body)
	for _, f := range e.Failures {
		sig, detail = f.Sig, f.Detail
	}
	if sig == "" && e.EndWhy != "main-returned" {
		sig, detail = "execution-ended-"+e.EndWhy, fmt.Sprint(cs.Ops)
	}
	return
}

func c08histories(env sched.Env) *sched.Report {
	rep := &sched.Report{Outcomes: map[string]int64{}, Complete: true}
	depth := 5
	if env.Tier == "thorough" {
		depth = 6
	}
	alpha := c08alphabet()
	sigs := map[string]bool{}
	for _, mode := range []string{"each", "end"} {
		for _, static := range []bool{false, true} {
			if static && mode == "end" {
				continue
			}
			seen := map[string]bool{}
			frontier := [][]c08op{{}}
			for d := 0; d < depth && len(frontier) > 0; d++ {
				var next [][]c08op
				for _, path := range frontier {
					for ai, a := range alpha {
						if len(path) == 0 && ai%env.NShards != env.Shard {
							continue
						}
						if sched.PastDeadline(env.Deadline) {
							rep.Complete = false
							goto out
						}
						cs := c08case{Static: static, Mode: mode, Ops: append(append([]c08op{}, path...), a)}
						sched.Progress(cs)
						sig, detail, st := c08run(cs)
						rep.Execs++
						sched.Progress(nil)
						rep.Transitions++
						if sig != "" {
							rep.Outcomes["violation: "+sig]++
							if !sigs[sig] {
								sigs[sig] = true
								rep.Violations = append(rep.Violations, sched.CustomViolation("C08/histories", sig, detail, cs))
							}
							continue
						}
						rep.Outcomes["ok"]++
						if seen[st] {
							continue
						}
						seen[st] = true
						next = append(next, cs.Ops)
					}
				}
				frontier = next
			}
			rep.States += int64(len(seen))
			rep.Notes = append(rep.Notes, fmt.Sprintf("mode=%s static=%v: %d canonical states", mode, static, len(seen)))
		}
	}
out:
	rep.Distinct = rep.States
	rep.CustomSamples = []interface{}{"dep+(s1), config(s1,invalid), endpoints(s1,+a,-), config(s1,v1)", "dep+(s1), config(s1,v1), endpoints(s1,+ab,-), endpoints(s1,+a,-a)"}
	return rep
}

// (S): the updater thread and the controller loop under all schedules within bounds.
func c08raceBody() {
	seqs := [][]c08op{
		{{Kind: "dep+", Svc: "s1"}, {Kind: "cfg", Svc: "s1", Cfg: "v1"}, {Kind: "ep", Svc: "s1", Added: "ab"}, {Kind: "ep", Svc: "s1", Removed: "a"}, {Kind: "ep", Svc: "s1", Added: "a", Removed: "b"}},
		{{Kind: "dep+", Svc: "s1"}, {Kind: "ep", Svc: "s1", Added: "a"}, {Kind: "cfg", Svc: "s1", Cfg: "v1"}, {Kind: "ep", Svc: "s1", Added: "b"}, {Kind: "cfg", Svc: "s1", Cfg: "v2"}, {Kind: "ep", Svc: "s1", Removed: "a"}},
		{{Kind: "dep+", Svc: "s1"}, {Kind: "cfg", Svc: "s1", Cfg: "v1"}, {Kind: "ep", Svc: "s1", Added: "a"}, {Kind: "dep-", Svc: "s1"}, {Kind: "dep+", Svc: "s1"}, {Kind: "cfg", Svc: "s1", Cfg: "v2"}, {Kind: "ep", Svc: "s1", Added: "b"}},
		{{Kind: "dep+", Svc: "s1"}, {Kind: "dep+", Svc: "s2"}, {Kind: "cfg", Svc: "s1", Cfg: "v1"}, {Kind: "cfg", Svc: "s2", Cfg: "v2"}, {Kind: "ep", Svc: "s2", Added: "b"}, {Kind: "ep", Svc: "s1", Added: "ab"}, {Kind: "dep-", Svc: "s2"}, {Kind: "ep", Svc: "s1", Removed: "b"}},
	}
	seq := seqs[sched.Choose(sched.ClsInput, len(seqs), "sequence")]
	w := c08setup(false)
	w.ctl.Start()
	m := c08model{}
	var last c08op
	sched.GoNamed("updater", func() {
		for _, o := range seq {
			w.feed(o)
			m.apply(o)
			last = o
		}
	})
	sched.WaitQuiescent()
	if s, d := w.judge(m, false, last); s != "" {
		sched.Fail(s+" / concurrent updater", fmt.Sprintf("sequence %v: %s", seq, d))
	}
	sched.SetOutcome("ok")
}

// (S): the controller's event loop is far behind: it only starts after the store produced more events than the
// event queue holds (32), all of them order sensitive (endpoint b replaces a, a replaces b, ...; in one variant
// the service is also removed and re-added near the end). Whatever the relative speeds, once everything is
// processed the running processors equal what the history implies.
func c08slowControllerBody() {
	seq := []c08op{{Kind: "dep+", Svc: "s1"}, {Kind: "cfg", Svc: "s1", Cfg: "v1"}, {Kind: "ep", Svc: "s1", Added: "a"}}
	n := []int{32, 33, 34, 0, 1}[sched.Choose(sched.ClsInput, 5, "events beyond the queue capacity")]
	if n < 32 {
		// a few events only, all of them still queued when the controller starts: updates of two services whose
		// effects do not commute with each other's content (every queued event must keep its own lists)
		seq = append(seq, c08op{Kind: "dep+", Svc: "s2"}, c08op{Kind: "cfg", Svc: "s2", Cfg: "v2"}, c08op{Kind: "ep", Svc: "s2", Added: "b"},
			c08op{Kind: "ep", Svc: "s1", Added: "b"}, c08op{Kind: "ep", Svc: "s2", Added: "a", Removed: "b"})
	}
	for i := 0; i < n; i++ {
		if i%2 == 0 {
			seq = append(seq, c08op{Kind: "ep", Svc: "s1", Added: "b", Removed: "a"})
		} else {
			seq = append(seq, c08op{Kind: "ep", Svc: "s1", Added: "a", Removed: "b"})
		}
	}
	variant := sched.Choose(sched.ClsInput, 3, "tail")
	switch variant {
	case 1:
		seq = append(seq, c08op{Kind: "cfg", Svc: "s1", Cfg: "v2"}, c08op{Kind: "cfg", Svc: "s1", Cfg: "v1"})
	case 2:
		seq = append(seq, c08op{Kind: "dep-", Svc: "s1"}, c08op{Kind: "dep+", Svc: "s1"}, c08op{Kind: "cfg", Svc: "s1", Cfg: "v2"}, c08op{Kind: "ep", Svc: "s1", Added: "b"})
	}
	w := c08setup(false)
	m := c08model{}
	var last c08op
	sched.GoNamed("updater", func() {
		for _, o := range seq {
			w.feed(o)
			m.apply(o)
			last = o
		}
	})
	sched.WaitQuiescent() // the store is blocked on (or past) the full queue
	w.ctl.Start()
	sched.WaitQuiescent()
	if s, d := w.judge(m, false, last); s != "" {
		sched.Fail(s+" / controller behind by more than the queue holds", fmt.Sprintf("%d endpoint swaps, tail variant %d: %s", n, variant, d))
	}
	sched.SetOutcome(fmt.Sprintf("n=%d tail=%d", n, variant))
}

// (S): the three discovery streams are three goroutines in the product; their handlers race with each other
// and with the controller loop. The oracle is order independent: once everything is processed the running
// processors are exactly what the store's final table implies.
func c08streamsBody() {
	plans := [][][]c08op{
		{{{Kind: "dep+", Svc: "s1"}, {Kind: "dep-", Svc: "s1"}}, {{Kind: "cfg", Svc: "s1", Cfg: "v1"}}, {{Kind: "ep", Svc: "s1", Added: "a"}}},
		{{{Kind: "dep-", Svc: "s1"}, {Kind: "dep+", Svc: "s1"}}, {{Kind: "cfg", Svc: "s1", Cfg: "v2"}}, {{Kind: "ep", Svc: "s1", Added: "b", Removed: "a"}}},
		{{{Kind: "dep-", Svc: "s1"}}, {{Kind: "cfg", Svc: "s1", Cfg: "v2"}, {Kind: "cfg", Svc: "s1", Cfg: "v1"}}, {{Kind: "ep", Svc: "s1", Added: "b"}, {Kind: "ep", Svc: "s1", Removed: "a"}}},
	}
	pi := sched.Choose(sched.ClsInput, len(plans), "plan")
	plan := plans[pi]
	w := c08setup(false)
	w.ctl.Start()
	if pi > 0 {
		// the service is already running with endpoint a
		for _, o := range []c08op{{Kind: "dep+", Svc: "s1"}, {Kind: "cfg", Svc: "s1", Cfg: "v1"}, {Kind: "ep", Svc: "s1", Added: "a"}} {
			w.feed(o)
		}
		sched.WaitQuiescent()
	}
	names := []string{"dependency-stream", "config-stream", "endpoint-stream"}
	for i, ops := range plan {
		ops := ops
		sched.GoNamed(names[i], func() {
			for _, o := range ops {
				w.feed(o)
			}
		})
	}
	sched.WaitQuiescent()
	// what the store's final table implies
	dump := w.cfg.VerifDump(cfgName)
	want := map[string][2]string{}
	for name, d := range dump {
		if (d[0] == "v1" || d[0] == "v2") && d[1] != "nil" {
			var eps []string
			for _, ip := range strings.Split(strings.TrimSuffix(d[1], ","), ",") {
				if ip != "" {
					eps = append(eps, ip+":80")
				}
			}
			sort.Strings(eps)
			want[name] = [2]string{d[0], strings.Join(eps, ",")}
		}
	}
	got := w.running()
	for _, name := range sortedNames(want) {
		e := want[name]
		g, ok := got[name]
		switch {
		case !ok:
			sched.Fail("configured-service-not-running / concurrent streams", fmt.Sprintf("plan %d: store has %s=%v, running %v", pi, name, e, got))
		case g != e:
			sched.Fail("processor-differs-from-store / concurrent streams", fmt.Sprintf("plan %d: %s runs %v, store says %v", pi, name, g, e))
		}
	}
	for _, name := range sortedNames(got) {
		if _, ok := want[name]; !ok {
			sched.Fail("processor-running-for-service-not-in-store / concurrent streams", fmt.Sprintf("plan %d: %s is running, store table: %v", pi, name, dump))
		}
	}
	sched.SetOutcome(fmt.Sprintf("plan=%d running=%d", pi, len(got)))
}

func init() {
	sched.Register(&sched.Scenario{Name: "C08/streams", Setup: func(tier string) (sched.Config, func()) {
		b := sched.Bounds{P: 2, F: 1, Sel: 1}
		if tier == "thorough" {
			b = sched.Bounds{P: 3, F: 2, Sel: 1}
		}
		return sched.Config{Bounds: b, Iterative: true, MaxSteps: 100000}, c08streamsBody
	}})
	sched.Register(&sched.Scenario{Name: "C08/histories", Custom: c08histories, ReplayCustom: func(in json.RawMessage) []sched.Failure {
		var cs c08case
		json.Unmarshal(in, &cs)
		sig, detail, _ := c08run(cs)
		fmt.Println(sig, detail)
		if sig == "" {
			return nil
		}
		return []sched.Failure{{Sig: sig, Detail: detail}}
	}})
	sched.Register(&sched.Scenario{Name: "C08/slow-controller", Setup: func(tier string) (sched.Config, func()) {
		b := sched.Bounds{P: 1, F: 1, Sel: 1}
		if tier == "thorough" {
			b = sched.Bounds{P: 2, F: 1, Sel: 1}
		}
		return sched.Config{Bounds: b, Iterative: true, MaxSteps: 100000}, c08slowControllerBody
	}})
	sched.Register(&sched.Scenario{Name: "C08/race", Setup: func(tier string) (sched.Config, func()) {
		b := sched.Bounds{P: 2, F: 2, Sel: 1}
		if tier == "thorough" {
			b = sched.Bounds{P: 3, F: 2, Sel: 1}
		}
		return sched.Config{Bounds: b, Iterative: true, MaxSteps: 100000}, c08raceBody
	}})
}

// ---------------------------------------------------------------------------
// C09 (S) controller: Stop and DrainListeners racing with updates being processed.
// oracle    Stop returns; every processor the controller ever started is stopped; nothing is running afterwards;
//           DrainListeners returned
// ---------------------------------------------------------------------------

func c09controllerBody() {
	w := c08setup(false)
	w.ctl.Start()
	for _, o := range []c08op{{Kind: "dep+", Svc: "s1"}, {Kind: "cfg", Svc: "s1", Cfg: "v1"}, {Kind: "ep", Svc: "s1", Added: "a"}} {
		w.feed(o)
	}
	sched.WaitQuiescent()
	action := sched.Choose(sched.ClsInput, 3, "action")
	stopped, drained := false, false
	sched.GoNamed("updater", func() {
		for _, o := range []c08op{{Kind: "dep+", Svc: "s2"}, {Kind: "cfg", Svc: "s2", Cfg: "v2"}, {Kind: "ep", Svc: "s2", Added: "b"}, {Kind: "ep", Svc: "s1", Added: "b"}} {
			w.feed(o)
		}
	})
	sched.GoNamed("stopper", func() {
		switch action {
		case 0:
			w.ctl.Stop()
			stopped = true
		case 1:
			w.ctl.DrainListeners()
			drained = true
			w.ctl.Stop()
			stopped = true
		case 2:
			w.ctl.Stop()
			w.ctl.Stop() // a second Stop must return as well
			stopped = true
		}
	})
	sched.WaitQuiescent()
	_ = drained
	if !stopped {
		where := ""
		for _, b := range sched.Blocked() {
			if b.Name == "stopper" {
				where = b.Kind
			}
		}
		sched.Fail("controller-stop-never-returns", fmt.Sprintf("action %d: stopper parked in %s", action, where))
	}
	if n := len(w.ctl.GetAllProcs()); n != 0 {
		sched.Fail("processors-left-after-controller-stop", fmt.Sprintf("%d processors still registered", n))
	}
	for _, p := range w.all {
		if p.started && !p.stopped {
			sched.Fail("processor-not-stopped-by-controller-stop", p.name)
		}
	}
	sched.SetOutcome(fmt.Sprintf("action=%d procs=%d", action, len(w.all)))
}

func init() {
	sched.Register(&sched.Scenario{Name: "C09/controller", Setup: func(tier string) (sched.Config, func()) {
		b := sched.Bounds{P: 2, F: 2, Sel: 1}
		if tier == "thorough" {
			b = sched.Bounds{P: 3, F: 2, Sel: 2}
		}
		return sched.Config{Bounds: b, Iterative: true, MaxSteps: 100000}, c09controllerBody
	}})
}
