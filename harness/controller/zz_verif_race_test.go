//go:build go1.21

package controller

import (
	"runtime"
	"sync"

	"github.com/samaritan-proxy/samaritan/verifrt/sched"
)

// ---------------------------------------------------------------------------
// Race pass for the configuration store and the controller (assumption check for C08, C09/controller):
// the unmodified code; three goroutines play the dependency, configuration and endpoint streams and call
// the store's handlers, the controller's event loop runs as a real goroutine, a reader polls the
// processor table; at the end the controller is stopped - in a binary built with -race.
// ---------------------------------------------------------------------------

func controllerRace() {
	w := c08setup(true)
	w.ctl.Start()
	streams := [][]c08op{
		{{Kind: "dep+", Svc: "s1"}, {Kind: "dep+", Svc: "s2"}, {Kind: "dep-", Svc: "s1"}, {Kind: "dep+", Svc: "s1"}, {Kind: "dep-", Svc: "s2"}},
		{{Kind: "cfg", Svc: "s1", Cfg: "v1"}, {Kind: "cfg", Svc: "s2", Cfg: "v2"}, {Kind: "cfg", Svc: "s1", Cfg: "invalid"}, {Kind: "cfg", Svc: "s1", Cfg: "v2"}, {Kind: "cfg", Svc: "s2", Cfg: "v1"}},
		{{Kind: "ep", Svc: "s1", Added: "ab"}, {Kind: "ep", Svc: "s2", Added: "a"}, {Kind: "ep", Svc: "s1", Added: "a", Removed: "b"}, {Kind: "ep", Svc: "s1", Removed: "a"}, {Kind: "ep", Svc: "s2", Added: "b", Removed: "a"}, {Kind: "ep", Svc: "s1", Added: "b"}},
	}
	var wg sync.WaitGroup
	for _, ops := range streams {
		ops := ops
		wg.Add(1)
		go func() {
			defer wg.Done()
			for round := 0; round < 3; round++ {
				for _, o := range ops {
					w.feed(o)
					runtime.Gosched()
				}
			}
		}()
	}
	stopReader := make(chan struct{})
	var reader sync.WaitGroup
	reader.Add(1)
	go func() {
		defer reader.Done()
		for {
			select {
			case <-stopReader:
				return
			default:
			}
			for _, p := range w.ctl.GetAllProcs() {
				_ = p.Name()
			}
			runtime.Gosched()
		}
	}()
	wg.Wait()
	for i := 0; i < 100000 && w.cfg.VerifPendingEvents() > 0; i++ {
		runtime.Gosched()
	}
	close(stopReader)
	reader.Wait()
	w.ctl.Stop()
}

func init() {
	sched.Register(&sched.Scenario{Name: "C08/stack-race", Race: controllerRace})
}
