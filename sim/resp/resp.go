//go:build go1.21

// Package resp is an independent, deliberately plain RESP2 codec used by the
// scripted clients, simulated nodes and oracles. It shares nothing with the
// repository's codec.
package resp

import (
	"bytes"
	"errors"
	"fmt"
	"strconv"
)

// Value is a RESP value.
type Value struct {
	Kind byte // '+', '-', ':', '$', '*'
	Str  []byte
	Int  int64
	Arr  []Value
	Null bool // null bulk string / null array
}

func Simple(s string) Value { return Value{Kind: '+', Str: []byte(s)} }
func Err(s string) Value    { return Value{Kind: '-', Str: []byte(s)} }
func Int(i int64) Value     { return Value{Kind: ':', Int: i} }
func Bulk(b []byte) Value {
	if b == nil {
		b = []byte{}
	}
	return Value{Kind: '$', Str: b}
}
func BulkS(s string) Value { return Value{Kind: '$', Str: []byte(s)} }
func NullBulk() Value      { return Value{Kind: '$', Null: true} }
func NullArray() Value     { return Value{Kind: '*', Null: true} }
func Array(v ...Value) Value {
	if v == nil {
		v = []Value{}
	}
	return Value{Kind: '*', Arr: v}
}

// Cmd builds a command (array of bulk strings).
func Cmd(args ...string) Value {
	vs := make([]Value, len(args))
	for i, a := range args {
		vs[i] = BulkS(a)
	}
	return Array(vs...)
}

// Encode renders v canonically.
func Encode(v Value) []byte {
	var b bytes.Buffer
	enc(&b, v)
	return b.Bytes()
}

func enc(b *bytes.Buffer, v Value) {
	b.WriteByte(v.Kind)
	switch v.Kind {
	case '+', '-':
		b.Write(v.Str)
		b.WriteString("\r\n")
	case ':':
		b.WriteString(strconv.FormatInt(v.Int, 10))
		b.WriteString("\r\n")
	case '$':
		if v.Null {
			b.WriteString("-1\r\n")
			return
		}
		b.WriteString(strconv.Itoa(len(v.Str)))
		b.WriteString("\r\n")
		b.Write(v.Str)
		b.WriteString("\r\n")
	case '*':
		if v.Null {
			b.WriteString("-1\r\n")
			return
		}
		b.WriteString(strconv.Itoa(len(v.Arr)))
		b.WriteString("\r\n")
		for _, e := range v.Arr {
			enc(b, e)
		}
	}
}

// ErrIncomplete means more bytes are needed.
var ErrIncomplete = errors.New("resp: incomplete")

// Decode parses one value from the front of b; n is the number of bytes consumed.
func Decode(b []byte) (v Value, n int, err error) {
	if len(b) == 0 {
		return v, 0, ErrIncomplete
	}
	line := func(from int) ([]byte, int, error) {
		i := bytes.Index(b[from:], []byte("\r\n"))
		if i < 0 {
			return nil, 0, ErrIncomplete
		}
		return b[from : from+i], from + i + 2, nil
	}
	switch b[0] {
	case '+', '-':
		l, next, err := line(1)
		if err != nil {
			return v, 0, err
		}
		return Value{Kind: b[0], Str: append([]byte{}, l...)}, next, nil
	case ':':
		l, next, err := line(1)
		if err != nil {
			return v, 0, err
		}
		i, perr := strconv.ParseInt(string(l), 10, 64)
		if perr != nil {
			return v, 0, fmt.Errorf("resp: bad integer %q", l)
		}
		return Value{Kind: ':', Int: i}, next, nil
	case '$':
		l, next, err := line(1)
		if err != nil {
			return v, 0, err
		}
		ln, perr := strconv.Atoi(string(l))
		if perr != nil || ln < -1 {
			return v, 0, fmt.Errorf("resp: bad bulk length %q", l)
		}
		if ln == -1 {
			return NullBulk(), next, nil
		}
		if len(b) < next+ln+2 {
			return v, 0, ErrIncomplete
		}
		if b[next+ln] != '\r' || b[next+ln+1] != '\n' {
			return v, 0, errors.New("resp: bulk not terminated by CRLF")
		}
		return Value{Kind: '$', Str: append([]byte{}, b[next:next+ln]...)}, next + ln + 2, nil
	case '*':
		l, next, err := line(1)
		if err != nil {
			return v, 0, err
		}
		ln, perr := strconv.Atoi(string(l))
		if perr != nil || ln < -1 {
			return v, 0, fmt.Errorf("resp: bad array length %q", l)
		}
		if ln == -1 {
			return NullArray(), next, nil
		}
		arr := make([]Value, 0, ln)
		for i := 0; i < ln; i++ {
			e, m, err := Decode(b[next:])
			if err != nil {
				return v, 0, err
			}
			arr = append(arr, e)
			next += m
		}
		return Value{Kind: '*', Arr: arr}, next, nil
	}
	return v, 0, fmt.Errorf("resp: unexpected type byte %q", b[0])
}

// DecodeAll parses every complete value in b; rest is what remains.
func DecodeAll(b []byte) (vs []Value, rest []byte, err error) {
	for len(b) > 0 {
		v, n, e := Decode(b)
		if e == ErrIncomplete {
			return vs, b, nil
		}
		if e != nil {
			return vs, b, e
		}
		vs = append(vs, v)
		b = b[n:]
	}
	return vs, nil, nil
}

// Equal compares two values structurally.
func Equal(a, b Value) bool {
	if a.Kind != b.Kind || a.Null != b.Null {
		return false
	}
	switch a.Kind {
	case ':':
		return a.Int == b.Int
	case '*':
		if len(a.Arr) != len(b.Arr) {
			return false
		}
		for i := range a.Arr {
			if !Equal(a.Arr[i], b.Arr[i]) {
				return false
			}
		}
		return true
	}
	return bytes.Equal(a.Str, b.Str)
}

// String renders v for messages (long strings abbreviated).
func (v Value) String() string {
	ab := func(s []byte) string {
		if len(s) > 40 {
			return fmt.Sprintf("%q...(%d bytes)", s[:24], len(s))
		}
		return fmt.Sprintf("%q", s)
	}
	switch v.Kind {
	case '+':
		return "+" + ab(v.Str)
	case '-':
		return "-" + ab(v.Str)
	case ':':
		return ":" + strconv.FormatInt(v.Int, 10)
	case '$':
		if v.Null {
			return "$nil"
		}
		return "$" + ab(v.Str)
	case '*':
		if v.Null {
			return "*nil"
		}
		s := "["
		for i, e := range v.Arr {
			if i > 0 {
				s += " "
			}
			s += e.String()
		}
		return s + "]"
	}
	return "?"
}
