module verif-overlay-sim

go 1.21
