//go:build go1.21

package cluster

import (
	"fmt"
	"io"
	"strconv"
	"strings"
	"sync"

	"github.com/samaritan-proxy/samaritan/verifrt/sched"
	"github.com/samaritan-proxy/samaritan/verifrt/sim/resp"
	"github.com/samaritan-proxy/samaritan/verifrt/vnet"
)

const NumSlots = 16384

// CRC16 is CRC16/XMODEM, bit by bit.
func CRC16(b []byte) uint16 {
	var crc uint16
	for _, c := range b {
		crc ^= uint16(c) << 8
		for i := 0; i < 8; i++ {
			if crc&0x8000 != 0 {
				crc = crc<<1 ^ 0x1021
			} else {
				crc <<= 1
			}
		}
	}
	return crc
}

// Slot is the Redis Cluster key hash slot.
func Slot(key []byte) int {
	s := -1
	for i, c := range key {
		if c == '{' {
			s = i
			break
		}
	}
	if s >= 0 {
		for j := s + 1; j < len(key); j++ {
			if key[j] == '}' {
				if j > s+1 {
					key = key[s+1 : j]
				}
				break
			}
		}
	}
	return int(CRC16(key)) % NumSlots
}

// Cmd is one command received by a node.
type Cmd struct {
	Node     string
	Replica  bool
	Conn     int
	Args     []string
	Asking   bool
	Reply    string // first bytes of the reply
	Redirect bool
}

func (c Cmd) String() string {
	a := strings.Join(c.Args, " ")
	if len(a) > 60 {
		a = a[:60] + "..."
	}
	return fmt.Sprintf("%s<%s> -> %s", c.Node, a, c.Reply)
}

// Node is one simulated Redis instance.
type Node struct {
	C    *Cluster
	Idx  int
	ID   string
	Addr string
	// Suspected: the other nodes list this node with the flag "fail?" (PFAIL: not reachable from their point of
	// view for a moment); it is alive and keeps its slots.
	Suspected bool
	// Stalled: the node reads requests but sends no answer until it is cleared (controlled executions only).
	Stalled bool
	// ListenAddr, when set, is the numeric address the node listens on while Addr is a host name.
	ListenAddr string
	MasterOf   *Node // nil for masters
	store      *Store
	Silent     bool // reads commands but never answers
	// ExtraFlags is appended to the node's flags in every CLUSTER NODES answer (e.g. "nofailover", the flag of a node
	// running with cluster-replica-no-failover yes; it says nothing about the node's slots).
	ExtraFlags string
	// Hides: nodes this node does not know (yet): they are missing from its CLUSTER NODES answer (a partial view).
	Hides []*Node
	// ResetNextConn: the next accepted connection is reset at once (the node is restarting), then the flag clears.
	ResetNextConn bool
	Down          bool
	ln            vnet.Listener
	conns         []*vnet.VConn
	Accepted      int
	// scripted SCAN: cursor -> (next cursor, keys)
	ScanChain map[string]ScanStep
	// ScanLater, when set for a cursor, holds the answers to the second, third ... call with that cursor (the
	// first call is answered from ScanChain, calls past the list get its last entry)
	ScanLater map[string][]ScanStep
	scanCalls map[string]int
	// BadReplies, when non-nil, maps a lower-case command name to raw bytes sent instead of the real reply.
	BadReplies map[string][]byte
	// RefuseOnce maps a lower-case command name to raw bytes with which the next such command is answered without
	// being executed (e.g. -CLUSTERDOWN while the node has lost sight of the majority); the entry is used once.
	RefuseOnce map[string][]byte
}

// ScanStep is one scripted SCAN answer.
type ScanStep struct {
	Next string
	Keys []string
}

// Cluster is the whole simulated deployment.
type Cluster struct {
	Nodes     []*Node
	Groups    int     // the slot space is cut into this many contiguous groups
	Owner     []*Node // per group: owning master (nil = unassigned)
	Migrating []*Node // per group: target node while the owner is migrating it
	Log       []Cmd
	// NodesTextOverride replaces the CLUSTER NODES answer when set.
	NodesTextOverride string
	// HoldCluster delays the delivery of CLUSTER command answers (network latency) until it is cleared;
	// Held counts the answers that were delayed.
	HoldCluster bool
	Held        int
	connSeq     int
	// mu protects the cluster's state in free-running mode (the -race pass): node goroutines and the harness
	// touch it concurrently there. Under the controlled scheduler threads never run at the same time and the
	// lock is not taken (a thread parked at a scheduling point must not hold a real lock).
	mu sync.Mutex
}

// New builds a cluster of nMasters masters with replicasPer replicas each; group g is owned by master g % nMasters.
func New(nMasters, replicasPer, groups int) *Cluster {
	c := &Cluster{Groups: groups, Owner: make([]*Node, groups), Migrating: make([]*Node, groups)}
	for i := 0; i < nMasters; i++ {
		m := &Node{C: c, Idx: len(c.Nodes), ID: fmt.Sprintf("m%d", i), Addr: fmt.Sprintf("10.0.%d.1:6379", i+1), store: NewStore()}
		c.Nodes = append(c.Nodes, m)
		for r := 0; r < replicasPer; r++ {
			rp := &Node{C: c, Idx: len(c.Nodes), ID: fmt.Sprintf("m%dr%d", i, r), Addr: fmt.Sprintf("10.0.%d.%d:6379", i+1, r+2), MasterOf: m, store: m.store}
			c.Nodes = append(c.Nodes, rp)
		}
	}
	for g := 0; g < groups; g++ {
		c.Owner[g] = c.Masters()[g%nMasters]
	}
	return c
}

// Locked runs f with the cluster's state locked in free-running mode (harness-side mutations and reads).
func (c *Cluster) Locked(f func()) {
	if sched.E == nil {
		c.mu.Lock()
		defer c.mu.Unlock()
	}
	f()
}

// Masters lists nodes that are masters.
func (c *Cluster) Masters() []*Node {
	var ms []*Node
	for _, n := range c.Nodes {
		if n.MasterOf == nil {
			ms = append(ms, n)
		}
	}
	return ms
}

// NodeByAddr finds a node.
func (c *Cluster) NodeByAddr(addr string) *Node {
	for _, n := range c.Nodes {
		if n.Addr == addr {
			return n
		}
	}
	return nil
}

// NodeByAddrID finds a node by its id.
func (c *Cluster) NodeByAddrID(id string) *Node {
	for _, n := range c.Nodes {
		if n.ID == id {
			return n
		}
	}
	return nil
}

// Group returns the group of a slot.
func (c *Cluster) Group(slot int) int { return slot * c.Groups / NumSlots }

// GroupRange returns the slot range [lo,hi] of a group.
func (c *Cluster) GroupRange(g int) (int, int) {
	lo := (g*NumSlots + c.Groups - 1) / c.Groups
	hi := ((g+1)*NumSlots+c.Groups-1)/c.Groups - 1
	return lo, hi
}

// KeyInGroup returns the i-th key of the form prefix+number whose slot lies in group g.
func (c *Cluster) KeyInGroup(prefix string, g, i int) string {
	seen := 0
	for n := 0; ; n++ {
		k := prefix + strconv.Itoa(n)
		if c.Group(Slot([]byte(k))) == g {
			if seen == i {
				return k
			}
			seen++
		}
	}
}

// OwnerOfKey returns the master owning the key's slot.
func (c *Cluster) OwnerOfKey(key string) *Node { return c.Owner[c.Group(Slot([]byte(key)))] }

// Start binds every node's listener and starts its acceptor thread.
func (c *Cluster) Start() {
	for _, n := range c.Nodes {
		n.Up()
	}
}

// UseHostnames renames every node to a host name (what CLUSTER NODES announces and what the proxy dials);
// the virtual network resolves it to the numeric address the node listens on. Call before Start.
func (c *Cluster) UseHostnames() {
	for _, n := range c.Nodes {
		n.ListenAddr = n.Addr
		n.Addr = "redis-" + n.ID + ".local:6379"
	}
}

// ShareOneMachine puts every node on one IP address, each on its own port (several instances per machine).
// Call before Start.
func (c *Cluster) ShareOneMachine() {
	for i, n := range c.Nodes {
		n.Addr = fmt.Sprintf("10.0.0.1:%d", 7000+i)
	}
}

// Up (re)starts the node's listener.
func (n *Node) Up() {
	la := n.Addr
	if n.ListenAddr != "" {
		la = n.ListenAddr
		vnet.Alias(n.Addr, la)
	}
	ln, err := vnet.Listen("tcp", la)
	if err != nil {
		panic(err)
	}
	n.ln = ln
	n.Down = false
	sched.GoServer("node-"+n.ID+"-accept", func() {
		for {
			conn, err := ln.Accept()
			if err != nil {
				return
			}
			vc := conn.(*vnet.VConn)
			vc.Label = "node-" + n.ID
			if n.ResetNextConn {
				n.ResetNextConn = false
				vc.Reset()
				continue
			}
			var id int
			n.C.Locked(func() {
				n.conns = append(n.conns, vc)
				n.Accepted++
				n.C.connSeq++
				id = n.C.connSeq
			})
			sched.GoServer(fmt.Sprintf("node-%s-conn%d", n.ID, id), func() { n.serve(vc, id) })
		}
	})
}

// Stop closes the listener and resets every connection of the node.
func (n *Node) Stop() {
	n.Down = true
	if n.ln != nil {
		n.ln.Close()
	}
	n.ResetConns()
}

// ResetConns resets every established connection of the node.
func (n *Node) ResetConns() {
	var cs []*vnet.VConn
	n.C.Locked(func() { cs, n.conns = n.conns, nil })
	for _, c := range cs {
		if !c.IsClosed() {
			c.Reset()
		}
	}
}

// TimeoutConns makes every established connection of the node die silently (see vnet.TimeoutLoss).
func (n *Node) TimeoutConns() {
	var cs []*vnet.VConn
	n.C.Locked(func() { cs, n.conns = n.conns, nil })
	for _, c := range cs {
		if !c.IsClosed() {
			c.TimeoutLoss()
		}
	}
}

// CloseConns closes (FIN) every established connection of the node.
func (n *Node) CloseConns() {
	var cs []*vnet.VConn
	n.C.Locked(func() { cs, n.conns = n.conns, nil })
	for _, c := range cs {
		if !c.IsClosed() {
			c.Close()
		}
	}
}

// ShareStore makes the node use m's keyspace (replicas see their master's data without lag).
func (n *Node) ShareStore(m *Node) { n.store = m.store }

// Store exposes the node's keyspace.
func (n *Node) Store() *Store { return n.store }

func (n *Node) serve(conn *vnet.VConn, id int) {
	var buf []byte
	tmp := make([]byte, 65536)
	asking, readonly := false, false
	for {
		v, used, err := resp.Decode(buf)
		if err == resp.ErrIncomplete {
			m, rerr := conn.Read(tmp)
			if rerr != nil {
				if rerr != io.EOF {
					_ = rerr
				}
				conn.Close()
				return
			}
			buf = append(buf, tmp[:m]...)
			continue
		}
		if err != nil {
			conn.Write(resp.Encode(resp.Err("ERR Protocol error: " + err.Error())))
			conn.Close()
			return
		}
		buf = buf[used:]
		args := make([][]byte, 0, len(v.Arr))
		sargs := make([]string, 0, len(v.Arr))
		for _, a := range v.Arr {
			args = append(args, a.Str)
			sargs = append(sargs, string(a.Str))
		}
		wasAsking := asking
		var reply resp.Value
		var redirect bool
		var refused []byte
		if n.RefuseOnce != nil && len(sargs) > 0 {
			if b, ok := n.RefuseOnce[strings.ToLower(sargs[0])]; ok {
				refused = b
				delete(n.RefuseOnce, strings.ToLower(sargs[0]))
			}
		}
		if refused == nil {
			n.C.Locked(func() { reply, redirect = n.exec(args, &asking, &readonly) })
		}
		raw := resp.Encode(reply)
		if refused != nil {
			raw = refused
		}
		if n.BadReplies != nil && len(sargs) > 0 {
			if b, ok := n.BadReplies[strings.ToLower(sargs[0])]; ok {
				raw = b
			}
		}
		head := string(raw)
		if len(head) > 40 {
			head = head[:40]
		}
		silent := false
		n.C.Locked(func() {
			n.C.Log = append(n.C.Log, Cmd{Node: n.ID, Replica: n.MasterOf != nil, Conn: id, Args: sargs, Asking: wasAsking, Reply: strings.TrimRight(head, "\r\n"), Redirect: redirect})
			silent = n.Silent
		})
		if silent {
			continue
		}
		if n.Stalled && sched.E != nil {
			// the node has the request but is busy: its answers (computed in order) leave when it is released
			sched.Wait("node-stalled", n, func() bool { return !n.Stalled })
		}
		if n.C.HoldCluster && len(sargs) > 0 && strings.EqualFold(sargs[0], "cluster") {
			// the answer (computed from the layout as it is now) is in flight until the harness releases it
			n.C.Held++
			sched.Wait("held-reply", n, func() bool { return !n.C.HoldCluster })
		}
		if _, err := conn.Write(raw); err != nil {
			conn.Close()
			return
		}
	}
}

func (n *Node) exec(args [][]byte, asking, readonly *bool) (resp.Value, bool) {
	if len(args) == 0 {
		return resp.Err("ERR empty"), false
	}
	cmd := strings.ToLower(string(args[0]))
	wasAsking := *asking
	*asking = false // ASKING applies to the next command only, whatever it is
	switch cmd {
	case "asking":
		*asking = true
		return resp.Simple("OK"), false
	case "readonly":
		*readonly = true
		return resp.Simple("OK"), false
	case "readwrite":
		*readonly = false
		return resp.Simple("OK"), false
	case "ping":
		return resp.Simple("PONG"), false
	case "cluster":
		if len(args) >= 2 && strings.ToLower(string(args[1])) == "nodes" {
			return resp.BulkS(n.C.NodesText(n)), false
		}
		return resp.Err("ERR unknown cluster subcommand"), false
	case "scan":
		return n.scan(args), false
	}
	info, known := Commands[cmd]
	if !known {
		return resp.Err("ERR unknown command '" + string(args[0]) + "'"), false
	}
	if len(args) <= info.KeyIdx {
		return wrongArgs(cmd), false
	}
	key := string(args[info.KeyIdx])
	slot := Slot([]byte(key))
	g := n.C.Group(slot)
	owner := n.C.Owner[g]
	if owner == nil {
		return resp.Err("CLUSTERDOWN Hash slot not served"), false
	}
	self := n
	if n.MasterOf != nil {
		self = n.MasterOf
		// a replica serves reads of its master's slots after READONLY, otherwise redirects
		if !(*readonly && !info.Write && owner == self) {
			return resp.Err(fmt.Sprintf("MOVED %d %s", slot, owner.Addr)), true
		}
		return n.store.Exec(args), false
	}
	if owner == self {
		if tgt := n.C.Migrating[g]; tgt != nil && !n.store.Has(key) {
			return resp.Err(fmt.Sprintf("ASK %d %s", slot, tgt.Addr)), true
		}
		return n.store.Exec(args), false
	}
	// not the owner: serve only if the slot is being imported here and the client said ASKING
	if n.C.Migrating[g] == self && wasAsking {
		return n.store.Exec(args), false
	}
	return resp.Err(fmt.Sprintf("MOVED %d %s", slot, owner.Addr)), true
}

func (n *Node) scan(args [][]byte) resp.Value {
	if len(args) < 2 {
		return wrongArgs("scan")
	}
	cur := string(args[1])
	if n.ScanChain == nil {
		// default: everything in one step
		if cur != "0" {
			return resp.Array(resp.BulkS("0"), resp.Array())
		}
		var ks []resp.Value
		for _, k := range n.store.Keys() {
			if n.C.OwnerOfKey(k) == n || n.MasterOf != nil {
				ks = append(ks, resp.BulkS(k))
			}
		}
		return resp.Array(resp.BulkS("0"), resp.Array(ks...))
	}
	st, ok := n.ScanChain[cur]
	if later := n.ScanLater[cur]; ok && len(later) > 0 {
		if n.scanCalls == nil {
			n.scanCalls = map[string]int{}
		}
		if i := n.scanCalls[cur]; i > 0 {
			if i > len(later) {
				i = len(later)
			}
			st = later[i-1]
		}
		n.scanCalls[cur]++
	}
	if !ok {
		// like a real node, a cursor that it never handed out is not an error: it is taken as some position of
		// the keyspace, and some keys come back (here: what a scan from the start returns)
		st = n.ScanChain["0"]
		st.Next = "0"
		if len(st.Keys) == 0 {
			st.Keys = []string{"key-returned-for-a-foreign-cursor"}
		}
	}
	var ks []resp.Value
	for _, k := range st.Keys {
		ks = append(ks, resp.BulkS(k))
	}
	return resp.Array(resp.BulkS(st.Next), resp.Array(ks...))
}

// NodesText renders CLUSTER NODES as redis-server 5.0 does.
func (c *Cluster) NodesText(self *Node) string {
	if c.NodesTextOverride != "" {
		return c.NodesTextOverride
	}
	var b strings.Builder
	for _, n := range c.Nodes {
		hidden := false
		if self != nil {
			for _, h := range self.Hides {
				hidden = hidden || h == n
			}
		}
		if hidden {
			continue
		}
		flags := "master"
		master := "-"
		if n.MasterOf != nil {
			flags = "slave"
			master = n.MasterOf.ID
		}
		if n == self {
			flags = "myself," + flags
		} else if n.Suspected {
			flags += ",fail?" // the answering node's own, unconfirmed suspicion; the node is alive
		}
		if n.ExtraFlags != "" {
			flags += "," + n.ExtraFlags
		}
		port := n.Addr[strings.LastIndex(n.Addr, ":")+1:]
		fmt.Fprintf(&b, "%s %s@1%s %s %s 0 1426238316232 %d connected", n.ID, n.Addr, port, flags, master, n.Idx+1)
		if n.MasterOf == nil {
			// contiguous ranges of the groups this master owns
			start := -1
			for g := 0; g <= c.Groups; g++ {
				mine := g < c.Groups && c.Owner[g] == n
				if mine && start < 0 {
					start = g
				}
				if !mine && start >= 0 {
					lo, _ := c.GroupRange(start)
					_, hi := c.GroupRange(g - 1)
					if lo == hi {
						fmt.Fprintf(&b, " %d", lo)
					} else {
						fmt.Fprintf(&b, " %d-%d", lo, hi)
					}
					start = -1
				}
			}
			if n == self {
				for g := 0; g < c.Groups; g++ {
					lo, _ := c.GroupRange(g)
					if c.Owner[g] == n && c.Migrating[g] != nil {
						fmt.Fprintf(&b, " [%d->-%s]", lo, c.Migrating[g].ID)
					}
					if c.Migrating[g] == n && c.Owner[g] != nil {
						fmt.Fprintf(&b, " [%d-<-%s]", lo, c.Owner[g].ID)
					}
				}
			}
		}
		b.WriteString("\n")
	}
	return b.String()
}

// ---- administrative operations (applied atomically cluster-wide) ---------------

// SetMigrating starts migrating group g from its owner to target.
func (c *Cluster) SetMigrating(g int, target *Node) { c.Migrating[g] = target }

// MigrateKey moves one key of a migrating group to the target.
func (c *Cluster) MigrateKey(key string) bool {
	g := c.Group(Slot([]byte(key)))
	src, tgt := c.Owner[g], c.Migrating[g]
	if src == nil || tgt == nil || !src.store.Has(key) {
		return false
	}
	tgt.store.m[key] = src.store.take(key)
	return true
}

// Finalise completes the migration of group g: remaining keys move, ownership flips.
func (c *Cluster) Finalise(g int) {
	src, tgt := c.Owner[g], c.Migrating[g]
	if src == nil || tgt == nil {
		return
	}
	for _, k := range src.store.Keys() {
		if c.Group(Slot([]byte(k))) == g {
			tgt.store.m[k] = src.store.take(k)
		}
	}
	c.Owner[g] = tgt
	c.Migrating[g] = nil
}

// MoveGroup reassigns group g to target at once (keys included).
func (c *Cluster) MoveGroup(g int, target *Node) {
	c.Migrating[g] = target
	c.Finalise(g)
}

// Failover promotes replica r: it takes over its master's groups; the old master becomes its replica.
func (c *Cluster) Failover(r *Node) {
	old := r.MasterOf
	if old == nil {
		return
	}
	for g := range c.Owner {
		if c.Owner[g] == old {
			c.Owner[g] = r
		}
		if c.Migrating[g] == old {
			c.Migrating[g] = r
		}
	}
	for _, n := range c.Nodes {
		if n.MasterOf == old && n != r {
			n.MasterOf = r
		}
	}
	r.MasterOf = nil
	old.MasterOf = r
}

// Reparent makes replica r replicate newMaster (CLUSTER REPLICATE).
func (c *Cluster) Reparent(r, newMaster *Node) {
	if r.MasterOf == nil {
		return
	}
	r.MasterOf = newMaster
	r.store = newMaster.store
}

// Redirects counts redirect replies logged since index from.
func (c *Cluster) Redirects(from int) int {
	k := 0
	for _, e := range c.Log[from:] {
		if e.Redirect {
			k++
		}
	}
	return k
}

// DataCmds returns logged commands since from, without the proxy's own housekeeping.
func (c *Cluster) DataCmds(from int) []Cmd {
	var out []Cmd
	for _, e := range c.Log[from:] {
		if len(e.Args) == 0 {
			continue
		}
		switch strings.ToLower(e.Args[0]) {
		case "readonly", "asking", "cluster", "ping":
			continue
		}
		out = append(out, e)
	}
	return out
}
