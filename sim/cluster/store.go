//go:build go1.21

// Package cluster is a mini Redis Cluster used as environment model and as
// reference ("what a single Redis server would reply"). It is deliberately
// plain (maps and slices) and imports nothing from the repository.
package cluster

import (
	"fmt"
	"sort"
	"strconv"
	"strings"

	"github.com/samaritan-proxy/samaritan/verifrt/sim/resp"
)

// entry is one key's value.
type entry struct {
	kind string // string | hash | list | set | zset
	str  []byte
	hash map[string][]byte
	hkey []string // insertion order of hash fields
	list [][]byte
	set  map[string]bool
	zset map[string]float64
}

// Store is a single-server keyspace with a command interpreter.
type Store struct {
	m map[string]*entry
}

func NewStore() *Store { return &Store{m: map[string]*entry{}} }

// Has reports whether key exists.
func (s *Store) Has(key string) bool { _, ok := s.m[key]; return ok }

// Raw returns the raw bytes stored for a string key (nil if absent or not a string).
func (s *Store) Raw(key string) []byte {
	if e, ok := s.m[key]; ok && e.kind == "string" {
		return e.str
	}
	return nil
}

// RawHash returns the raw bytes stored for a hash field.
func (s *Store) RawHash(key, field string) []byte {
	if e, ok := s.m[key]; ok && e.kind == "hash" {
		return e.hash[field]
	}
	return nil
}

// Take removes and returns an entry (used by MIGRATE).
func (s *Store) take(key string) *entry {
	e := s.m[key]
	delete(s.m, key)
	return e
}

// Keys returns all keys sorted.
func (s *Store) Keys() []string {
	ks := make([]string, 0, len(s.m))
	for k := range s.m {
		ks = append(ks, k)
	}
	sort.Strings(ks)
	return ks
}

// Dump renders the whole keyspace canonically.
func (s *Store) Dump() string {
	var b strings.Builder
	for _, k := range s.Keys() {
		e := s.m[k]
		switch e.kind {
		case "string":
			fmt.Fprintf(&b, "%q=%q;", k, abbreviate(e.str))
		case "hash":
			fmt.Fprintf(&b, "%q=h{", k)
			fs := append([]string{}, e.hkey...)
			sort.Strings(fs)
			for _, f := range fs {
				fmt.Fprintf(&b, "%q:%q,", f, abbreviate(e.hash[f]))
			}
			b.WriteString("};")
		case "list":
			fmt.Fprintf(&b, "%q=l[", k)
			for _, x := range e.list {
				fmt.Fprintf(&b, "%q,", abbreviate(x))
			}
			b.WriteString("];")
		case "set":
			ms := make([]string, 0, len(e.set))
			for m := range e.set {
				ms = append(ms, m)
			}
			sort.Strings(ms)
			fmt.Fprintf(&b, "%q=s%q;", k, ms)
		case "zset":
			ms := make([]string, 0, len(e.zset))
			for m, sc := range e.zset {
				ms = append(ms, fmt.Sprintf("%s:%g", m, sc))
			}
			sort.Strings(ms)
			fmt.Fprintf(&b, "%q=z%q;", k, ms)
		}
	}
	return b.String()
}

func abbreviate(b []byte) string {
	if len(b) > 32 {
		return fmt.Sprintf("%s..(%d)", b[:16], len(b))
	}
	return string(b)
}

// CmdInfo describes a command of the interpreter.
type CmdInfo struct {
	Write  bool
	KeyIdx int // index of the (first) key argument; 0 = no key
}

// Commands lists what the interpreter implements, with Redis 5.0's own
// write/read flag.
var Commands = map[string]CmdInfo{
	"get": {false, 1}, "set": {true, 1}, "setnx": {true, 1}, "getset": {true, 1}, "setex": {true, 1}, "psetex": {true, 1},
	"append": {true, 1}, "strlen": {false, 1}, "incr": {true, 1}, "decr": {true, 1}, "incrby": {true, 1}, "decrby": {true, 1},
	"getrange": {false, 1}, "setrange": {true, 1},
	"del": {true, 1}, "unlink": {true, 1}, "exists": {false, 1}, "touch": {false, 1}, "type": {false, 1},
	"expire": {true, 1}, "ttl": {false, 1}, "pttl": {false, 1}, "persist": {true, 1},
	"hset": {true, 1}, "hget": {false, 1}, "hmset": {true, 1}, "hmget": {false, 1}, "hgetall": {false, 1}, "hdel": {true, 1},
	"hexists": {false, 1}, "hlen": {false, 1}, "hsetnx": {true, 1}, "hkeys": {false, 1}, "hvals": {false, 1}, "hstrlen": {false, 1}, "hincrby": {true, 1},
	"lpush": {true, 1}, "rpush": {true, 1}, "lpop": {true, 1}, "rpop": {true, 1}, "llen": {false, 1}, "lrange": {false, 1}, "lindex": {false, 1},
	"sadd": {true, 1}, "srem": {true, 1}, "sismember": {false, 1}, "scard": {false, 1}, "smembers": {false, 1},
	"zadd": {true, 1}, "zscore": {false, 1}, "zcard": {false, 1}, "zrange": {false, 1}, "zrem": {true, 1}, "zrank": {false, 1},
	"pfadd": {true, 1}, "pfcount": {false, 1},
	"geoadd": {true, 1}, "sort": {true, 1},
	"eval": {true, 3},
}

func wrongType() resp.Value {
	return resp.Err("WRONGTYPE Operation against a key holding the wrong kind of value")
}
func wrongArgs(cmd string) resp.Value {
	return resp.Err("ERR wrong number of arguments for '" + cmd + "' command")
}
func notInt() resp.Value { return resp.Err("ERR value is not an integer or out of range") }

func (s *Store) get(key, kind string) (*entry, bool) {
	e, ok := s.m[key]
	if !ok {
		return nil, true
	}
	return e, e.kind == kind
}

func (s *Store) mk(key, kind string) *entry {
	e := &entry{kind: kind}
	switch kind {
	case "hash":
		e.hash = map[string][]byte{}
	case "set":
		e.set = map[string]bool{}
	case "zset":
		e.zset = map[string]float64{}
	}
	s.m[key] = e
	return e
}

func dup(b []byte) []byte { return append([]byte{}, b...) }

// Exec interprets one command (args[0] is the name, any case).
func (s *Store) Exec(args [][]byte) resp.Value {
	if len(args) == 0 {
		return resp.Err("ERR empty command")
	}
	cmd := strings.ToLower(string(args[0]))
	n := len(args)
	key := ""
	if n > 1 {
		key = string(args[1])
	}
	switch cmd {
	case "ping":
		return resp.Simple("PONG")
	case "get":
		if n != 2 {
			return wrongArgs(cmd)
		}
		e, ok := s.get(key, "string")
		if !ok {
			return wrongType()
		}
		if e == nil {
			return resp.NullBulk()
		}
		return resp.Bulk(dup(e.str))
	case "set":
		if n < 3 {
			return wrongArgs(cmd)
		}
		s.mk(key, "string").str = dup(args[2])
		return resp.Simple("OK")
	case "setnx":
		if n != 3 {
			return wrongArgs(cmd)
		}
		if s.Has(key) {
			return resp.Int(0)
		}
		s.mk(key, "string").str = dup(args[2])
		return resp.Int(1)
	case "getset":
		if n != 3 {
			return wrongArgs(cmd)
		}
		e, ok := s.get(key, "string")
		if !ok {
			return wrongType()
		}
		old := resp.NullBulk()
		if e != nil {
			old = resp.Bulk(dup(e.str))
		}
		s.mk(key, "string").str = dup(args[2])
		return old
	case "setex", "psetex":
		if n != 4 {
			return wrongArgs(cmd)
		}
		if _, err := strconv.Atoi(string(args[2])); err != nil {
			return notInt()
		}
		s.mk(key, "string").str = dup(args[3])
		return resp.Simple("OK")
	case "append":
		if n != 3 {
			return wrongArgs(cmd)
		}
		e, ok := s.get(key, "string")
		if !ok {
			return wrongType()
		}
		if e == nil {
			e = s.mk(key, "string")
		}
		e.str = append(e.str, args[2]...)
		return resp.Int(int64(len(e.str)))
	case "strlen":
		if n != 2 {
			return wrongArgs(cmd)
		}
		e, ok := s.get(key, "string")
		if !ok {
			return wrongType()
		}
		if e == nil {
			return resp.Int(0)
		}
		return resp.Int(int64(len(e.str)))
	case "getrange":
		if n != 4 {
			return wrongArgs(cmd)
		}
		e, ok := s.get(key, "string")
		if !ok {
			return wrongType()
		}
		if e == nil {
			return resp.Bulk(nil)
		}
		a, err1 := strconv.Atoi(string(args[2]))
		b, err2 := strconv.Atoi(string(args[3]))
		if err1 != nil || err2 != nil {
			return notInt()
		}
		l := len(e.str)
		if a < 0 {
			a += l
		}
		if b < 0 {
			b += l
		}
		if a < 0 {
			a = 0
		}
		if b >= l {
			b = l - 1
		}
		if a > b || l == 0 {
			return resp.Bulk(nil)
		}
		return resp.Bulk(dup(e.str[a : b+1]))
	case "incr", "decr", "incrby", "decrby":
		delta := int64(1)
		if cmd == "incrby" || cmd == "decrby" {
			if n != 3 {
				return wrongArgs(cmd)
			}
			d, err := strconv.ParseInt(string(args[2]), 10, 64)
			if err != nil {
				return notInt()
			}
			delta = d
		} else if n != 2 {
			return wrongArgs(cmd)
		}
		if cmd == "decr" || cmd == "decrby" {
			delta = -delta
		}
		e, ok := s.get(key, "string")
		if !ok {
			return wrongType()
		}
		cur := int64(0)
		if e != nil {
			c, err := strconv.ParseInt(string(e.str), 10, 64)
			if err != nil {
				return notInt()
			}
			cur = c
		}
		cur += delta
		s.mk(key, "string").str = []byte(strconv.FormatInt(cur, 10))
		return resp.Int(cur)
	case "del", "unlink":
		if n < 2 {
			return wrongArgs(cmd)
		}
		c := int64(0)
		for _, k := range args[1:] {
			if s.Has(string(k)) {
				delete(s.m, string(k))
				c++
			}
		}
		return resp.Int(c)
	case "exists", "touch":
		if n < 2 {
			return wrongArgs(cmd)
		}
		c := int64(0)
		for _, k := range args[1:] {
			if s.Has(string(k)) {
				c++
			}
		}
		return resp.Int(c)
	case "type":
		if n != 2 {
			return wrongArgs(cmd)
		}
		if e, ok := s.m[key]; ok {
			return resp.Simple(e.kind)
		}
		return resp.Simple("none")
	case "expire", "persist":
		if n < 2 {
			return wrongArgs(cmd)
		}
		if s.Has(key) && cmd == "expire" {
			return resp.Int(1)
		}
		return resp.Int(0)
	case "ttl", "pttl":
		if n != 2 {
			return wrongArgs(cmd)
		}
		if s.Has(key) {
			return resp.Int(-1)
		}
		return resp.Int(-2)
	case "hset", "hmset":
		if n < 4 || n%2 != 0 {
			return wrongArgs(cmd)
		}
		e, ok := s.get(key, "hash")
		if !ok {
			return wrongType()
		}
		if e == nil {
			e = s.mk(key, "hash")
		}
		added := int64(0)
		for i := 2; i+1 < n; i += 2 {
			f := string(args[i])
			if _, ex := e.hash[f]; !ex {
				added++
				e.hkey = append(e.hkey, f)
			}
			e.hash[f] = dup(args[i+1])
		}
		if cmd == "hmset" {
			return resp.Simple("OK")
		}
		return resp.Int(added)
	case "hsetnx":
		if n != 4 {
			return wrongArgs(cmd)
		}
		e, ok := s.get(key, "hash")
		if !ok {
			return wrongType()
		}
		if e == nil {
			e = s.mk(key, "hash")
		}
		f := string(args[2])
		if _, ex := e.hash[f]; ex {
			return resp.Int(0)
		}
		e.hkey = append(e.hkey, f)
		e.hash[f] = dup(args[3])
		return resp.Int(1)
	case "hget", "hexists", "hstrlen":
		if n != 3 {
			return wrongArgs(cmd)
		}
		e, ok := s.get(key, "hash")
		if !ok {
			return wrongType()
		}
		var v []byte
		ex := false
		if e != nil {
			v, ex = e.hash[string(args[2])]
		}
		switch cmd {
		case "hexists":
			if ex {
				return resp.Int(1)
			}
			return resp.Int(0)
		case "hstrlen":
			return resp.Int(int64(len(v)))
		}
		if !ex {
			return resp.NullBulk()
		}
		return resp.Bulk(dup(v))
	case "hmget":
		if n < 3 {
			return wrongArgs(cmd)
		}
		e, ok := s.get(key, "hash")
		if !ok {
			return wrongType()
		}
		out := make([]resp.Value, 0, n-2)
		for _, f := range args[2:] {
			if e != nil {
				if v, ex := e.hash[string(f)]; ex {
					out = append(out, resp.Bulk(dup(v)))
					continue
				}
			}
			out = append(out, resp.NullBulk())
		}
		return resp.Array(out...)
	case "hgetall", "hkeys", "hvals", "hlen":
		if n != 2 {
			return wrongArgs(cmd)
		}
		e, ok := s.get(key, "hash")
		if !ok {
			return wrongType()
		}
		if cmd == "hlen" {
			if e == nil {
				return resp.Int(0)
			}
			return resp.Int(int64(len(e.hash)))
		}
		out := []resp.Value{}
		if e != nil {
			for _, f := range e.hkey {
				if cmd != "hvals" {
					out = append(out, resp.BulkS(f))
				}
				if cmd != "hkeys" {
					out = append(out, resp.Bulk(dup(e.hash[f])))
				}
			}
		}
		return resp.Array(out...)
	case "hdel":
		if n < 3 {
			return wrongArgs(cmd)
		}
		e, ok := s.get(key, "hash")
		if !ok {
			return wrongType()
		}
		c := int64(0)
		if e != nil {
			for _, f := range args[2:] {
				if _, ex := e.hash[string(f)]; ex {
					delete(e.hash, string(f))
					for i, k := range e.hkey {
						if k == string(f) {
							e.hkey = append(e.hkey[:i], e.hkey[i+1:]...)
							break
						}
					}
					c++
				}
			}
			if len(e.hash) == 0 {
				delete(s.m, key)
			}
		}
		return resp.Int(c)
	case "hincrby":
		if n != 4 {
			return wrongArgs(cmd)
		}
		d, err := strconv.ParseInt(string(args[3]), 10, 64)
		if err != nil {
			return notInt()
		}
		e, ok := s.get(key, "hash")
		if !ok {
			return wrongType()
		}
		if e == nil {
			e = s.mk(key, "hash")
		}
		f := string(args[2])
		cur := int64(0)
		if v, ex := e.hash[f]; ex {
			c, err := strconv.ParseInt(string(v), 10, 64)
			if err != nil {
				return resp.Err("ERR hash value is not an integer")
			}
			cur = c
		} else {
			e.hkey = append(e.hkey, f)
		}
		cur += d
		e.hash[f] = []byte(strconv.FormatInt(cur, 10))
		return resp.Int(cur)
	case "lpush", "rpush":
		if n < 3 {
			return wrongArgs(cmd)
		}
		e, ok := s.get(key, "list")
		if !ok {
			return wrongType()
		}
		if e == nil {
			e = s.mk(key, "list")
		}
		for _, v := range args[2:] {
			if cmd == "lpush" {
				e.list = append([][]byte{dup(v)}, e.list...)
			} else {
				e.list = append(e.list, dup(v))
			}
		}
		return resp.Int(int64(len(e.list)))
	case "lpop", "rpop":
		if n != 2 {
			return wrongArgs(cmd)
		}
		e, ok := s.get(key, "list")
		if !ok {
			return wrongType()
		}
		if e == nil || len(e.list) == 0 {
			return resp.NullBulk()
		}
		var v []byte
		if cmd == "lpop" {
			v, e.list = e.list[0], e.list[1:]
		} else {
			v, e.list = e.list[len(e.list)-1], e.list[:len(e.list)-1]
		}
		if len(e.list) == 0 {
			delete(s.m, key)
		}
		return resp.Bulk(v)
	case "llen":
		if n != 2 {
			return wrongArgs(cmd)
		}
		e, ok := s.get(key, "list")
		if !ok {
			return wrongType()
		}
		if e == nil {
			return resp.Int(0)
		}
		return resp.Int(int64(len(e.list)))
	case "lrange":
		if n != 4 {
			return wrongArgs(cmd)
		}
		e, ok := s.get(key, "list")
		if !ok {
			return wrongType()
		}
		a, err1 := strconv.Atoi(string(args[2]))
		b, err2 := strconv.Atoi(string(args[3]))
		if err1 != nil || err2 != nil {
			return notInt()
		}
		out := []resp.Value{}
		if e != nil {
			l := len(e.list)
			if a < 0 {
				a += l
			}
			if b < 0 {
				b += l
			}
			if a < 0 {
				a = 0
			}
			if b >= l {
				b = l - 1
			}
			for i := a; i <= b && i < l; i++ {
				out = append(out, resp.Bulk(dup(e.list[i])))
			}
		}
		return resp.Array(out...)
	case "lindex":
		if n != 3 {
			return wrongArgs(cmd)
		}
		e, ok := s.get(key, "list")
		if !ok {
			return wrongType()
		}
		i, err := strconv.Atoi(string(args[2]))
		if err != nil {
			return notInt()
		}
		if e == nil {
			return resp.NullBulk()
		}
		if i < 0 {
			i += len(e.list)
		}
		if i < 0 || i >= len(e.list) {
			return resp.NullBulk()
		}
		return resp.Bulk(dup(e.list[i]))
	case "sadd", "srem", "pfadd":
		if n < 3 {
			return wrongArgs(cmd)
		}
		e, ok := s.get(key, "set")
		if !ok {
			return wrongType()
		}
		if e == nil {
			if cmd == "srem" {
				return resp.Int(0)
			}
			e = s.mk(key, "set")
		}
		c := int64(0)
		for _, m := range args[2:] {
			if cmd == "srem" {
				if e.set[string(m)] {
					delete(e.set, string(m))
					c++
				}
			} else if !e.set[string(m)] {
				e.set[string(m)] = true
				c++
			}
		}
		if len(e.set) == 0 {
			delete(s.m, key)
		}
		if cmd == "pfadd" && c > 1 {
			c = 1
		}
		return resp.Int(c)
	case "sismember":
		if n != 3 {
			return wrongArgs(cmd)
		}
		e, ok := s.get(key, "set")
		if !ok {
			return wrongType()
		}
		if e != nil && e.set[string(args[2])] {
			return resp.Int(1)
		}
		return resp.Int(0)
	case "scard", "pfcount":
		if n != 2 {
			return wrongArgs(cmd)
		}
		e, ok := s.get(key, "set")
		if !ok {
			return wrongType()
		}
		if e == nil {
			return resp.Int(0)
		}
		return resp.Int(int64(len(e.set)))
	case "smembers":
		if n != 2 {
			return wrongArgs(cmd)
		}
		e, ok := s.get(key, "set")
		if !ok {
			return wrongType()
		}
		out := []resp.Value{}
		if e != nil {
			ms := make([]string, 0, len(e.set))
			for m := range e.set {
				ms = append(ms, m)
			}
			sort.Strings(ms)
			for _, m := range ms {
				out = append(out, resp.BulkS(m))
			}
		}
		return resp.Array(out...)
	case "zadd", "geoadd":
		step := 2
		if cmd == "geoadd" {
			step = 3
		}
		if n < 2+step || (n-2)%step != 0 {
			return wrongArgs(cmd)
		}
		e, ok := s.get(key, "zset")
		if !ok {
			return wrongType()
		}
		if e == nil {
			e = s.mk(key, "zset")
		}
		c := int64(0)
		for i := 2; i+step-1 < n; i += step {
			sc, err := strconv.ParseFloat(string(args[i]), 64)
			if err != nil {
				return resp.Err("ERR value is not a valid float")
			}
			m := string(args[i+step-1])
			if _, ex := e.zset[m]; !ex {
				c++
			}
			e.zset[m] = sc
		}
		return resp.Int(c)
	case "zscore", "zrank":
		if n != 3 {
			return wrongArgs(cmd)
		}
		e, ok := s.get(key, "zset")
		if !ok {
			return wrongType()
		}
		if e == nil {
			return resp.NullBulk()
		}
		sc, ex := e.zset[string(args[2])]
		if !ex {
			return resp.NullBulk()
		}
		if cmd == "zscore" {
			return resp.BulkS(strconv.FormatFloat(sc, 'g', -1, 64))
		}
		for i, m := range zsorted(e) {
			if m == string(args[2]) {
				return resp.Int(int64(i))
			}
		}
		return resp.NullBulk()
	case "zcard":
		if n != 2 {
			return wrongArgs(cmd)
		}
		e, ok := s.get(key, "zset")
		if !ok {
			return wrongType()
		}
		if e == nil {
			return resp.Int(0)
		}
		return resp.Int(int64(len(e.zset)))
	case "zrange":
		if n < 4 {
			return wrongArgs(cmd)
		}
		e, ok := s.get(key, "zset")
		if !ok {
			return wrongType()
		}
		a, err1 := strconv.Atoi(string(args[2]))
		b, err2 := strconv.Atoi(string(args[3]))
		if err1 != nil || err2 != nil {
			return notInt()
		}
		out := []resp.Value{}
		if e != nil {
			ms := zsorted(e)
			l := len(ms)
			if a < 0 {
				a += l
			}
			if b < 0 {
				b += l
			}
			if a < 0 {
				a = 0
			}
			for i := a; i <= b && i < l; i++ {
				out = append(out, resp.BulkS(ms[i]))
			}
		}
		return resp.Array(out...)
	case "zrem":
		if n < 3 {
			return wrongArgs(cmd)
		}
		e, ok := s.get(key, "zset")
		if !ok {
			return wrongType()
		}
		c := int64(0)
		if e != nil {
			for _, m := range args[2:] {
				if _, ex := e.zset[string(m)]; ex {
					delete(e.zset, string(m))
					c++
				}
			}
			if len(e.zset) == 0 {
				delete(s.m, key)
			}
		}
		return resp.Int(c)
	case "sort":
		// only the plain form over a list of numbers
		e, ok := s.get(key, "list")
		if !ok {
			return wrongType()
		}
		out := []resp.Value{}
		if e != nil {
			xs := make([]string, len(e.list))
			for i, v := range e.list {
				xs[i] = string(v)
			}
			sort.Strings(xs)
			for _, x := range xs {
				out = append(out, resp.BulkS(x))
			}
		}
		return resp.Array(out...)
	case "eval":
		// EVAL script numkeys key [key...] arg...: the model returns the script text and the
		// value of the first key, and appends the script to the key (so it is a visible write)
		if n < 4 {
			return wrongArgs(cmd)
		}
		if string(args[1]) == "return {{},{{}},{}}" { // a read-only script with a nested, partly empty reply
			return resp.Array(resp.Array(), resp.Array(resp.Array()), resp.Array())
		}
		k := string(args[3])
		e, ok := s.get(k, "string")
		if !ok {
			return wrongType()
		}
		if e == nil {
			e = s.mk(k, "string")
		}
		e.str = append(e.str, args[1]...)
		return resp.Bulk(dup(e.str))
	}
	return resp.Err("ERR unknown command '" + string(args[0]) + "'")
}

func zsorted(e *entry) []string {
	ms := make([]string, 0, len(e.zset))
	for m := range e.zset {
		ms = append(ms, m)
	}
	sort.Slice(ms, func(i, j int) bool {
		if e.zset[ms[i]] != e.zset[ms[j]] {
			return e.zset[ms[i]] < e.zset[ms[j]]
		}
		return ms[i] < ms[j]
	})
	return ms
}
