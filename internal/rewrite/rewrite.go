// Package rewrite instruments Go source files of the repository so that every
// synchronisation, channel, timer, network and random operation goes through
// the verifrt shims (controlled scheduler). It is type-aware (go/packages).
package rewrite

import (
	"bytes"
	"fmt"
	"go/ast"
	"go/format"
	"go/parser"
	"go/token"
	"go/types"
	"os"
	"path/filepath"
	"reflect"
	"sort"
	"strconv"
	"strings"

	"golang.org/x/tools/go/ast/astutil"
	"golang.org/x/tools/go/packages"
)

const RepoMod = "github.com/samaritan-proxy/samaritan"
const RT = RepoMod + "/verifrt/"

// importMap: original import path -> (shim path, default local name)
var importMap = map[string][2]string{
	"sync":               {RT + "vsync", "sync"},
	"sync/atomic":        {RT + "vatomic", "atomic"},
	"go.uber.org/atomic": {RT + "vuatomic", "atomic"},
	"time":               {RT + "vtime", "time"},
	"math/rand":          {RT + "vrand", "rand"},
}

// NetFiles lists files (relative to the repo root) whose "net" import is
// redirected to vnet (they dial or listen).
var NetFiles = map[string]bool{
	"proc/internal/net/conn.go": true,
	"proc/tcp/proc.go":          true, // type assertions on *net.TCPConn (socket options)
	// the health-check protocol checkers dial the backends themselves
	"proc/internal/hc/atcp/checker.go":  true,
	"proc/internal/hc/redis/checker.go": true,
	"proc/internal/hc/mysql/checker.go": true,
}

// RacyFields lists struct fields ("Type.field") that the code reads and writes without synchronisation on
// purpose (e.g. the slot table: "it's safe in x86-64 platform"). A scheduling point is put in front of every
// statement that touches one of them (in front of the whole loop when the access is inside a loop), so that
// other threads can run between two such statements although no synchronisation operation separates them.
var RacyFields = map[string]bool{
	"upstream.slots": true,
	// proc/redis: the service configuration is swapped by a plain pointer write (config.Update) while request
	// goroutines read it (directly or through the promoted getters of the embedded *service.Config)
	"config.Config": true,
	// proc/tcp: configuration pointer and balancer are replaced by plain writes in OnSvcConfigUpdate while
	// HandleConn/dial of every connection read them
	"tcpProc.cfg": true,
	"tcpProc.lb":  true,
	// config -> controller: a SvcAddEvent carries the store's own endpoint slice; the store keeps modifying the
	// backing array in place (under its lock) while the controller reads the event's slice (without it)
	"serviceWrapper.Endpoints": true,
	"SvcAddEvent.Endpoints":    true,
}

// Result of instrumenting one package.
type Result struct {
	Files map[string][]byte // absolute original path -> rewritten content
	Stats map[string]int
}

// Instrument loads the given package patterns from repo and rewrites every
// non-test Go file in them.
func Instrument(repo string, pkgs []string, env []string) (*Result, error) {
	cfg := &packages.Config{
		Mode: packages.NeedName | packages.NeedFiles | packages.NeedSyntax | packages.NeedTypes |
			packages.NeedTypesInfo | packages.NeedImports | packages.NeedDeps | packages.NeedCompiledGoFiles,
		Dir: repo,
		Env: env,
	}
	loaded, err := packages.Load(cfg, pkgs...)
	if err != nil {
		return nil, err
	}
	res := &Result{Files: map[string][]byte{}, Stats: map[string]int{}}
	var errs []string
	for _, p := range loaded {
		for _, e := range p.Errors {
			errs = append(errs, e.Error())
		}
	}
	if len(errs) > 0 {
		return nil, fmt.Errorf("loading packages: %s", strings.Join(errs, "; "))
	}
	for _, p := range loaded {
		for i, f := range p.Syntax {
			path := p.CompiledGoFiles[i]
			if strings.HasSuffix(path, "_test.go") {
				continue
			}
			rel, _ := filepath.Rel(repo, path)
			rw := &rewriter{fset: p.Fset, info: p.TypesInfo, file: f, rel: rel, stats: res.Stats, pkg: p.Types}
			out, err := rw.run()
			if err != nil {
				return nil, fmt.Errorf("%s: %v", rel, err)
			}
			res.Files[path] = out
		}
	}
	return res, nil
}

// InstrumentLight produces the files of the free-running (-race) build: the code is left exactly as it is -
// real goroutines, channels, selects, locks, timers - except that the files which dial or look at socket
// options (NetFiles) import the in-memory network instead of "net".
func InstrumentLight(repo string) (*Result, error) {
	res := &Result{Files: map[string][]byte{}, Stats: map[string]int{}}
	for rel := range NetFiles {
		path := filepath.Join(repo, rel)
		fset := token.NewFileSet()
		f, err := parser.ParseFile(fset, path, nil, parser.ParseComments)
		if err != nil {
			return nil, err
		}
		for _, imp := range f.Imports {
			if p, _ := strconv.Unquote(imp.Path.Value); p == "net" {
				imp.Path.Value = strconv.Quote(RT + "vnet")
				if imp.Name == nil {
					imp.Name = ast.NewIdent("net")
				}
				res.Stats["imports"]++
			}
		}
		var buf bytes.Buffer
		buf.WriteString("//go:build go1.21\n\n")
		if err := format.Node(&buf, fset, f); err != nil {
			return nil, err
		}
		res.Files[path] = buf.Bytes()
	}
	return res, nil
}

type rewriter struct {
	fset      *token.FileSet
	info      *types.Info
	pkg       *types.Package
	file      *ast.File
	rel       string
	stats     map[string]int
	racyStmts map[ast.Stmt]string
	skip      map[ast.Node]bool
	needSched bool
	tmp       int
	err       error
}

func (r *rewriter) fail(n ast.Node, format string, a ...interface{}) {
	if r.err == nil {
		r.err = fmt.Errorf("%s: %s", r.fset.Position(n.Pos()), fmt.Sprintf(format, a...))
	}
}

func (r *rewriter) name(prefix string) string {
	r.tmp++
	return fmt.Sprintf("_v%s%d", prefix, r.tmp)
}

func (r *rewriter) site(n ast.Node) string {
	p := r.fset.Position(n.Pos())
	return fmt.Sprintf("%s:%d", filepath.Base(p.Filename), p.Line)
}

func schedSel(name string) ast.Expr {
	return &ast.SelectorExpr{X: ast.NewIdent("vsched"), Sel: ast.NewIdent(name)}
}

func call(fun ast.Expr, args ...ast.Expr) *ast.CallExpr {
	return &ast.CallExpr{Fun: fun, Args: args}
}

func (r *rewriter) isChan(e ast.Expr) bool {
	t := r.info.TypeOf(e)
	if t == nil {
		return false
	}
	_, ok := t.Underlying().(*types.Chan)
	return ok
}

func (r *rewriter) isMap(e ast.Expr) bool {
	t := r.info.TypeOf(e)
	if t == nil {
		return false
	}
	_, ok := t.Underlying().(*types.Map)
	return ok
}

func (r *rewriter) isBuiltin(e ast.Expr, name string) bool {
	id, ok := e.(*ast.Ident)
	if !ok || id.Name != name {
		return false
	}
	_, ok = r.info.Uses[id].(*types.Builtin)
	return ok
}

func (r *rewriter) isConstOrNil(e ast.Expr) bool {
	tv, ok := r.info.Types[e]
	if !ok {
		return false
	}
	return tv.Value != nil || tv.IsNil()
}

func pureExpr(e ast.Expr) bool {
	switch x := e.(type) {
	case *ast.Ident:
		return true
	case *ast.SelectorExpr:
		return pureExpr(x.X)
	case *ast.ParenExpr:
		return pureExpr(x.X)
	case *ast.StarExpr:
		return pureExpr(x.X)
	}
	return false
}

// racyName returns "Type.field" when sel reads or writes a listed racy field: directly, or implicitly because
// the selected field or method is promoted through it (x.cfg.GetRedisOption() reads x.cfg.Config).
func (r *rewriter) racyName(sel *ast.SelectorExpr) string {
	s, ok := r.info.Selections[sel]
	if !ok {
		return ""
	}
	path := s.Index()
	if s.Kind() != types.FieldVal {
		path = path[:len(path)-1] // the last index selects the method
	}
	t := s.Recv()
	for _, idx := range path {
		if p, ok := t.Underlying().(*types.Pointer); ok {
			t = p.Elem()
		}
		named, _ := t.(*types.Named)
		st, ok := t.Underlying().(*types.Struct)
		if !ok || idx >= st.NumFields() {
			return ""
		}
		f := st.Field(idx)
		if named != nil {
			if name := named.Obj().Name() + "." + f.Name(); RacyFields[name] {
				return name
			}
		}
		t = f.Type()
	}
	return ""
}

// touchesRacy reports the first listed field accessed inside n (function literals excluded).
func (r *rewriter) touchesRacy(n ast.Node) string {
	found := ""
	if n == nil || reflect.ValueOf(n).IsNil() {
		return ""
	}
	ast.Inspect(n, func(x ast.Node) bool {
		if found != "" {
			return false
		}
		switch v := x.(type) {
		case *ast.FuncLit:
			return false
		case *ast.SelectorExpr:
			found = r.racyName(v)
		case *ast.CallExpr:
			found = r.plainStatAccess(v)
		}
		return true
	})
	return found
}

// plainStatAccess: the statistics objects (counters and gauges of the un-instrumented statistics library) are
// updated with atomic read-modify-write operations, which commute and need no scheduling point. Reading a value or
// overwriting one (Value, Set) is a plain load or store of shared state: a statement doing that gets a scheduling
// point in front of it, so that a read-compute-write sequence built from them can be interleaved.
func (r *rewriter) plainStatAccess(call *ast.CallExpr) string {
	sel, ok := call.Fun.(*ast.SelectorExpr)
	if !ok || (sel.Sel.Name != "Value" && sel.Sel.Name != "Set") {
		return ""
	}
	t := r.info.TypeOf(sel.X)
	if t == nil {
		return ""
	}
	if p, ok := types.Unalias(t).(*types.Pointer); ok {
		t = p.Elem()
	}
	n, ok := types.Unalias(t).(*types.Named)
	if !ok || n.Obj().Pkg() == nil || n.Obj().Pkg().Path() != "github.com/kirk91/stats" {
		return ""
	}
	return "stats." + n.Obj().Name() + "." + sel.Sel.Name
}

// markRacy records the statements of a function body that get an access point in front of them.
func (r *rewriter) markRacy(list []ast.Stmt) {
	for _, st := range list {
		switch v := st.(type) {
		case *ast.BlockStmt:
			r.markRacy(v.List)
		case *ast.LabeledStmt:
			r.markRacy([]ast.Stmt{v.Stmt})
		case *ast.ForStmt, *ast.RangeStmt:
			if n := r.touchesRacy(st); n != "" {
				r.racyStmts[st] = n
			}
		case *ast.IfStmt:
			name := ""
			for cur := v; cur != nil; {
				if name == "" {
					name = r.touchesRacy(cur.Init)
				}
				if name == "" {
					name = r.touchesRacy(cur.Cond)
				}
				r.markRacy(cur.Body.List)
				switch e := cur.Else.(type) {
				case *ast.IfStmt:
					cur = e
				case *ast.BlockStmt:
					r.markRacy(e.List)
					cur = nil
				default:
					cur = nil
				}
			}
			if name != "" {
				r.racyStmts[st] = name
			}
		case *ast.SwitchStmt:
			name := r.touchesRacy(v.Init)
			if name == "" {
				name = r.touchesRacy(v.Tag)
			}
			if name != "" {
				r.racyStmts[st] = name
			}
			for _, cl := range v.Body.List {
				r.markRacy(cl.(*ast.CaseClause).Body)
			}
		case *ast.TypeSwitchStmt:
			for _, cl := range v.Body.List {
				r.markRacy(cl.(*ast.CaseClause).Body)
			}
		case *ast.SelectStmt:
			for _, cl := range v.Body.List {
				r.markRacy(cl.(*ast.CommClause).Body)
			}
		default:
			if n := r.touchesRacy(st); n != "" {
				r.racyStmts[st] = n
			}
		}
	}
}

func (r *rewriter) run() ([]byte, error) {
	r.skip = map[ast.Node]bool{}
	r.racyStmts = map[ast.Stmt]string{}
	f := r.file
	ast.Inspect(f, func(x ast.Node) bool {
		switch v := x.(type) {
		case *ast.FuncDecl:
			if v.Body != nil {
				r.markRacy(v.Body.List)
			}
		case *ast.FuncLit:
			r.markRacy(v.Body.List)
		}
		return true
	})

	// imports
	for _, imp := range f.Imports {
		path, _ := strconv.Unquote(imp.Path.Value)
		m, ok := importMap[path]
		if path == "net" && NetFiles[r.rel] {
			m, ok = [2]string{RT + "vnet", "net"}, true
		}
		if !ok {
			continue
		}
		imp.Path.Value = strconv.Quote(m[0])
		if imp.Name == nil {
			imp.Name = ast.NewIdent(m[1])
		}
		r.stats["imports"]++
	}

	pre := func(c *astutil.Cursor) bool {
		switch n := c.Node().(type) {
		case *ast.SelectStmt:
			for _, cl := range n.Body.List {
				cc := cl.(*ast.CommClause)
				switch s := cc.Comm.(type) {
				case *ast.SendStmt:
					r.skip[s] = true
				case *ast.ExprStmt:
					r.skip[unparen(s.X)] = true
				case *ast.AssignStmt:
					r.skip[unparen(s.Rhs[0])] = true
					r.skip[s] = true
				}
			}
		}
		return true
	}
	post := func(c *astutil.Cursor) bool {
		if r.err != nil {
			return false
		}
		if st, ok := c.Node().(ast.Stmt); ok {
			if name, ok := r.racyStmts[st]; ok && c.Index() >= 0 {
				delete(r.racyStmts, st)
				r.needSched = true
				r.stats["racy-access"]++
				c.InsertBefore(&ast.ExprStmt{X: call(schedSel("Access"), &ast.BasicLit{Kind: token.STRING, Value: strconv.Quote(name)})})
			}
		}
		switch n := c.Node().(type) {
		case *ast.GoStmt:
			c.Replace(r.rewriteGo(n))
		case *ast.AssignStmt:
			// m[k] = v with a pointer, interface or channel key: give k its identity now, so that a later
			// iteration over m is ordered by insertion (the address of k is not stable between executions)
			if r.skip[n] || n.Tok != token.ASSIGN || len(n.Lhs) != 1 {
				return true
			}
			ix, ok := n.Lhs[0].(*ast.IndexExpr)
			if !ok || !r.isMap(ix.X) || !pureExpr(ix.Index) {
				return true
			}
			mt := r.info.TypeOf(ix.X).Underlying().(*types.Map)
			switch mt.Key().Underlying().(type) {
			case *types.Pointer, *types.Interface, *types.Chan:
			default:
				return true
			}
			switch c.Parent().(type) {
			case *ast.BlockStmt, *ast.CaseClause, *ast.CommClause:
			default:
				return true
			}
			r.needSched = true
			r.stats["mapkey"]++
			c.Replace(&ast.BlockStmt{List: []ast.Stmt{&ast.ExprStmt{X: call(schedSel("Touch"), ix.Index)}, n}})
		case *ast.SendStmt:
			if r.skip[n] {
				return true
			}
			r.needSched = true
			r.stats["send"]++
			switch c.Parent().(type) {
			case *ast.BlockStmt, *ast.CaseClause, *ast.CommClause, *ast.LabeledStmt:
			default:
				r.fail(n, "send statement in this position is not supported")
				return false
			}
			{
				// Go evaluates the channel and the value before the send can block: hoist both in front of the
				// scheduling point (a value expression with scheduling points of its own must not run after it)
				var list []ast.Stmt
				var chv ast.Expr = n.Chan
				if !pureExpr(n.Chan) {
					cv := ast.NewIdent(r.name("c"))
					list = append(list, &ast.AssignStmt{Lhs: []ast.Expr{cv}, Tok: token.DEFINE, Rhs: []ast.Expr{n.Chan}})
					chv = cv
				}
				var val ast.Expr = n.Value
				if !r.isConstOrNil(n.Value) && !pureExpr(n.Value) {
					sv := ast.NewIdent(r.name("s"))
					list = append(list, &ast.AssignStmt{Lhs: []ast.Expr{sv}, Tok: token.DEFINE, Rhs: []ast.Expr{n.Value}})
					val = sv
				}
				tok := ast.NewIdent(r.name("t"))
				send := &ast.SendStmt{Chan: chv, Value: val}
				r.skip[send] = true
				list = append(list,
					&ast.AssignStmt{Lhs: []ast.Expr{tok}, Tok: token.DEFINE, Rhs: []ast.Expr{call(schedSel("SendPt"), chv)}},
					send,
					&ast.ExprStmt{X: call(schedSel("PostSendT"), tok)})
				c.Replace(&ast.BlockStmt{List: list})
			}
		case *ast.UnaryExpr:
			if n.Op != token.ARROW || r.skip[n] {
				return true
			}
			r.needSched = true
			r.stats["recv"]++
			// two-value form is handled at the assignment
			if as, ok := c.Parent().(*ast.AssignStmt); ok && len(as.Lhs) == 2 && len(as.Rhs) == 1 {
				c.Replace(call(schedSel("Recv2"), n.X))
				return true
			}
			if vs, ok := c.Parent().(*ast.ValueSpec); ok && len(vs.Names) == 2 && len(vs.Values) == 1 {
				c.Replace(call(schedSel("Recv2"), n.X))
				return true
			}
			c.Replace(call(schedSel("RecvV"), n.X))
		case *ast.CallExpr:
			if len(n.Args) == 1 && r.isBuiltin(n.Fun, "close") {
				r.needSched = true
				r.stats["close"]++
				c.Replace(call(schedSel("CloseCh"), n.Args[0]))
			} else if len(n.Args) == 1 && r.isBuiltin(n.Fun, "len") && r.isChan(n.Args[0]) {
				r.needSched = true
				r.stats["lenchan"]++
				c.Replace(call(schedSel("LenCh"), n.Args[0]))
			}
		case *ast.RangeStmt:
			if r.isChan(n.X) {
				c.Replace(r.rewriteRangeChan(n))
			} else if r.isMap(n.X) {
				if repl := r.rewriteRangeMap(n, c); repl != nil {
					c.Replace(repl)
				}
			}
		case *ast.SelectStmt:
			r.rewriteSelect(n, c)
		}
		return true
	}
	astutil.Apply(f, pre, post)
	if r.err != nil {
		return nil, r.err
	}
	if r.needSched {
		astutil.AddNamedImport(r.fset, f, "vsched", RT+"sched")
	}

	var buf bytes.Buffer
	if err := format.Node(&buf, r.fset, f); err != nil {
		return nil, err
	}
	return addBuildTag(buf.Bytes()), nil
}

func unparen(e ast.Expr) ast.Expr {
	for {
		p, ok := e.(*ast.ParenExpr)
		if !ok {
			return e
		}
		e = p.X
	}
}

// addBuildTag lifts the file to language version go1.21 (generics) while
// keeping pre-1.22 loop-variable semantics.
func addBuildTag(src []byte) []byte {
	lines := strings.Split(string(src), "\n")
	var out []string
	constraint := ""
	for _, l := range lines {
		t := strings.TrimSpace(l)
		if strings.HasPrefix(t, "//go:build ") {
			constraint = strings.TrimPrefix(t, "//go:build ")
			continue
		}
		if strings.HasPrefix(t, "// +build ") {
			continue
		}
		out = append(out, l)
	}
	tag := "//go:build go1.21"
	if constraint != "" {
		tag = "//go:build (" + constraint + ") && go1.21"
	}
	return []byte(tag + "\n\n" + strings.Join(out, "\n"))
}

func (r *rewriter) rewriteGo(n *ast.GoStmt) ast.Stmt {
	r.needSched = true
	r.stats["go"]++
	name := &ast.BasicLit{Kind: token.STRING, Value: strconv.Quote(r.site(n))}
	ce := n.Call
	if fl, ok := ce.Fun.(*ast.FuncLit); ok && len(ce.Args) == 0 && (fl.Type.Results == nil || len(fl.Type.Results.List) == 0) {
		return &ast.ExprStmt{X: call(schedSel("GoNamed"), name, fl)}
	}
	var stmts []ast.Stmt
	fun := ce.Fun
	if _, isLit := fun.(*ast.FuncLit); isLit || true {
		if tv, ok := r.info.Types[ce.Fun]; ok && (tv.IsType() || tv.IsBuiltin()) {
			r.fail(n, "go statement with conversion or builtin is not supported")
			return n
		}
		fv := ast.NewIdent(r.name("f"))
		stmts = append(stmts, &ast.AssignStmt{Lhs: []ast.Expr{fv}, Tok: token.DEFINE, Rhs: []ast.Expr{ce.Fun}})
		fun = fv
	}
	args := make([]ast.Expr, len(ce.Args))
	for i, a := range ce.Args {
		if r.isConstOrNil(a) {
			args[i] = a
			continue
		}
		av := ast.NewIdent(r.name("a"))
		stmts = append(stmts, &ast.AssignStmt{Lhs: []ast.Expr{av}, Tok: token.DEFINE, Rhs: []ast.Expr{a}})
		args[i] = av
	}
	inner := &ast.CallExpr{Fun: fun, Args: args, Ellipsis: ce.Ellipsis}
	if ce.Ellipsis != token.NoPos {
		inner.Ellipsis = 1
	}
	lit := &ast.FuncLit{Type: &ast.FuncType{Params: &ast.FieldList{}}, Body: &ast.BlockStmt{List: []ast.Stmt{&ast.ExprStmt{X: inner}}}}
	stmts = append(stmts, &ast.ExprStmt{X: call(schedSel("GoNamed"), name, lit)})
	return &ast.BlockStmt{List: stmts}
}

func (r *rewriter) rewriteRangeChan(n *ast.RangeStmt) ast.Stmt {
	r.needSched = true
	r.stats["rangechan"]++
	ok := ast.NewIdent(r.name("ok"))
	var lhs ast.Expr = ast.NewIdent("_")
	tok := token.DEFINE
	if n.Key != nil {
		lhs = n.Key
		tok = n.Tok
	}
	var recv ast.Stmt
	if tok == token.DEFINE {
		recv = &ast.AssignStmt{Lhs: []ast.Expr{lhs, ok}, Tok: token.DEFINE, Rhs: []ast.Expr{call(schedSel("Recv2"), n.X)}}
	} else {
		// assignment form: declare ok separately
		recv = &ast.BlockStmt{List: []ast.Stmt{}}
		r.fail(n, "range over channel with '=' is not supported")
		return n
	}
	brk := &ast.IfStmt{Cond: &ast.UnaryExpr{Op: token.NOT, X: ok}, Body: &ast.BlockStmt{List: []ast.Stmt{&ast.BranchStmt{Tok: token.BREAK}}}}
	body := &ast.BlockStmt{List: append([]ast.Stmt{recv, brk}, n.Body.List...)}
	if !pureExpr(n.X) {
		r.fail(n, "range over a non-trivial channel expression is not supported")
		return n
	}
	return &ast.ForStmt{Body: body}
}

func (r *rewriter) rewriteRangeMap(n *ast.RangeStmt, c *astutil.Cursor) ast.Stmt {
	if n.Key == nil && n.Value == nil {
		return nil // `for range m`: order is unobservable
	}
	if n.Tok != token.DEFINE {
		r.fail(n, "range over map with '=' is not supported")
		return nil
	}
	r.needSched = true
	r.stats["rangemap"]++
	var pre []ast.Stmt
	m := n.X
	if !pureExpr(m) {
		if _, labeled := c.Parent().(*ast.LabeledStmt); labeled {
			r.fail(n, "labeled range over a non-trivial map expression is not supported")
			return nil
		}
		mv := ast.NewIdent(r.name("m"))
		pre = append(pre, &ast.AssignStmt{Lhs: []ast.Expr{mv}, Tok: token.DEFINE, Rhs: []ast.Expr{m}})
		m = mv
	}
	key := n.Key
	keyIsBlank := false
	if id, ok := key.(*ast.Ident); key == nil || (ok && id.Name == "_") {
		key = ast.NewIdent(r.name("k"))
		keyIsBlank = true
	}
	_ = keyIsBlank
	okv := ast.NewIdent(r.name("ok"))
	var val ast.Expr = ast.NewIdent("_")
	if n.Value != nil {
		val = n.Value
	}
	// The value variable of a range statement is one variable for the whole loop (the module's language version is
	// below go1.22): a closure or goroutine started in the body that captures it sees what later iterations assign.
	// Declaring it per iteration would hide exactly that kind of defect, so it is declared once, before the loop
	// (not possible under a label, where the loop statement has to stay the labelled statement).
	_, labeled := c.Parent().(*ast.LabeledStmt)
	if vid, ok := val.(*ast.Ident); ok && vid.Name != "_" && !labeled {
		if m == n.X {
			mv := ast.NewIdent(r.name("m"))
			pre = append(pre, &ast.AssignStmt{Lhs: []ast.Expr{mv}, Tok: token.DEFINE, Rhs: []ast.Expr{m}})
			m = mv
		}
		pre = append(pre,
			&ast.AssignStmt{Lhs: []ast.Expr{val}, Tok: token.DEFINE, Rhs: []ast.Expr{call(schedSel("MapZero"), m)}},
			&ast.AssignStmt{Lhs: []ast.Expr{ast.NewIdent("_")}, Tok: token.ASSIGN, Rhs: []ast.Expr{val}})
		declOK := &ast.AssignStmt{Lhs: []ast.Expr{okv}, Tok: token.DEFINE, Rhs: []ast.Expr{ast.NewIdent("false")}}
		assign := &ast.AssignStmt{Lhs: []ast.Expr{val, okv}, Tok: token.ASSIGN, Rhs: []ast.Expr{&ast.IndexExpr{X: m, Index: key}}}
		cont := &ast.IfStmt{Cond: &ast.UnaryExpr{Op: token.NOT, X: okv}, Body: &ast.BlockStmt{List: []ast.Stmt{&ast.BranchStmt{Tok: token.CONTINUE}}}}
		body := &ast.BlockStmt{List: append([]ast.Stmt{declOK, assign, cont}, n.Body.List...)}
		loop := &ast.RangeStmt{Key: ast.NewIdent("_"), Value: key, Tok: token.DEFINE, X: call(schedSel("MapKeys"), m), Body: body}
		return &ast.BlockStmt{List: append(pre, loop)}
	}
	lookup := &ast.AssignStmt{Lhs: []ast.Expr{val, okv}, Tok: token.DEFINE, Rhs: []ast.Expr{&ast.IndexExpr{X: m, Index: key}}}
	cont := &ast.IfStmt{Cond: &ast.UnaryExpr{Op: token.NOT, X: okv}, Body: &ast.BlockStmt{List: []ast.Stmt{&ast.BranchStmt{Tok: token.CONTINUE}}}}
	body := &ast.BlockStmt{List: append([]ast.Stmt{lookup, cont}, n.Body.List...)}
	loop := &ast.RangeStmt{Key: ast.NewIdent("_"), Value: key, Tok: token.DEFINE, X: call(schedSel("MapKeys"), m), Body: body}
	if len(pre) == 0 {
		return loop
	}
	return &ast.BlockStmt{List: append(pre, loop)}
}

func (r *rewriter) rewriteSelect(n *ast.SelectStmt, c *astutil.Cursor) {
	r.needSched = true
	r.stats["select"]++
	var pre []ast.Stmt
	var cases []ast.Expr
	var clauses []ast.Stmt
	hasDefault := false
	idx := 0
	for _, cl := range n.Body.List {
		cc := cl.(*ast.CommClause)
		if cc.Comm == nil {
			hasDefault = true
			clauses = append(clauses, &ast.CaseClause{List: nil, Body: cc.Body})
			continue
		}
		hoist := func(e ast.Expr, p string) ast.Expr {
			if r.isConstOrNil(e) || (p == "c" && pureExpr(e)) {
				return e
			}
			v := ast.NewIdent(r.name(p))
			pre = append(pre, &ast.AssignStmt{Lhs: []ast.Expr{v}, Tok: token.DEFINE, Rhs: []ast.Expr{e}})
			return v
		}
		var op ast.Stmt
		switch s := cc.Comm.(type) {
		case *ast.SendStmt:
			ch := hoist(s.Chan, "c")
			val := hoist(s.Value, "s")
			cases = append(cases, call(schedSel("S"), ch))
			op = &ast.SendStmt{Chan: ch, Value: val}
		case *ast.ExprStmt:
			u := unparen(s.X).(*ast.UnaryExpr)
			ch := hoist(u.X, "c")
			cases = append(cases, call(schedSel("R"), ch))
			op = &ast.ExprStmt{X: &ast.UnaryExpr{Op: token.ARROW, X: ch}}
		case *ast.AssignStmt:
			u := unparen(s.Rhs[0]).(*ast.UnaryExpr)
			ch := hoist(u.X, "c")
			cases = append(cases, call(schedSel("R"), ch))
			op = &ast.AssignStmt{Lhs: s.Lhs, Tok: s.Tok, Rhs: []ast.Expr{&ast.UnaryExpr{Op: token.ARROW, X: ch}}}
			// variables declared by the comm clause may be unused in the body
			if s.Tok == token.DEFINE {
				var uses []ast.Stmt
				for _, l := range s.Lhs {
					if id, ok := l.(*ast.Ident); ok && id.Name != "_" {
						uses = append(uses, &ast.AssignStmt{Lhs: []ast.Expr{ast.NewIdent("_")}, Tok: token.ASSIGN, Rhs: []ast.Expr{ast.NewIdent(id.Name)}})
					}
				}
				op = &ast.BlockStmt{List: append([]ast.Stmt{op}, uses...)}
				// a block would scope the variables away; splice instead
				clauses = append(clauses, &ast.CaseClause{
					List: []ast.Expr{&ast.BasicLit{Kind: token.INT, Value: strconv.Itoa(idx)}},
					Body: append(op.(*ast.BlockStmt).List, cc.Body...),
				})
				idx++
				continue
			}
		}
		clauses = append(clauses, &ast.CaseClause{
			List: []ast.Expr{&ast.BasicLit{Kind: token.INT, Value: strconv.Itoa(idx)}},
			Body: append([]ast.Stmt{op}, cc.Body...),
		})
		idx++
	}
	def := ast.NewIdent("false")
	if hasDefault {
		def = ast.NewIdent("true")
	} else {
		// Select only returns -1 for a select with a default arm; the extra clause keeps a select that ends a
		// function a terminating statement
		clauses = append(clauses, &ast.CaseClause{List: nil, Body: []ast.Stmt{&ast.ExprStmt{X: call(ast.NewIdent("panic"), &ast.BasicLit{Kind: token.STRING, Value: strconv.Quote("verif: select without a ready arm")})}}})
	}
	sw := &ast.SwitchStmt{
		Tag:  call(schedSel("Select"), append([]ast.Expr{def}, cases...)...),
		Body: &ast.BlockStmt{List: clauses},
	}
	// keep labels working: `L: select {...}` with `break L`
	if _, ok := c.Parent().(*ast.LabeledStmt); ok && len(pre) > 0 {
		r.fail(n, "labeled select with non-constant channel operands is not supported")
		return
	}
	if len(pre) == 0 {
		c.Replace(sw)
		return
	}
	c.Replace(&ast.BlockStmt{List: append(pre, sw)})
}

// SortedFiles returns the result's file names sorted (for deterministic output).
func (r *Result) SortedFiles() []string {
	var ks []string
	for k := range r.Files {
		ks = append(ks, k)
	}
	sort.Strings(ks)
	return ks
}

var _ = os.Stat
