#!/bin/sh
# entry point for MANIFEST commands: run.sh <ID> <quick|thorough> | run.sh replay <file>
export GOFLAGS=-mod=mod GOPROXY=off GOSUMDB=off GOTOOLCHAIN=local
cd /verif || exit 2
if [ ! -x bin/vcheck ] || [ -n "$(find cmd internal -newer bin/vcheck -name '*.go' 2>/dev/null | head -1)" ]; then
  mkdir -p bin && go build -o bin/vcheck ./cmd/vcheck || { echo "ERROR: cannot build vcheck"; exit 2; }
fi
if [ "$1" = "replay" ]; then exec bin/vcheck replay "$2"; fi
exec bin/vcheck run "$1" --tier "${2:-${VERIF_TIER:-quick}}"
