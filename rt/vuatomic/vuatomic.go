//go:build go1.21

// Package vuatomic mirrors the subset of go.uber.org/atomic the repository
// uses; every operation is a scheduling point. Zero values are usable. The
// values are kept in real atomics, so the shims are race free in the
// free-running race pass as well.
package vuatomic

import (
	"sync/atomic"

	"github.com/samaritan-proxy/samaritan/verifrt/sched"
)

type Bool struct{ v atomic.Bool }

func NewBool(v bool) *Bool {
	b := &Bool{}
	b.v.Store(v)
	return b
}
func (b *Bool) Load() bool { sched.Op("atomic-load", b); return b.v.Load() }
func (b *Bool) Store(v bool) {
	sched.Op("atomic-store", b)
	defer sched.Post("atomic-store", b)
	b.v.Store(v)
}
func (b *Bool) CAS(old, new bool) bool {
	sched.Op("atomic-cas", b)
	defer sched.Post("atomic-cas", b)
	return b.v.CompareAndSwap(old, new)
}
func (b *Bool) Swap(new bool) bool {
	sched.Op("atomic-swap", b)
	defer sched.Post("atomic-swap", b)
	return b.v.Swap(new)
}
func (b *Bool) Toggle() bool {
	sched.Op("atomic-toggle", b)
	defer sched.Post("atomic-toggle", b)
	for {
		o := b.v.Load()
		if b.v.CompareAndSwap(o, !o) {
			return o
		}
	}
}

type Int32 struct{ v atomic.Int32 }

func NewInt32(v int32) *Int32 {
	i := &Int32{}
	i.v.Store(v)
	return i
}
func (i *Int32) Load() int32 { sched.Op("atomic-load", i); return i.v.Load() }
func (i *Int32) Store(v int32) {
	sched.Op("atomic-store", i)
	defer sched.Post("atomic-store", i)
	i.v.Store(v)
}
func (i *Int32) Add(n int32) int32 {
	sched.Op("atomic-add", i)
	defer sched.Post("atomic-add", i)
	return i.v.Add(n)
}
func (i *Int32) Sub(n int32) int32 {
	sched.Op("atomic-add", i)
	defer sched.Post("atomic-add", i)
	return i.v.Add(-n)
}
func (i *Int32) Inc() int32 { return i.Add(1) }
func (i *Int32) Dec() int32 { return i.Sub(1) }
func (i *Int32) Swap(n int32) int32 {
	sched.Op("atomic-swap", i)
	defer sched.Post("atomic-swap", i)
	return i.v.Swap(n)
}
func (i *Int32) CAS(old, new int32) bool {
	sched.Op("atomic-cas", i)
	defer sched.Post("atomic-cas", i)
	return i.v.CompareAndSwap(old, new)
}

type Int64 struct{ v atomic.Int64 }

func NewInt64(v int64) *Int64 {
	i := &Int64{}
	i.v.Store(v)
	return i
}
func (i *Int64) Load() int64 { sched.Op("atomic-load", i); return i.v.Load() }
func (i *Int64) Store(v int64) {
	sched.Op("atomic-store", i)
	defer sched.Post("atomic-store", i)
	i.v.Store(v)
}
func (i *Int64) Add(n int64) int64 {
	sched.Op("atomic-add", i)
	defer sched.Post("atomic-add", i)
	return i.v.Add(n)
}
func (i *Int64) Sub(n int64) int64 {
	sched.Op("atomic-add", i)
	defer sched.Post("atomic-add", i)
	return i.v.Add(-n)
}
func (i *Int64) Inc() int64 { return i.Add(1) }
func (i *Int64) Dec() int64 { return i.Sub(1) }
func (i *Int64) Swap(n int64) int64 {
	sched.Op("atomic-swap", i)
	defer sched.Post("atomic-swap", i)
	return i.v.Swap(n)
}
func (i *Int64) CAS(old, new int64) bool {
	sched.Op("atomic-cas", i)
	defer sched.Post("atomic-cas", i)
	return i.v.CompareAndSwap(old, new)
}

type Uint32 struct{ v atomic.Uint32 }

func NewUint32(v uint32) *Uint32 {
	i := &Uint32{}
	i.v.Store(v)
	return i
}
func (i *Uint32) Load() uint32 { sched.Op("atomic-load", i); return i.v.Load() }
func (i *Uint32) Store(v uint32) {
	sched.Op("atomic-store", i)
	defer sched.Post("atomic-store", i)
	i.v.Store(v)
}
func (i *Uint32) Add(n uint32) uint32 {
	sched.Op("atomic-add", i)
	defer sched.Post("atomic-add", i)
	return i.v.Add(n)
}
func (i *Uint32) Sub(n uint32) uint32 {
	sched.Op("atomic-add", i)
	defer sched.Post("atomic-add", i)
	return i.v.Add(^(n - 1))
}
func (i *Uint32) Inc() uint32 { return i.Add(1) }
func (i *Uint32) Dec() uint32 { return i.Sub(1) }
func (i *Uint32) Swap(n uint32) uint32 {
	sched.Op("atomic-swap", i)
	defer sched.Post("atomic-swap", i)
	return i.v.Swap(n)
}
func (i *Uint32) CAS(old, new uint32) bool {
	sched.Op("atomic-cas", i)
	defer sched.Post("atomic-cas", i)
	return i.v.CompareAndSwap(old, new)
}

type Uint64 struct{ v atomic.Uint64 }

func NewUint64(v uint64) *Uint64 {
	i := &Uint64{}
	i.v.Store(v)
	return i
}
func (i *Uint64) Load() uint64 { sched.Op("atomic-load", i); return i.v.Load() }
func (i *Uint64) Store(v uint64) {
	sched.Op("atomic-store", i)
	defer sched.Post("atomic-store", i)
	i.v.Store(v)
}
func (i *Uint64) Add(n uint64) uint64 {
	sched.Op("atomic-add", i)
	defer sched.Post("atomic-add", i)
	return i.v.Add(n)
}
func (i *Uint64) Sub(n uint64) uint64 {
	sched.Op("atomic-add", i)
	defer sched.Post("atomic-add", i)
	return i.v.Add(^(n - 1))
}
func (i *Uint64) Inc() uint64 { return i.Add(1) }
func (i *Uint64) Dec() uint64 { return i.Sub(1) }
func (i *Uint64) Swap(n uint64) uint64 {
	sched.Op("atomic-swap", i)
	defer sched.Post("atomic-swap", i)
	return i.v.Swap(n)
}
func (i *Uint64) CAS(old, new uint64) bool {
	sched.Op("atomic-cas", i)
	defer sched.Post("atomic-cas", i)
	return i.v.CompareAndSwap(old, new)
}

// Value mirrors go.uber.org/atomic.Value (sync/atomic.Value).
type Value struct{ v atomic.Value }

func (v *Value) Load() interface{} { sched.Op("atomic-load", v); return v.v.Load() }
func (v *Value) Store(x interface{}) {
	sched.Op("atomic-store", v)
	defer sched.Post("atomic-store", v)
	v.v.Store(x)
}
