//go:build go1.21

// Package vuatomic mirrors the subset of go.uber.org/atomic the repository
// uses; every operation is a scheduling point. Zero values are usable.
package vuatomic

import (
	"github.com/samaritan-proxy/samaritan/verifrt/sched"
)

type Bool struct{ v bool }

func NewBool(v bool) *Bool   { return &Bool{v: v} }
func (b *Bool) Load() bool   { sched.Op("atomic-load", b); return b.v }
func (b *Bool) Store(v bool) { sched.Op("atomic-store", b); b.v = v }
func (b *Bool) CAS(old, new bool) bool {
	sched.Op("atomic-cas", b)
	if b.v == old {
		b.v = new
		return true
	}
	return false
}
func (b *Bool) Swap(new bool) bool { sched.Op("atomic-swap", b); o := b.v; b.v = new; return o }
func (b *Bool) Toggle() bool       { sched.Op("atomic-toggle", b); o := b.v; b.v = !o; return o }

type Int32 struct{ v int32 }

func NewInt32(v int32) *Int32       { return &Int32{v: v} }
func (i *Int32) Load() int32        { sched.Op("atomic-load", i); return i.v }
func (i *Int32) Store(v int32)      { sched.Op("atomic-store", i); i.v = v }
func (i *Int32) Add(n int32) int32  { sched.Op("atomic-add", i); i.v += n; return i.v }
func (i *Int32) Sub(n int32) int32  { sched.Op("atomic-add", i); i.v -= n; return i.v }
func (i *Int32) Inc() int32         { return i.Add(1) }
func (i *Int32) Dec() int32         { return i.Sub(1) }
func (i *Int32) Swap(n int32) int32 { sched.Op("atomic-swap", i); o := i.v; i.v = n; return o }
func (i *Int32) CAS(old, new int32) bool {
	sched.Op("atomic-cas", i)
	if i.v == old {
		i.v = new
		return true
	}
	return false
}

type Int64 struct{ v int64 }

func NewInt64(v int64) *Int64       { return &Int64{v: v} }
func (i *Int64) Load() int64        { sched.Op("atomic-load", i); return i.v }
func (i *Int64) Store(v int64)      { sched.Op("atomic-store", i); i.v = v }
func (i *Int64) Add(n int64) int64  { sched.Op("atomic-add", i); i.v += n; return i.v }
func (i *Int64) Sub(n int64) int64  { sched.Op("atomic-add", i); i.v -= n; return i.v }
func (i *Int64) Inc() int64         { return i.Add(1) }
func (i *Int64) Dec() int64         { return i.Sub(1) }
func (i *Int64) Swap(n int64) int64 { sched.Op("atomic-swap", i); o := i.v; i.v = n; return o }
func (i *Int64) CAS(old, new int64) bool {
	sched.Op("atomic-cas", i)
	if i.v == old {
		i.v = new
		return true
	}
	return false
}

type Uint32 struct{ v uint32 }

func NewUint32(v uint32) *Uint32       { return &Uint32{v: v} }
func (i *Uint32) Load() uint32         { sched.Op("atomic-load", i); return i.v }
func (i *Uint32) Store(v uint32)       { sched.Op("atomic-store", i); i.v = v }
func (i *Uint32) Add(n uint32) uint32  { sched.Op("atomic-add", i); i.v += n; return i.v }
func (i *Uint32) Sub(n uint32) uint32  { sched.Op("atomic-add", i); i.v -= n; return i.v }
func (i *Uint32) Inc() uint32          { return i.Add(1) }
func (i *Uint32) Dec() uint32          { return i.Sub(1) }
func (i *Uint32) Swap(n uint32) uint32 { sched.Op("atomic-swap", i); o := i.v; i.v = n; return o }
func (i *Uint32) CAS(old, new uint32) bool {
	sched.Op("atomic-cas", i)
	if i.v == old {
		i.v = new
		return true
	}
	return false
}

type Uint64 struct{ v uint64 }

func NewUint64(v uint64) *Uint64       { return &Uint64{v: v} }
func (i *Uint64) Load() uint64         { sched.Op("atomic-load", i); return i.v }
func (i *Uint64) Store(v uint64)       { sched.Op("atomic-store", i); i.v = v }
func (i *Uint64) Add(n uint64) uint64  { sched.Op("atomic-add", i); i.v += n; return i.v }
func (i *Uint64) Sub(n uint64) uint64  { sched.Op("atomic-add", i); i.v -= n; return i.v }
func (i *Uint64) Inc() uint64          { return i.Add(1) }
func (i *Uint64) Dec() uint64          { return i.Sub(1) }
func (i *Uint64) Swap(n uint64) uint64 { sched.Op("atomic-swap", i); o := i.v; i.v = n; return o }
func (i *Uint64) CAS(old, new uint64) bool {
	sched.Op("atomic-cas", i)
	if i.v == old {
		i.v = new
		return true
	}
	return false
}

// Value mirrors go.uber.org/atomic.Value (sync/atomic.Value).
type Value struct{ v interface{} }

func (v *Value) Load() interface{} { sched.Op("atomic-load", v); return v.v }
func (v *Value) Store(x interface{}) {
	if x == nil {
		panic("sync/atomic: store of nil value into Value")
	}
	sched.Op("atomic-store", v)
	v.v = x
}
