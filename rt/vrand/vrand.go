//go:build go1.21

// Package vrand mirrors the subset of math/rand the repository uses. Inside a
// controlled execution every random draw is a choice of the explorer
// (environment class; a scenario may declare draws to be inputs so that they
// are enumerated completely).
package vrand

import (
	"math/rand"

	"github.com/samaritan-proxy/samaritan/verifrt/sched"
)

type Source = rand.Source

// Rand mirrors *rand.Rand; its draws are choices of the explorer as well.
type Rand struct{ r *rand.Rand }

func New(src Source) *Rand        { return &Rand{r: rand.New(src)} }
func NewSource(seed int64) Source { return rand.NewSource(seed) }

func (r *Rand) Float64() float64 { return Float64() }
func (r *Rand) Intn(n int) int   { return Intn(n) }
func (r *Rand) Int() int         { return Int() }
func (r *Rand) Int63() int64     { return Int63() }
func (r *Rand) Seed(seed int64)  {}
func Seed(seed int64)            {}

func cls() sched.Class {
	if e := sched.E; e != nil {
		if v, _ := e.Data["randIsInput"].(bool); v {
			return sched.ClsInput
		}
	}
	return sched.ClsEnv
}

// RandIsInput makes every draw an INPUT choice (fully enumerated).
func RandIsInput() {
	if e := sched.E; e != nil {
		e.Data["randIsInput"] = true
	}
}

// Fair makes the default answer of Intn rotate (0,1,2,... modulo n) instead of always being 0, so that
// code which retries with a fresh random pick eventually tries every candidate on the default path.
func Fair() {
	if e := sched.E; e != nil {
		e.Data["randFair"] = new(int)
	}
}

func fairOffset(n int) int {
	if e := sched.E; e != nil {
		if p, ok := e.Data["randFair"].(*int); ok {
			*p++
			return (*p - 1) % n
		}
	}
	return 0
}

// IntRange bounds what Int() may return (it is used modulo small numbers).
var IntRange = 1

// FreeIntn, when set, decides Intn outside a controlled execution (sequential harnesses).
var FreeIntn func(n int) int

func Intn(n int) int {
	if sched.E == nil {
		if FreeIntn != nil {
			return FreeIntn(n)
		}
		return rand.Intn(n)
	}
	if n <= 0 {
		panic("invalid argument to Intn")
	}
	return (sched.Choose(cls(), n, "rand.Intn") + fairOffset(n)) % n
}

func Int() int {
	if sched.E == nil {
		return rand.Int()
	}
	return sched.Choose(cls(), IntRange, "rand.Int")
}

func Int63() int64         { return int64(Int()) }
func Int31n(n int32) int32 { return int32(Intn(int(n))) }
func Int63n(n int64) int64 { return int64(Intn(int(n))) }

// FreeFloat64, when set, decides Float64 outside a controlled execution.
var FreeFloat64 func() float64

// Float64 returns 0.5 by default; 0 (the smallest draw) is the deviation. For
// comparisons of the form r < p these two cover both outcomes for every p
// except p <= 0.5 < ... which 0 covers and p > 0.5 which both satisfy.
func Float64() float64 {
	if sched.E == nil {
		if FreeFloat64 != nil {
			return FreeFloat64()
		}
		return rand.Float64()
	}
	if sched.Choose(cls(), 2, "rand.Float64") == 1 {
		return 0
	}
	return 0.5
}

func Read(p []byte) (int, error) {
	for i := range p {
		p[i] = byte(i * 7)
	}
	return len(p), nil
}

// Perm and Shuffle are Fisher-Yates over Intn, like math/rand: every draw is a choice of the execution (or
// of FreeIntn / the real generator outside a controlled execution). With the default answers (every draw 0)
// the result is a fixed permutation that differs from the identity for n >= 2.
func Perm(n int) []int {
	m := make([]int, n)
	for i := range m {
		m[i] = i
	}
	Shuffle(n, func(i, j int) { m[i], m[j] = m[j], m[i] })
	return m
}

func Shuffle(n int, swap func(i, j int)) {
	if n < 0 {
		panic("invalid argument to Shuffle")
	}
	for i := n - 1; i > 0; i-- {
		swap(i, Intn(i+1))
	}
}
