//go:build go1.21

// Package vrand mirrors the subset of math/rand the repository uses. Inside a
// controlled execution every random draw is a choice of the explorer
// (environment class; a scenario may declare draws to be inputs so that they
// are enumerated completely).
package vrand

import (
	"math/rand"

	"github.com/samaritan-proxy/samaritan/verifrt/sched"
)

type (
	Rand   = rand.Rand
	Source = rand.Source
)

func New(src Source) *Rand        { return rand.New(src) }
func NewSource(seed int64) Source { return rand.NewSource(seed) }
func Seed(seed int64)             {}

func cls() sched.Class {
	if e := sched.E; e != nil {
		if v, _ := e.Data["randIsInput"].(bool); v {
			return sched.ClsInput
		}
	}
	return sched.ClsEnv
}

// RandIsInput makes every draw an INPUT choice (fully enumerated).
func RandIsInput() {
	if e := sched.E; e != nil {
		e.Data["randIsInput"] = true
	}
}

// IntRange bounds what Int() may return (it is used modulo small numbers).
var IntRange = 1

// FreeIntn, when set, decides Intn outside a controlled execution (sequential harnesses).
var FreeIntn func(n int) int

func Intn(n int) int {
	if sched.E == nil {
		if FreeIntn != nil {
			return FreeIntn(n)
		}
		return rand.Intn(n)
	}
	if n <= 0 {
		panic("invalid argument to Intn")
	}
	return sched.Choose(cls(), n, "rand.Intn")
}

func Int() int {
	if sched.E == nil {
		return rand.Int()
	}
	return sched.Choose(cls(), IntRange, "rand.Int")
}

func Int63() int64         { return int64(Int()) }
func Int31n(n int32) int32 { return int32(Intn(int(n))) }
func Int63n(n int64) int64 { return int64(Intn(int(n))) }

// Float64 returns 0.5 by default; 0 and just below 1 are the deviations.
func Float64() float64 {
	if sched.E == nil {
		return rand.Float64()
	}
	switch sched.Choose(cls(), 3, "rand.Float64") {
	case 1:
		return 0
	case 2:
		return 0.999999
	}
	return 0.5
}

func Read(p []byte) (int, error) {
	for i := range p {
		p[i] = byte(i * 7)
	}
	return len(p), nil
}

func Perm(n int) []int {
	m := make([]int, n)
	for i := range m {
		m[i] = i
	}
	return m
}

func Shuffle(n int, swap func(i, j int)) {}
