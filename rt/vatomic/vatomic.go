//go:build go1.21

// Package vatomic mirrors the subset of sync/atomic the repository uses; every
// operation is a scheduling point.
package vatomic

import (
	"github.com/samaritan-proxy/samaritan/verifrt/sched"
)

// Value mirrors atomic.Value.
type Value struct {
	v interface{}
}

func (v *Value) Load() interface{} {
	sched.Op("atomic-load", v)
	return v.v
}

func (v *Value) Store(x interface{}) {
	if x == nil {
		panic("sync/atomic: store of nil value into Value")
	}
	sched.Op("atomic-store", v)
	v.v = x
}

func AddInt32(addr *int32, delta int32) int32 {
	sched.Op("atomic-add", addr)
	*addr += delta
	return *addr
}

func AddInt64(addr *int64, delta int64) int64 {
	sched.Op("atomic-add", addr)
	*addr += delta
	return *addr
}

func AddUint32(addr *uint32, delta uint32) uint32 {
	sched.Op("atomic-add", addr)
	*addr += delta
	return *addr
}

func AddUint64(addr *uint64, delta uint64) uint64 {
	sched.Op("atomic-add", addr)
	*addr += delta
	return *addr
}

func LoadInt32(addr *int32) int32    { sched.Op("atomic-load", addr); return *addr }
func LoadInt64(addr *int64) int64    { sched.Op("atomic-load", addr); return *addr }
func LoadUint32(addr *uint32) uint32 { sched.Op("atomic-load", addr); return *addr }
func LoadUint64(addr *uint64) uint64 { sched.Op("atomic-load", addr); return *addr }

func StoreInt32(addr *int32, v int32)    { sched.Op("atomic-store", addr); *addr = v }
func StoreInt64(addr *int64, v int64)    { sched.Op("atomic-store", addr); *addr = v }
func StoreUint32(addr *uint32, v uint32) { sched.Op("atomic-store", addr); *addr = v }
func StoreUint64(addr *uint64, v uint64) { sched.Op("atomic-store", addr); *addr = v }

func CompareAndSwapInt32(addr *int32, old, new int32) bool {
	sched.Op("atomic-cas", addr)
	if *addr == old {
		*addr = new
		return true
	}
	return false
}

func CompareAndSwapInt64(addr *int64, old, new int64) bool {
	sched.Op("atomic-cas", addr)
	if *addr == old {
		*addr = new
		return true
	}
	return false
}

func CompareAndSwapUint32(addr *uint32, old, new uint32) bool {
	sched.Op("atomic-cas", addr)
	if *addr == old {
		*addr = new
		return true
	}
	return false
}

func CompareAndSwapUint64(addr *uint64, old, new uint64) bool {
	sched.Op("atomic-cas", addr)
	if *addr == old {
		*addr = new
		return true
	}
	return false
}

func SwapInt32(addr *int32, new int32) int32 {
	sched.Op("atomic-swap", addr)
	old := *addr
	*addr = new
	return old
}

func SwapInt64(addr *int64, new int64) int64 {
	sched.Op("atomic-swap", addr)
	old := *addr
	*addr = new
	return old
}
