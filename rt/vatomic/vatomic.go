//go:build go1.21

// Package vatomic mirrors the subset of sync/atomic the repository uses; every
// operation is a scheduling point followed by the real atomic operation.
package vatomic

import (
	"sync/atomic"

	"github.com/samaritan-proxy/samaritan/verifrt/sched"
)

// Value mirrors atomic.Value.
type Value struct {
	v atomic.Value
}

func (v *Value) Load() interface{} {
	sched.Op("atomic-load", v)
	return v.v.Load()
}

func (v *Value) Store(x interface{}) {
	sched.Op("atomic-store", v)
	v.v.Store(x)
}

func AddInt32(addr *int32, delta int32) int32 {
	sched.Op("atomic-add", addr)
	return atomic.AddInt32(addr, delta)
}
func LoadInt32(addr *int32) int32     { sched.Op("atomic-load", addr); return atomic.LoadInt32(addr) }
func StoreInt32(addr *int32, v int32) { sched.Op("atomic-store", addr); atomic.StoreInt32(addr, v) }
func SwapInt32(addr *int32, v int32) int32 {
	sched.Op("atomic-swap", addr)
	return atomic.SwapInt32(addr, v)
}
func CompareAndSwapInt32(addr *int32, old, new int32) bool {
	sched.Op("atomic-cas", addr)
	return atomic.CompareAndSwapInt32(addr, old, new)
}

func AddInt64(addr *int64, delta int64) int64 {
	sched.Op("atomic-add", addr)
	return atomic.AddInt64(addr, delta)
}
func LoadInt64(addr *int64) int64     { sched.Op("atomic-load", addr); return atomic.LoadInt64(addr) }
func StoreInt64(addr *int64, v int64) { sched.Op("atomic-store", addr); atomic.StoreInt64(addr, v) }
func SwapInt64(addr *int64, v int64) int64 {
	sched.Op("atomic-swap", addr)
	return atomic.SwapInt64(addr, v)
}
func CompareAndSwapInt64(addr *int64, old, new int64) bool {
	sched.Op("atomic-cas", addr)
	return atomic.CompareAndSwapInt64(addr, old, new)
}

func AddUint32(addr *uint32, delta uint32) uint32 {
	sched.Op("atomic-add", addr)
	return atomic.AddUint32(addr, delta)
}
func LoadUint32(addr *uint32) uint32     { sched.Op("atomic-load", addr); return atomic.LoadUint32(addr) }
func StoreUint32(addr *uint32, v uint32) { sched.Op("atomic-store", addr); atomic.StoreUint32(addr, v) }
func SwapUint32(addr *uint32, v uint32) uint32 {
	sched.Op("atomic-swap", addr)
	return atomic.SwapUint32(addr, v)
}
func CompareAndSwapUint32(addr *uint32, old, new uint32) bool {
	sched.Op("atomic-cas", addr)
	return atomic.CompareAndSwapUint32(addr, old, new)
}

func AddUint64(addr *uint64, delta uint64) uint64 {
	sched.Op("atomic-add", addr)
	return atomic.AddUint64(addr, delta)
}
func LoadUint64(addr *uint64) uint64     { sched.Op("atomic-load", addr); return atomic.LoadUint64(addr) }
func StoreUint64(addr *uint64, v uint64) { sched.Op("atomic-store", addr); atomic.StoreUint64(addr, v) }
func SwapUint64(addr *uint64, v uint64) uint64 {
	sched.Op("atomic-swap", addr)
	return atomic.SwapUint64(addr, v)
}
func CompareAndSwapUint64(addr *uint64, old, new uint64) bool {
	sched.Op("atomic-cas", addr)
	return atomic.CompareAndSwapUint64(addr, old, new)
}
