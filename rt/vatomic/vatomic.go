//go:build go1.21

// Package vatomic mirrors the subset of sync/atomic the repository uses; every
// operation is a scheduling point followed by the real atomic operation.
package vatomic

import (
	"sync/atomic"

	"github.com/samaritan-proxy/samaritan/verifrt/sched"
)

// Value mirrors atomic.Value.
type Value struct {
	v atomic.Value
}

func (v *Value) Load() interface{} {
	sched.Op("atomic-load", v)
	return v.v.Load()
}

func (v *Value) Store(x interface{}) {
	sched.Op("atomic-store", v)
	defer sched.Post("atomic-store", v)
	v.v.Store(x)
}

func AddInt32(addr *int32, delta int32) int32 {
	sched.Op("atomic-add", addr)
	defer sched.Post("atomic-add", addr)
	return atomic.AddInt32(addr, delta)
}
func LoadInt32(addr *int32) int32 { sched.Op("atomic-load", addr); return atomic.LoadInt32(addr) }
func StoreInt32(addr *int32, v int32) {
	sched.Op("atomic-store", addr)
	defer sched.Post("atomic-store", addr)
	atomic.StoreInt32(addr, v)
}
func SwapInt32(addr *int32, v int32) int32 {
	sched.Op("atomic-swap", addr)
	defer sched.Post("atomic-swap", addr)
	return atomic.SwapInt32(addr, v)
}
func CompareAndSwapInt32(addr *int32, old, new int32) bool {
	sched.Op("atomic-cas", addr)
	defer sched.Post("atomic-cas", addr)
	return atomic.CompareAndSwapInt32(addr, old, new)
}

func AddInt64(addr *int64, delta int64) int64 {
	sched.Op("atomic-add", addr)
	defer sched.Post("atomic-add", addr)
	return atomic.AddInt64(addr, delta)
}
func LoadInt64(addr *int64) int64 { sched.Op("atomic-load", addr); return atomic.LoadInt64(addr) }
func StoreInt64(addr *int64, v int64) {
	sched.Op("atomic-store", addr)
	defer sched.Post("atomic-store", addr)
	atomic.StoreInt64(addr, v)
}
func SwapInt64(addr *int64, v int64) int64 {
	sched.Op("atomic-swap", addr)
	defer sched.Post("atomic-swap", addr)
	return atomic.SwapInt64(addr, v)
}
func CompareAndSwapInt64(addr *int64, old, new int64) bool {
	sched.Op("atomic-cas", addr)
	defer sched.Post("atomic-cas", addr)
	return atomic.CompareAndSwapInt64(addr, old, new)
}

func AddUint32(addr *uint32, delta uint32) uint32 {
	sched.Op("atomic-add", addr)
	defer sched.Post("atomic-add", addr)
	return atomic.AddUint32(addr, delta)
}
func LoadUint32(addr *uint32) uint32 { sched.Op("atomic-load", addr); return atomic.LoadUint32(addr) }
func StoreUint32(addr *uint32, v uint32) {
	sched.Op("atomic-store", addr)
	defer sched.Post("atomic-store", addr)
	atomic.StoreUint32(addr, v)
}
func SwapUint32(addr *uint32, v uint32) uint32 {
	sched.Op("atomic-swap", addr)
	defer sched.Post("atomic-swap", addr)
	return atomic.SwapUint32(addr, v)
}
func CompareAndSwapUint32(addr *uint32, old, new uint32) bool {
	sched.Op("atomic-cas", addr)
	defer sched.Post("atomic-cas", addr)
	return atomic.CompareAndSwapUint32(addr, old, new)
}

func AddUint64(addr *uint64, delta uint64) uint64 {
	sched.Op("atomic-add", addr)
	defer sched.Post("atomic-add", addr)
	return atomic.AddUint64(addr, delta)
}
func LoadUint64(addr *uint64) uint64 { sched.Op("atomic-load", addr); return atomic.LoadUint64(addr) }
func StoreUint64(addr *uint64, v uint64) {
	sched.Op("atomic-store", addr)
	defer sched.Post("atomic-store", addr)
	atomic.StoreUint64(addr, v)
}
func SwapUint64(addr *uint64, v uint64) uint64 {
	sched.Op("atomic-swap", addr)
	defer sched.Post("atomic-swap", addr)
	return atomic.SwapUint64(addr, v)
}
func CompareAndSwapUint64(addr *uint64, old, new uint64) bool {
	sched.Op("atomic-cas", addr)
	defer sched.Post("atomic-cas", addr)
	return atomic.CompareAndSwapUint64(addr, old, new)
}

// Int32 mirrors atomic.Int32.
type Int32 struct{ v atomic.Int32 }

func (x *Int32) Load() int32 { sched.Op("atomic-load", x); return x.v.Load() }
func (x *Int32) Store(v int32) {
	sched.Op("atomic-store", x)
	defer sched.Post("atomic-store", x)
	x.v.Store(v)
}
func (x *Int32) Add(d int32) int32 {
	sched.Op("atomic-add", x)
	defer sched.Post("atomic-add", x)
	return x.v.Add(d)
}
func (x *Int32) Swap(v int32) int32 {
	sched.Op("atomic-swap", x)
	defer sched.Post("atomic-swap", x)
	return x.v.Swap(v)
}
func (x *Int32) CompareAndSwap(old, new int32) bool {
	sched.Op("atomic-cas", x)
	defer sched.Post("atomic-cas", x)
	return x.v.CompareAndSwap(old, new)
}

// Int64 mirrors atomic.Int64.
type Int64 struct{ v atomic.Int64 }

func (x *Int64) Load() int64 { sched.Op("atomic-load", x); return x.v.Load() }
func (x *Int64) Store(v int64) {
	sched.Op("atomic-store", x)
	defer sched.Post("atomic-store", x)
	x.v.Store(v)
}
func (x *Int64) Add(d int64) int64 {
	sched.Op("atomic-add", x)
	defer sched.Post("atomic-add", x)
	return x.v.Add(d)
}
func (x *Int64) Swap(v int64) int64 {
	sched.Op("atomic-swap", x)
	defer sched.Post("atomic-swap", x)
	return x.v.Swap(v)
}
func (x *Int64) CompareAndSwap(old, new int64) bool {
	sched.Op("atomic-cas", x)
	defer sched.Post("atomic-cas", x)
	return x.v.CompareAndSwap(old, new)
}

// Uint32 mirrors atomic.Uint32.
type Uint32 struct{ v atomic.Uint32 }

func (x *Uint32) Load() uint32 { sched.Op("atomic-load", x); return x.v.Load() }
func (x *Uint32) Store(v uint32) {
	sched.Op("atomic-store", x)
	defer sched.Post("atomic-store", x)
	x.v.Store(v)
}
func (x *Uint32) Add(d uint32) uint32 {
	sched.Op("atomic-add", x)
	defer sched.Post("atomic-add", x)
	return x.v.Add(d)
}
func (x *Uint32) Swap(v uint32) uint32 {
	sched.Op("atomic-swap", x)
	defer sched.Post("atomic-swap", x)
	return x.v.Swap(v)
}
func (x *Uint32) CompareAndSwap(old, new uint32) bool {
	sched.Op("atomic-cas", x)
	defer sched.Post("atomic-cas", x)
	return x.v.CompareAndSwap(old, new)
}

// Uint64 mirrors atomic.Uint64.
type Uint64 struct{ v atomic.Uint64 }

func (x *Uint64) Load() uint64 { sched.Op("atomic-load", x); return x.v.Load() }
func (x *Uint64) Store(v uint64) {
	sched.Op("atomic-store", x)
	defer sched.Post("atomic-store", x)
	x.v.Store(v)
}
func (x *Uint64) Add(d uint64) uint64 {
	sched.Op("atomic-add", x)
	defer sched.Post("atomic-add", x)
	return x.v.Add(d)
}
func (x *Uint64) Swap(v uint64) uint64 {
	sched.Op("atomic-swap", x)
	defer sched.Post("atomic-swap", x)
	return x.v.Swap(v)
}
func (x *Uint64) CompareAndSwap(old, new uint64) bool {
	sched.Op("atomic-cas", x)
	defer sched.Post("atomic-cas", x)
	return x.v.CompareAndSwap(old, new)
}

// Bool mirrors atomic.Bool.
type Bool struct{ v atomic.Bool }

func (x *Bool) Load() bool { sched.Op("atomic-load", x); return x.v.Load() }
func (x *Bool) Store(v bool) {
	sched.Op("atomic-store", x)
	defer sched.Post("atomic-store", x)
	x.v.Store(v)
}
func (x *Bool) Swap(v bool) bool {
	sched.Op("atomic-swap", x)
	defer sched.Post("atomic-swap", x)
	return x.v.Swap(v)
}
func (x *Bool) CompareAndSwap(old, new bool) bool {
	sched.Op("atomic-cas", x)
	defer sched.Post("atomic-cas", x)
	return x.v.CompareAndSwap(old, new)
}

// Pointer mirrors atomic.Pointer.
type Pointer[T any] struct{ v atomic.Pointer[T] }

func (x *Pointer[T]) Load() *T { sched.Op("atomic-load", x); return x.v.Load() }
func (x *Pointer[T]) Store(v *T) {
	sched.Op("atomic-store", x)
	defer sched.Post("atomic-store", x)
	x.v.Store(v)
}
func (x *Pointer[T]) Swap(v *T) *T {
	sched.Op("atomic-swap", x)
	defer sched.Post("atomic-swap", x)
	return x.v.Swap(v)
}
func (x *Pointer[T]) CompareAndSwap(old, new *T) bool {
	sched.Op("atomic-cas", x)
	defer sched.Post("atomic-cas", x)
	return x.v.CompareAndSwap(old, new)
}
