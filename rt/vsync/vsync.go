//go:build go1.21

// Package vsync mirrors the subset of package sync the repository uses, with
// every operation a scheduling point of verifrt/sched and blocking modelled
// exactly (an operation is enabled iff it would not block).
package vsync

import (
	"sync"

	"github.com/samaritan-proxy/samaritan/verifrt/sched"
)

// Outside a controlled execution (sched.E == nil: package init, sequential harnesses, and the
// free-running race pass) every shim falls back to the real primitive, so the shims themselves are
// race free and block for real.

// Locker mirrors sync.Locker.
type Locker interface {
	Lock()
	Unlock()
}

// Mutex mirrors sync.Mutex.
type Mutex struct {
	held bool
	real sync.Mutex
}

func (m *Mutex) Lock() {
	if sched.E == nil {
		m.real.Lock()
		return
	}
	sched.Wait("lock", m, func() bool { return !m.held })
	m.held = true
	sched.TrackHeld(m, func() { m.held = false })
}

func (m *Mutex) Unlock() {
	if sched.E == nil {
		m.real.Unlock()
		return
	}
	sched.Op("unlock", m)
	if !m.held {
		if !sched.Active() && sched.E != nil {
			return // unwinding during tear-down
		}
		panic("sync: unlock of unlocked mutex")
	}
	m.held = false
	sched.UntrackHeld(m)
	sched.Post("unlock", m)
}

// RWMutex mirrors sync.RWMutex, writer-preferring exactly like Go's: Lock
// first takes the writer slot and announces itself (from then on new readers
// block), then waits for active readers to drain.
type RWMutex struct {
	wslot   bool // a writer holds the writer slot (pending or active)
	writer  bool // writer active
	readers int
	real    sync.RWMutex
}

func (m *RWMutex) Lock() {
	if sched.E == nil {
		m.real.Lock()
		return
	}
	sched.Wait("wlock-announce", m, func() bool { return !m.wslot })
	m.wslot = true
	sched.TrackHeld(m, func() { m.wslot, m.writer, m.readers = false, false, 0 })
	sched.Wait("wlock", m, func() bool { return m.readers == 0 })
	m.writer = true
}

func (m *RWMutex) Unlock() {
	if sched.E == nil {
		m.real.Unlock()
		return
	}
	sched.Op("wunlock", m)
	if !m.writer {
		if !sched.Active() && sched.E != nil {
			return
		}
		panic("sync: Unlock of unlocked RWMutex")
	}
	m.writer = false
	m.wslot = false
	if m.readers == 0 {
		sched.UntrackHeld(m)
	}
	sched.Post("wunlock", m)
}

func (m *RWMutex) RLock() {
	if sched.E == nil {
		m.real.RLock()
		return
	}
	sched.Wait("rlock", m, func() bool { return !m.wslot })
	m.readers++
	sched.TrackHeld(m, func() { m.wslot, m.writer, m.readers = false, false, 0 })
}

func (m *RWMutex) RUnlock() {
	if sched.E == nil {
		m.real.RUnlock()
		return
	}
	sched.Op("runlock", m)
	if m.readers <= 0 {
		if !sched.Active() && sched.E != nil {
			return
		}
		panic("sync: RUnlock of unlocked RWMutex")
	}
	m.readers--
	if m.readers == 0 && !m.wslot {
		sched.UntrackHeld(m)
	}
}

// RLocker mirrors (*sync.RWMutex).RLocker.
func (m *RWMutex) RLocker() Locker { return (*rlocker)(m) }

type rlocker RWMutex

func (r *rlocker) Lock()   { (*RWMutex)(r).RLock() }
func (r *rlocker) Unlock() { (*RWMutex)(r).RUnlock() }

// WaitGroup mirrors sync.WaitGroup.
type WaitGroup struct {
	n    int
	real sync.WaitGroup
}

func (w *WaitGroup) Add(delta int) {
	if sched.E == nil {
		w.real.Add(delta)
		return
	}
	sched.Op("wg-add", w)
	w.n += delta
	if w.n < 0 {
		if !sched.Active() && sched.E != nil {
			w.n = 0
			return
		}
		panic("sync: negative WaitGroup counter")
	}
	if delta < 0 {
		sched.Post("wg-done", w)
	}
}

func (w *WaitGroup) Done() { w.Add(-1) }

func (w *WaitGroup) Wait() {
	if sched.E == nil {
		w.real.Wait()
		return
	}
	sched.Wait("wg-wait", w, func() bool { return w.n == 0 })
}

// Once mirrors sync.Once.
type Once struct {
	done    bool
	running bool
	real    sync.Once
}

func (o *Once) Do(f func()) {
	if sched.E == nil {
		o.real.Do(f)
		return
	}
	sched.Wait("once", o, func() bool { return !o.running })
	if o.done {
		return
	}
	o.running = true
	defer func() {
		o.done = true
		o.running = false
		sched.Post("once", o)
	}()
	f()
}

// Pool mirrors sync.Pool as a LIFO free list that is emptied between executions.
type Pool struct {
	New   func() interface{}
	items []interface{}
	reg   bool
	mu    sync.Mutex // guards items outside a controlled execution
}

func (p *Pool) Get() interface{} {
	if sched.E == nil {
		p.mu.Lock()
		defer p.mu.Unlock()
	}
	sched.Op("pool-get", p)
	if n := len(p.items); n > 0 {
		x := p.items[n-1]
		p.items = p.items[:n-1]
		return x
	}
	if p.New != nil {
		return p.New()
	}
	return nil
}

func (p *Pool) Put(x interface{}) {
	if x == nil {
		return
	}
	if sched.E == nil {
		p.mu.Lock()
		defer p.mu.Unlock()
	}
	sched.Op("pool-put", p)
	if !p.reg {
		p.reg = true
		if sched.E != nil {
			sched.OnReset(func() { p.items = nil; p.reg = false })
		} else {
			// sequential harnesses outside an execution: keep the LIFO reuse (that is what makes
			// "returned to the pool while still in use" visible) and empty the pool when the next
			// controlled execution starts
			sched.OnNextExecStart(func() { p.items = nil; p.reg = false })
		}
	}
	p.items = append(p.items, x)
	// the object is published now: let others run before the caller goes on (a caller that keeps
	// using what it just put back races with the next Get)
	sched.Op("pool-put-done", p)
}

// Map mirrors sync.Map (insertion-ordered Range).
type Map struct {
	keys []interface{}
	m    map[interface{}]interface{}
	mu   sync.Mutex // guards the map outside a controlled execution
}

func (m *Map) free() func() {
	if sched.E == nil {
		m.mu.Lock()
		return m.mu.Unlock
	}
	return func() {}
}

func (m *Map) init() {
	if m.m == nil {
		m.m = make(map[interface{}]interface{})
	}
}

func (m *Map) Load(key interface{}) (interface{}, bool) {
	sched.Op("map-load", m)
	m.init()
	v, ok := m.m[key]
	return v, ok
}

func (m *Map) Store(key, value interface{}) {
	defer m.free()()
	sched.Op("map-store", m)
	m.init()
	if _, ok := m.m[key]; !ok {
		m.keys = append(m.keys, key)
	}
	m.m[key] = value
	sched.Post("map-store", m)
}

func (m *Map) LoadOrStore(key, value interface{}) (interface{}, bool) {
	sched.Op("map-loadorstore", m)
	m.init()
	if v, ok := m.m[key]; ok {
		return v, true
	}
	m.keys = append(m.keys, key)
	m.m[key] = value
	sched.Post("map-store", m)
	return value, false
}

func (m *Map) LoadAndDelete(key interface{}) (interface{}, bool) {
	sched.Op("map-loadanddelete", m)
	m.init()
	v, ok := m.m[key]
	if ok {
		m.del(key)
	}
	return v, ok
}

func (m *Map) Delete(key interface{}) {
	defer m.free()()
	sched.Op("map-delete", m)
	m.init()
	m.del(key)
}

func (m *Map) del(key interface{}) {
	if _, ok := m.m[key]; !ok {
		return
	}
	delete(m.m, key)
	for i, k := range m.keys {
		if k == key {
			m.keys = append(m.keys[:i], m.keys[i+1:]...)
			break
		}
	}
}

func (m *Map) Range(f func(key, value interface{}) bool) {
	sched.Op("map-range", m)
	m.init()
	keys := append([]interface{}(nil), m.keys...)
	for _, k := range keys {
		v, ok := m.m[k]
		if !ok {
			continue
		}
		if !f(k, v) {
			return
		}
	}
}

// Cond mirrors sync.Cond.
type Cond struct {
	L       Locker
	waiters []*condWaiter
	real    *sync.Cond
}

type condWaiter struct{ woken bool }

// NewCond mirrors sync.NewCond.
func NewCond(l Locker) *Cond { return &Cond{L: l, real: sync.NewCond(l)} }

func (c *Cond) Wait() {
	if sched.E == nil {
		c.real.Wait()
		return
	}
	w := &condWaiter{}
	c.waiters = append(c.waiters, w)
	c.L.Unlock()
	sched.Wait("cond-wait", c, func() bool { return w.woken })
	c.L.Lock()
}

func (c *Cond) Signal() {
	if sched.E == nil {
		c.real.Signal()
		return
	}
	sched.Op("cond-signal", c)
	if len(c.waiters) > 0 {
		c.waiters[0].woken = true
		c.waiters = c.waiters[1:]
	}
	sched.Post("cond-signal", c)
}

func (c *Cond) Broadcast() {
	if sched.E == nil {
		c.real.Broadcast()
		return
	}
	sched.Op("cond-broadcast", c)
	for _, w := range c.waiters {
		w.woken = true
	}
	c.waiters = nil
	sched.Post("cond-broadcast", c)
}

// OnceFunc mirrors sync.OnceFunc.
func OnceFunc(f func()) func() {
	var o Once
	return func() { o.Do(f) }
}
