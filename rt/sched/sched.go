//go:build go1.21

// Package sched is a controlled, cooperative scheduler for real goroutines.
//
// Exactly one managed thread runs at any time; every visible operation
// (lock, channel op, atomic, net I/O, timer wait ...) first calls a *point*
// where the explorer decides which enabled thread continues.  All
// nondeterminism (thread choice, select choice, environment answers, harness
// inputs) is a numbered choice, so an execution is fully described by its
// list of picks and can be replayed exactly.
//
// The package is injected into the repository's module through a build
// overlay as github.com/samaritan-proxy/samaritan/verifrt/sched; nothing in it
// depends on the repository.
package sched

import (
	"fmt"
	"os"
	"reflect"
	"runtime"
	"runtime/debug"
	"sort"
	"strings"
)

// Class of a choice.
type Class uint8

const (
	ClsSched  Class = iota // which enabled thread runs while the running one could continue (non-default = preemption)
	ClsSwitch              // which enabled thread runs after the running one blocked or exited (non-default = delay)
	ClsSelect              // which ready select case
	ClsEnv                 // environment answer (fault, short read, rand, map order)
	ClsInput               // harness input alphabet (always fully enumerated)
)

func (c Class) String() string {
	switch c {
	case ClsSched:
		return "sched"
	case ClsSwitch:
		return "switch"
	case ClsSelect:
		return "select"
	case ClsEnv:
		return "env"
	case ClsInput:
		return "input"
	}
	return "?"
}

// Choice is one recorded decision.
type Choice struct {
	Cls   Class
	N     int    // number of alternatives
	Pick  int    // alternative taken
	Costs bool   // a non-zero pick consumes one unit of the class budget
	Label string // for traces
}

// Failure is an oracle violation or crash observed in one execution.
type Failure struct {
	Sig    string // stable signature (oracle + witness)
	Detail string // free text
}

type thread struct {
	id     int
	name   string
	wake   chan struct{}
	gone   chan struct{}
	ready  func() bool
	kind   string
	obj    interface{}
	exited bool
	idle   bool
	server bool
	tag    string
	// rendezvous on unbuffered channels (see "unbuffered channels" below)
	seq     int       // step at which the thread reached its pending operation (FIFO among waiters)
	handoff bool      // the thread's send on an unbuffered channel was matched: it performs the real send outside the baton
	forced  uintptr   // a sender handed over to this (receiving) thread on that channel
	selRecv []uintptr // unbuffered channels with a receive arm in the pending select
}

// Timer is a virtual timer registered with the scheduler.
type Timer struct {
	when    int64
	seq     int
	fire    func()
	stopped bool
	fired   bool
}

// Step is one entry of a rendered trace.
type Step struct {
	Thread int
	Name   string
	Kind   string
	Obj    string
}

// Exec is one execution.
type Exec struct {
	prefix   []int
	Choices  []Choice
	threads  []*thread
	cur      *thread
	steps    int
	maxSteps int
	aborting bool
	ended    bool
	finished chan struct{}
	EndWhy   string
	// DeadlockMain / DeadlockInfo describe the blocked threads when the execution ended in a deadlock.
	DeadlockMain, DeadlockInfo string
	Failures                   []Failure
	Outcome                    string

	now         int64
	timers      []*Timer
	timerSeq    int
	timerBudget int

	resets   []func()
	held     map[interface{}]func()
	objIDs   map[interface{}]int
	closed   map[uintptr]interface{}
	tracing  bool
	post     bool
	quiet    bool
	accesses map[string]int
	Trace    []Step
	Diverge  string
	// Unsupported is set when the code under test used a construct the runtime does not model.
	Unsupported string

	// free-form per-execution storage for shims (vnet registry ...)
	Data map[string]interface{}
}

// Steps returns the number of scheduler steps of the execution.
func (e *Exec) Steps() int { return e.steps }

// E is the current execution; nil means free mode (shims pass through).
var E *Exec

// Epoch is the virtual wall clock at the start of every execution (ns).
const Epoch int64 = 1600000000 * 1000000000

// Options for a single execution.
type Options struct {
	MaxSteps    int
	TimerBudget int // timers fired automatically at quiescence
	Trace       bool
	// AllowDeadlock: do not record a failure when no thread can run before the main thread returned.
	AllowDeadlock bool
	// PostPoints adds a scheduling point right after every releasing operation (unlock, channel send and
	// close, WaitGroup.Done, atomic store/swap/CAS/add): a thread can then be preempted between publishing
	// something and the plain writes that follow, which points in front of operations alone cannot do.
	PostPoints bool
}

// DebugLabels makes scheduling choices carry the list of enabled threads.
var DebugLabels = os.Getenv("VERIF_DEBUG_DIVERGE") != ""

var nextStart []func()

// OnNextExecStart registers fn to run right before the next controlled execution starts.
func OnNextExecStart(fn func()) { nextStart = append(nextStart, fn) }

// RunOnce executes body as managed thread 0 following prefix, then default picks.
func RunOnce(prefix []int, o Options, body func()) *Exec {
	if E != nil {
		panic("sched: nested execution")
	}
	for _, fn := range nextStart {
		fn()
	}
	nextStart = nil
	if o.MaxSteps == 0 {
		o.MaxSteps = 50000
	}
	e := &Exec{
		prefix:      prefix,
		maxSteps:    o.MaxSteps,
		finished:    make(chan struct{}),
		now:         Epoch,
		timerBudget: o.TimerBudget,
		objIDs:      make(map[interface{}]int),
		closed:      make(map[uintptr]interface{}),
		tracing:     o.Trace,
		post:        o.PostPoints,
		accesses:    map[string]int{},
		Data:        make(map[string]interface{}),
	}
	E = e
	t0 := e.newThread("main")
	e.cur = t0
	go t0.run(e, body)
	t0.wake <- struct{}{}
	<-e.finished

	// tear down: wake parked threads one at a time in abort mode
	e.aborting = true
	for i := 0; i < len(e.threads); i++ { // threads may not grow while aborting
		t := e.threads[i]
		select {
		case <-t.gone:
			continue
		default:
		}
		select {
		case t.wake <- struct{}{}:
		default:
		}
		<-t.gone
	}
	for i := len(e.resets) - 1; i >= 0; i-- {
		e.resets[i]()
	}
	E = nil
	if e.EndWhy == "deadlock" && len(e.Failures) == 0 && !o.AllowDeadlock {
		e.Failures = append(e.Failures, Failure{Sig: "deadlock / main thread blocked in " + e.DeadlockMain, Detail: "no thread can run: " + e.DeadlockInfo})
	}
	return e
}

func (e *Exec) newThread(name string) *thread {
	t := &thread{id: len(e.threads), name: name, wake: make(chan struct{}, 1), gone: make(chan struct{})}
	if name == "" {
		t.name = fmt.Sprintf("t%d", t.id)
	}
	e.threads = append(e.threads, t)
	return t
}

func (t *thread) run(e *Exec, fn func()) {
	defer close(t.gone)
	<-t.wake
	if e.aborting {
		return
	}
	defer func() {
		r := recover()
		if e.aborting {
			return
		}
		if r != nil {
			stack := string(debug.Stack())
			e.Failures = append(e.Failures, Failure{
				Sig:    "panic: " + panicSig(r, stack),
				Detail: fmt.Sprintf("thread %s panicked: %v\n%s", t.name, r, trimStack(stack)),
			})
			e.end("panic")
			return
		}
		e.threadExit(t)
	}()
	fn()
}

func (e *Exec) threadExit(t *thread) {
	t.exited = true
	if e.ended {
		return
	}
	if t.id == 0 {
		e.end("main-returned")
		return
	}
	e.traceStep(t, "exit", nil)
	next := e.pick(nil)
	if next == nil {
		e.end("deadlock")
		return
	}
	e.cur = next
	next.wake <- struct{}{}
}

func (e *Exec) end(why string) {
	if e.ended {
		return
	}
	e.ended = true
	e.EndWhy = why
	if why == "deadlock" {
		var who []string
		for _, t := range e.threads {
			if t.exited {
				continue
			}
			if t.id == 0 {
				e.DeadlockMain = t.kind
			}
			if !t.server {
				who = append(who, fmt.Sprintf("%s blocked in %s(%s)", t.name, t.kind, e.objName(t.obj)))
			}
		}
		e.DeadlockInfo = strings.Join(who, "; ")
	}
	close(e.finished)
}

func (t *thread) park(e *Exec) {
	<-t.wake
	if e.aborting {
		runtime.Goexit()
	}
}

// point is the heart: publish the pending operation and let the explorer decide.
func point(kind string, obj interface{}, ready func() bool) {
	e := E
	if e == nil {
		if ready != nil && !ready() {
			panic("sched: operation " + kind + " would block outside a controlled execution")
		}
		return
	}
	if e.aborting {
		runtime.Goexit()
	}
	t := e.cur
	if e.ended {
		// execution already ended (e.g. by Fail); park until abort
		t.park(e)
	}
	t.kind, t.obj, t.ready = kind, obj, ready
	e.steps++
	t.seq = e.steps
	if e.steps > e.maxSteps {
		e.Failures = append(e.Failures, Failure{Sig: "steplimit", Detail: fmt.Sprintf("more than %d scheduler steps (livelock or horizon too small)", e.maxSteps)})
		e.end("steplimit")
		t.park(e)
	}
	next := e.pick(t)
	if next == nil {
		e.end("deadlock")
		t.park(e)
	}
	if next != t {
		e.cur = next
		next.wake <- struct{}{}
		t.park(e)
		if t.handoff {
			// woken by a receiver that matched this thread's send on an unbuffered channel: the thread is
			// not the current one; it performs the real send and parks again in PostSendT
			return
		}
	}
	t.ready = nil
	e.traceStep(t, kind, obj)
}

func (e *Exec) traceStep(t *thread, kind string, obj interface{}) {
	if !e.tracing {
		return
	}
	s := Step{Thread: t.id, Name: t.name, Kind: kind}
	if obj != nil {
		s.Obj = e.objName(obj)
	}
	e.Trace = append(e.Trace, s)
}

func (e *Exec) objName(obj interface{}) string {
	switch v := obj.(type) {
	case string:
		return v
	case fmt.Stringer:
		return v.String()
	}
	return fmt.Sprintf("%T#%d", obj, e.objID(obj))
}

func (t *thread) isReady() bool {
	if t.exited || t.idle {
		return false
	}
	return t.ready == nil || t.ready()
}

// pick chooses the next thread. cur (may be nil) is the thread giving up the baton.
func (e *Exec) pick(cur *thread) *thread {
	for {
		var en []*thread
		curEnabled := false
		if cur != nil && cur.isReady() {
			en = append(en, cur)
			curEnabled = true
		}
		for _, t := range e.threads {
			if t != cur && t.isReady() {
				en = append(en, t)
			}
		}
		switch len(en) {
		case 0:
			// quiescence
			for _, t := range e.threads {
				if t.idle && !t.exited {
					return t
				}
			}
			if e.timerBudget > 0 && e.fireNextTimer() {
				e.timerBudget--
				continue
			}
			return nil
		case 1:
			return en[0]
		}
		cls := ClsSwitch
		if curEnabled {
			cls = ClsSched
		}
		label := ""
		if DebugLabels {
			for _, t := range en {
				label += fmt.Sprintf("%s:%s(%s) ", t.name, t.kind, e.objName(t.obj))
			}
		}
		k := e.choose(cls, len(en), true, label)
		return en[k]
	}
}

func (e *Exec) choose(cls Class, n int, costs bool, label string) int {
	if e.quiet && (cls == ClsSched || cls == ClsSwitch || cls == ClsSelect) {
		return 0 // outside the scenario's window of interest: the default schedule, no alternatives
	}
	i := len(e.Choices)
	pick := 0
	if i < len(e.prefix) {
		pick = e.prefix[i]
		if pick >= n || pick < 0 {
			e.Diverge = fmt.Sprintf("choice %d (%s %s): prefix pick %d but only %d alternatives", i, cls, label, pick, n)
			e.Failures = append(e.Failures, Failure{Sig: "DIVERGED", Detail: e.Diverge})
			pick = 0
		}
	}
	e.Choices = append(e.Choices, Choice{Cls: cls, N: n, Pick: pick, Costs: costs, Label: label})
	return pick
}

// Choose is a non-scheduling choice point. Pick 0 is the default.
func Choose(cls Class, n int, label string) int {
	e := E
	if e == nil || n <= 1 || e.aborting {
		return 0
	}
	return e.choose(cls, n, cls != ClsInput, label)
}

// Go starts fn as a managed thread (free mode: a real goroutine).
func Go(fn func()) { GoNamed("", fn) }

// GoNamed is Go with a thread name for traces and Blocked().
func GoNamed(name string, fn func()) {
	e := E
	if e == nil {
		go fn()
		return
	}
	if e.aborting || e.ended {
		return
	}
	t := e.newThread(name)
	go t.run(e, fn)
}

// GoServer starts an environment thread that may legitimately stay blocked.
func GoServer(name string, fn func()) {
	e := E
	if e == nil {
		go fn()
		return
	}
	if e.aborting || e.ended {
		return
	}
	t := e.newThread(name)
	t.server = true
	go t.run(e, fn)
}

// Yield is a plain scheduling point.
func Yield() { point("yield", nil, nil) }

// Op is a scheduling point for an always-enabled operation on obj.
func Op(kind string, obj interface{}) { point(kind, obj, nil) }

// Wait is a scheduling point for an operation enabled only when ready() holds.
func Wait(kind string, obj interface{}, ready func() bool) { point(kind, obj, ready) }

// WaitQuiescent parks the caller until no other thread is enabled. Timers are
// not fired for it; use AdvanceTime / FireTimers explicitly.
func WaitQuiescent() {
	e := E
	if e == nil {
		return
	}
	if e.aborting {
		runtime.Goexit()
	}
	t := e.cur
	t.kind, t.obj, t.ready = "idle", nil, nil
	t.idle = true
	next := e.pick(t) // t is idle, so it is returned only when nothing else can run
	if next != nil && next != t {
		e.cur = next
		next.wake <- struct{}{}
		t.park(e)
	}
	t.idle = false
}

// Settle waits for quiescence and lets up to maxTimers pending virtual timers fire (each followed by
// another wait for quiescence): retry and back-off timers of the code under test get their turn before
// the harness evaluates its oracle.
func Settle(maxTimers int) {
	WaitQuiescent()
	for i := 0; i < maxTimers && PendingTimers() > 0; i++ {
		FireTimers(1)
		WaitQuiescent()
	}
}

// Fail records a violation and ends the execution.
func Fail(sig, detail string) {
	e := E
	if e == nil {
		panic("sched.Fail outside execution: " + sig + ": " + detail)
	}
	if e.aborting {
		return
	}
	e.Failures = append(e.Failures, Failure{Sig: sig, Detail: detail})
	e.end("fail")
	e.cur.park(e)
}

// Unsupported ends the execution because the code under test uses something the runtime does not model.
// The explorer reports it as a tooling ERROR (exit 2), never as a violation of a property.
func Unsupported(what string) {
	e := E
	if e == nil {
		panic("sched: unsupported: " + what)
	}
	if e.aborting {
		return
	}
	e.Unsupported = what
	e.end("unsupported")
	e.cur.park(e)
}

// Note records a violation without ending the execution.
func Note(sig, detail string) {
	e := E
	if e == nil || e.aborting {
		return
	}
	e.Failures = append(e.Failures, Failure{Sig: sig, Detail: detail})
}

// SetOutcome labels what this execution observed (for vacuity statistics).
func SetOutcome(s string) {
	if e := E; e != nil {
		e.Outcome = s
	}
}

// SetQuiet(true) makes the scheduler follow the default schedule without recording choice points (thread
// switches, select arms) until SetQuiet(false): a scenario uses it to spend its preemption/delay budget in the
// window it is about (after a long set-up, before a long epilogue) instead of everywhere. Input and environment
// choices are not affected. The narrowing is part of the scenario's stated bound.
func SetQuiet(on bool) {
	if e := E; e != nil {
		e.quiet = on
	}
}

// Active reports whether a controlled execution is running.
func Active() bool { return E != nil && !E.aborting }

// OnReset registers fn to run after the execution was torn down.
func OnReset(fn func()) {
	if e := E; e != nil {
		e.resets = append(e.resets, fn)
	}
}

// BlockedThread describes a thread that is parked on a not-ready operation.
type BlockedThread struct {
	ID     int
	Name   string
	Kind   string
	Obj    interface{}
	Server bool
	Tag    string
}

// Blocked lists threads (other than the caller) that have not exited.
func Blocked() []BlockedThread {
	e := E
	if e == nil {
		return nil
	}
	var out []BlockedThread
	for _, t := range e.threads {
		if t.exited || t == e.cur {
			continue
		}
		out = append(out, BlockedThread{ID: t.id, Name: t.name, Kind: t.kind, Obj: t.obj, Server: t.server, Tag: t.tag})
	}
	return out
}

// Alive reports whether a thread with the given name has not exited.
func Alive(name string) bool {
	e := E
	if e == nil {
		return false
	}
	for _, t := range e.threads {
		if t.name == name && !t.exited {
			return true
		}
	}
	return false
}

// LiveNonServer counts threads other than the caller and servers that have not exited.
func LiveNonServer() []BlockedThread {
	var out []BlockedThread
	for _, b := range Blocked() {
		if !b.Server {
			out = append(out, b)
		}
	}
	return out
}

// SetTag attaches a tag to the current thread (shown by Blocked).
func SetTag(s string) {
	if e := E; e != nil && e.cur != nil {
		e.cur.tag = s
	}
}

// MarkServer marks the current thread as an environment server.
func MarkServer() {
	if e := E; e != nil && e.cur != nil {
		e.cur.server = true
	}
}

// TrackHeld remembers that obj is held so that a tear-down in the middle of a
// critical section can release package-level locks for the next execution.
func TrackHeld(obj interface{}, undo func()) {
	e := E
	if e == nil {
		return
	}
	if e.held == nil {
		e.held = make(map[interface{}]func())
		e.resets = append(e.resets, func() {
			for _, u := range e.held {
				u()
			}
		})
	}
	e.held[obj] = undo
}

// UntrackHeld forgets obj.
func UntrackHeld(obj interface{}) {
	if e := E; e != nil && e.held != nil {
		delete(e.held, obj)
	}
}

// ---- object identities -------------------------------------------------

func (e *Exec) objID(obj interface{}) int {
	defer func() { recover() }() // unhashable keys
	if id, ok := e.objIDs[obj]; ok {
		return id
	}
	id := len(e.objIDs) + 1
	e.objIDs[obj] = id
	return id
}

// ObjID returns a schedule-independent small id for a comparable object.
func ObjID(obj interface{}) int {
	e := E
	if e == nil {
		return 0
	}
	return e.objID(obj)
}

// ---- virtual time --------------------------------------------------------

// Now returns the virtual clock in ns since the Unix epoch.
func Now() int64 {
	if e := E; e != nil {
		return e.now
	}
	return Epoch
}

// AddTimer registers a virtual timer firing d ns from now.
func AddTimer(d int64, fire func()) *Timer {
	e := E
	if e == nil {
		return nil
	}
	if d < 0 {
		d = 0
	}
	e.timerSeq++
	t := &Timer{when: e.now + d, seq: e.timerSeq, fire: fire}
	e.timers = append(e.timers, t)
	return t
}

// Reschedule re-arms a timer (ticker).
func (t *Timer) Reschedule(d int64) {
	e := E
	if e == nil || t == nil {
		return
	}
	e.timerSeq++
	t.when, t.seq, t.fired, t.stopped = e.now+d, e.timerSeq, false, false
	for _, x := range e.timers {
		if x == t {
			return
		}
	}
	e.timers = append(e.timers, t)
}

// Stop cancels the timer; reports whether it was still pending.
func (t *Timer) Stop() bool {
	if t == nil {
		return false
	}
	was := !t.fired && !t.stopped
	t.stopped = true
	if e := E; e != nil {
		for i, x := range e.timers {
			if x == t {
				e.timers = append(e.timers[:i], e.timers[i+1:]...)
				break
			}
		}
	}
	return was
}

func (e *Exec) earliest() *Timer {
	var best *Timer
	for _, t := range e.timers {
		if t.stopped || t.fired {
			continue
		}
		if best == nil || t.when < best.when || (t.when == best.when && t.seq < best.seq) {
			best = t
		}
	}
	return best
}

func (e *Exec) fireNextTimer() bool {
	t := e.earliest()
	if t == nil {
		return false
	}
	e.fireTimer(t)
	return true
}

func (e *Exec) fireTimer(t *Timer) {
	for i, x := range e.timers {
		if x == t {
			e.timers = append(e.timers[:i], e.timers[i+1:]...)
			break
		}
	}
	if t.when > e.now {
		e.now = t.when
	}
	t.fired = true
	if e.tracing {
		e.Trace = append(e.Trace, Step{Thread: -1, Name: "clock", Kind: "timer-fire"})
	}
	t.fire()
}

// PendingTimers reports the number of armed timers.
func PendingTimers() int {
	e := E
	if e == nil {
		return 0
	}
	n := 0
	for _, t := range e.timers {
		if !t.stopped && !t.fired {
			n++
		}
	}
	return n
}

// FireTimers fires up to n pending timers in deadline order, advancing the clock.
func FireTimers(n int) int {
	e := E
	if e == nil {
		return 0
	}
	k := 0
	for k < n && e.fireNextTimer() {
		k++
	}
	return k
}

// AdvanceTime moves the clock forward by d ns, firing the timers that expire.
func AdvanceTime(d int64) {
	e := E
	if e == nil {
		return
	}
	target := e.now + d
	for {
		t := e.earliest()
		if t == nil || t.when > target {
			break
		}
		e.fireTimer(t)
	}
	e.now = target
}

// ---- channels --------------------------------------------------------------

func chanPtr(ch interface{}) uintptr { return reflect.ValueOf(ch).Pointer() }

func isClosedKnown(p uintptr) bool {
	if e := E; e != nil {
		_, ok := e.closed[p]
		return ok
	}
	return false
}

func markClosed(p uintptr, ch interface{}) {
	if e := E; e != nil {
		e.closed[p] = ch
	}
}

func recvReady[T any](ch <-chan T) bool {
	if ch == nil {
		return false
	}
	if len(ch) > 0 {
		return true
	}
	p := chanPtr(ch)
	if isClosedKnown(p) {
		return true
	}
	if cap(ch) == 0 && E != nil && E.parkedOn("send", p) != nil {
		return true
	}
	// probe: with no value buffered a non-blocking receive can only succeed if
	// the channel was closed (possibly by code we do not instrument).
	select {
	case _, ok := <-ch:
		if ok {
			panic("sched: probe received a value from an empty channel (unmanaged sender?)")
		}
		markClosed(p, ch)
		return true
	default:
		return false
	}
}

func sendReady[T any](ch chan<- T) bool {
	if ch == nil {
		return false
	}
	if isClosedKnown(chanPtr(ch)) {
		return true // the real send will panic, as in Go
	}
	if cap(ch) == 0 {
		return E != nil && E.parkedOn("recv", chanPtr(ch)) != nil // rendezvous: a receiver must be waiting
	}
	return len(ch) < cap(ch)
}

// ---- unbuffered channels -------------------------------------------------------
//
// A send on an unbuffered channel is enabled while some thread is parked in a receive (plain or select arm) on
// that channel, and a receive while some thread is parked in a send. Whichever of the two is scheduled first
// matches the longest-waiting partner; the real operations then meet on the real channel: the sender performs
// its real send outside the baton (it touches nothing else) and parks again right after it (PostSendT), the
// receiver is or becomes the current thread and performs its real receive at once. Send arms of a select on an
// unbuffered channel are not modelled (Unsupported).

// parkedOn returns the longest-waiting thread parked in a send ("send") or receive ("recv") on channel p.
func (e *Exec) parkedOn(kind string, p uintptr) *thread {
	var best *thread
	for _, t := range e.threads {
		if t.exited || t.idle || t.ready == nil || t.handoff {
			continue
		}
		ok := false
		switch {
		case t.kind == kind && t.obj != nil:
			ok = chanPtr(t.obj) == p
		case kind == "recv" && t.kind == "select":
			for _, q := range t.selRecv {
				ok = ok || q == p
			}
		}
		if ok && (best == nil || t.seq < best.seq) {
			best = t
		}
	}
	return best
}

// rendezvousRecv runs in the receiving thread t (current) right before its real receive on unbuffered channel p.
func (e *Exec) rendezvousRecv(t *thread, p uintptr) {
	if t.forced == p {
		t.forced = 0 // a sender handed over to us; its real send is under way
		return
	}
	if isClosedKnown(p) {
		return
	}
	if s := e.parkedOn("send", p); s != nil {
		s.handoff, s.kind, s.ready = true, "after-send", nil
		s.wake <- struct{}{}
	}
}

// SendTok is returned by SendPt when the send is a rendezvous on an unbuffered channel.
type SendTok = thread

// RecvV is `<-ch`.
func RecvV[T any](ch <-chan T) T {
	if E == nil {
		return <-ch
	}
	t := E.cur
	point("recv", ch, func() bool { return recvReady(ch) })
	if ch == nil {
		panic("sched: receive from nil channel scheduled")
	}
	if cap(ch) == 0 {
		E.rendezvousRecv(t, chanPtr(ch))
	}
	return <-ch
}

// Recv2 is `v, ok := <-ch`.
func Recv2[T any](ch <-chan T) (T, bool) {
	if E == nil {
		v, ok := <-ch
		return v, ok
	}
	t := E.cur
	point("recv", ch, func() bool { return recvReady(ch) })
	if ch != nil && cap(ch) == 0 {
		E.rendezvousRecv(t, chanPtr(ch))
	}
	v, ok := <-ch
	return v, ok
}

// SendV is `ch <- v`.
func SendV[T any](ch chan<- T, v T) {
	if E == nil {
		ch <- v
		return
	}
	tok := SendPt(ch)
	ch <- v
	PostSendT(tok)
}

// Post is the optional scheduling point right after a releasing operation (see Options.PostPoints).
func Post(kind string, obj interface{}) {
	if e := E; e != nil && e.post && !e.aborting && !e.ended {
		point("after-"+kind, obj, nil)
	}
}

// PostSend follows a rewritten `ch <- v` statement.
func PostSend() { Post("send", nil) }

// PostSendT follows a rewritten `ch <- v` statement; tok is what SendPt returned in front of it.
func PostSendT(tok *SendTok) {
	if tok != nil {
		// rendezvous on an unbuffered channel: the real send ran outside the baton; wait to be scheduled again
		tok.handoff = false
		tok.park(E)
	}
	Post("send", nil)
}

// SendPt is the scheduling point in front of a real `ch <- v`.
func SendPt[T any](ch chan<- T) *SendTok {
	e := E
	if e == nil {
		return nil
	}
	t := e.cur
	point("send", ch, func() bool { return sendReady(ch) })
	if ch == nil || cap(ch) != 0 || isClosedKnown(chanPtr(ch)) {
		return nil
	}
	if t.handoff {
		return t // a receiver matched us and goes on as the current thread
	}
	p := chanPtr(ch)
	r := e.parkedOn("recv", p)
	if r == nil {
		panic("sched: send on an unbuffered channel scheduled without a waiting receiver")
	}
	// hand the baton to the receiver; our real send follows outside the baton
	r.forced = p
	t.handoff, t.kind, t.ready = true, "after-send", nil
	e.cur = r
	r.wake <- struct{}{}
	return t
}

// CloseCh is `close(ch)`.
func CloseCh[T any](ch chan<- T) {
	if E == nil {
		close(ch)
		return
	}
	point("close", ch, nil)
	close(ch) // panics for real on double close
	markClosed(chanPtr(ch), ch)
	Post("close", nil)
}

// LenCh is `len(ch)` (a visible read of the channel).
func LenCh[T any](ch chan T) int {
	if E != nil {
		point("len", ch, nil)
	}
	return len(ch)
}

// Case is one arm of a select.
type Case struct {
	ch    interface{}
	ready func() bool
	unbuf uintptr // receive arm on an unbuffered channel: the channel
}

// R builds a receive case.
func R[T any](ch <-chan T) Case {
	c := Case{ch: ch, ready: func() bool { return recvReady(ch) }}
	if ch != nil && cap(ch) == 0 {
		c.unbuf = chanPtr(ch)
	}
	return c
}

// S builds a send case.
func S[T any](ch chan<- T) Case {
	return Case{ch: ch, ready: func() bool {
		if ch != nil && cap(ch) == 0 && !isClosedKnown(chanPtr(ch)) {
			Unsupported("a select arm that sends on an unbuffered channel is not modelled by the scheduler")
		}
		return sendReady(ch)
	}}
}

// Select decides which arm of a select runs: the index of a ready case, or -1
// for default. The caller then performs the real (now non-blocking) operation.
func Select(hasDefault bool, cases ...Case) int {
	if E == nil {
		for i, c := range cases {
			if c.ready() {
				return i
			}
		}
		if hasDefault {
			return -1
		}
		panic("sched: select would block outside a controlled execution")
	}
	var ready []int
	scan := func() bool {
		ready = ready[:0]
		for i, c := range cases {
			if c.ready() {
				ready = append(ready, i)
			}
		}
		return len(ready) > 0 || hasDefault
	}
	t := E.cur
	t.selRecv = t.selRecv[:0]
	for _, c := range cases {
		if c.unbuf != 0 {
			t.selRecv = append(t.selRecv, c.unbuf)
		}
	}
	point("select", nil, scan)
	t.selRecv = t.selRecv[:0]
	if t.forced != 0 {
		// a sender on an unbuffered channel handed over to this arm
		for i, c := range cases {
			if c.unbuf == t.forced {
				t.forced = 0
				return i
			}
		}
		panic("sched: select was handed a send on a channel it does not receive from")
	}
	scan()
	pick := -1
	switch len(ready) {
	case 0:
	case 1:
		pick = ready[0]
	default:
		pick = ready[Choose(ClsSelect, len(ready), "select")]
	}
	if pick >= 0 && cases[pick].unbuf != 0 {
		E.rendezvousRecv(t, cases[pick].unbuf)
	}
	return pick
}

// ---- maps -------------------------------------------------------------------

// MapKeys returns the keys of m in a deterministic order (Go randomises map
// iteration; an un-owned source of nondeterminism would break replay).
// With more than one key the reversed order is an environment deviation when
// the scenario enabled map-order deviations.
// MapZero returns the zero value of m's element type (it declares the value variable of a rewritten range statement
// once for the whole loop, without naming the type).
func MapZero[K comparable, V any](m map[K]V) V {
	var z V
	return z
}

func MapKeys[K comparable, V any](m map[K]V) []K {
	keys := make([]K, 0, len(m))
	for k := range m {
		keys = append(keys, k)
	}
	sortKeys(keys)
	if E == nil && FreeMapReverse {
		for i, j := 0, len(keys)-1; i < j; i, j = i+1, j-1 {
			keys[i], keys[j] = keys[j], keys[i]
		}
	}
	if len(keys) > 1 && E != nil && mapOrderDeviations() {
		switch Choose(ClsEnv, 2, "map-order") {
		case 1:
			for i, j := 0, len(keys)-1; i < j; i, j = i+1, j-1 {
				keys[i], keys[j] = keys[j], keys[i]
			}
		}
	}
	return keys
}

// FreeMapReverse makes range-over-map iterate in reversed sorted order outside a controlled execution
// (sequential harnesses use it to cover both orders).
var FreeMapReverse bool

func mapOrderDeviations() bool {
	e := E
	if e == nil {
		return false
	}
	v, _ := e.Data["mapOrderDeviations"].(bool)
	return v
}

// EnableMapOrderDeviations lets range-over-map iterate reversed as an ENV deviation.
func EnableMapOrderDeviations() {
	if e := E; e != nil {
		e.Data["mapOrderDeviations"] = true
	}
}

func sortKeys[K comparable](keys []K) {
	if len(keys) < 2 {
		return
	}
	var k0 interface{} = keys[0]
	switch k0.(type) {
	case string:
		sort.Slice(keys, func(i, j int) bool {
			return interface{}(keys[i]).(string) < interface{}(keys[j]).(string)
		})
		return
	case int:
		sort.Slice(keys, func(i, j int) bool { return interface{}(keys[i]).(int) < interface{}(keys[j]).(int) })
		return
	}
	rv := reflect.ValueOf(k0)
	switch rv.Kind() {
	case reflect.String:
		sort.Slice(keys, func(i, j int) bool {
			return reflect.ValueOf(keys[i]).String() < reflect.ValueOf(keys[j]).String()
		})
	case reflect.Int, reflect.Int8, reflect.Int16, reflect.Int32, reflect.Int64:
		sort.Slice(keys, func(i, j int) bool { return reflect.ValueOf(keys[i]).Int() < reflect.ValueOf(keys[j]).Int() })
	case reflect.Uint, reflect.Uint8, reflect.Uint16, reflect.Uint32, reflect.Uint64:
		sort.Slice(keys, func(i, j int) bool { return reflect.ValueOf(keys[i]).Uint() < reflect.ValueOf(keys[j]).Uint() })
	default:
		// pointers, interfaces, structs: order of first sight in this execution
		e := E
		if e == nil {
			sort.Slice(keys, func(i, j int) bool { return fmt.Sprint(keys[i]) < fmt.Sprint(keys[j]) })
			return
		}
		// keys never seen before get ids in a deterministic order only if there
		// is at most one of them; otherwise fall back to their printed form.
		unseen := 0
		for _, k := range keys {
			if _, ok := e.objIDs[k]; !ok {
				unseen++
			}
		}
		if unseen > 1 {
			sort.SliceStable(keys, func(i, j int) bool { return fmt.Sprintf("%T", keys[i]) < fmt.Sprintf("%T", keys[j]) })
		}
		sort.SliceStable(keys, func(i, j int) bool { return e.objID(keys[i]) < e.objID(keys[j]) })
	}
}

// Access is the scheduling point in front of a statement that reads or writes a field the code shares
// between threads without synchronisation (see rewrite.RacyFields).
func Access(name string) {
	if e := E; e != nil {
		if !e.aborting && !e.ended {
			e.accesses[name]++
		}
		if pre, _ := e.Data["yieldAt"].(string); pre != "" && strings.HasPrefix(name, pre) && !e.aborting && !e.ended {
			// the scenario asked for threads to be run last at these accesses: wait until no other thread can
			// run (threads waiting here themselves do not count), then go on
			self := e.cur
			point("access-yield", name, func() bool {
				for _, t := range e.threads {
					if t == self || t.exited || t.idle {
						continue
					}
					if t.kind == "access-yield" && t.ready != nil {
						if t.seq < self.seq {
							return false // among the threads waiting here: first come, first served
						}
						continue
					}
					if t.isReady() {
						return false
					}
				}
				return true
			})
			return
		}
		point("access", name, nil)
	}
}

// YieldAt makes every thread that arrives at an access point whose name starts with prefix wait there until no
// other thread can run (it is "run last"). A read-compute-write sequence over unsynchronised state is thereby
// stretched over everything the other threads do meanwhile - deterministically, without spending preemptions. If
// the sequence is protected by a lock the others simply block and the thread goes on. "" switches it off.
func YieldAt(prefix string) {
	if e := E; e != nil {
		e.Data["yieldAt"] = prefix
	}
}

// AccessCount reports how many times a thread has arrived at an access point of name in this execution (a
// harness can wait for the k-th arrival and act while that thread is parked in front of its statement).
func AccessCount(name string) int {
	if e := E; e != nil {
		return e.accesses[name]
	}
	return 0
}

// Touch assigns an identity to obj now (so later map iterations are ordered by creation).
func Touch(obj interface{}) {
	if e := E; e != nil {
		e.objID(obj)
	}
}

// ---- helpers ------------------------------------------------------------------

func panicSig(r interface{}, stack string) string {
	msg := fmt.Sprint(r)
	if len(msg) > 80 {
		msg = msg[:80]
	}
	// first repository frame below the panic
	fn := ""
	lines := strings.Split(stack, "\n")
	for _, l := range lines {
		if strings.HasPrefix(l, "github.com/samaritan-proxy/samaritan/") && !strings.Contains(l, "/verifrt/") && !strings.Contains(l, "verif") {
			fn = l
			if i := strings.LastIndex(fn, "("); i > 0 {
				fn = fn[:i]
			}
			fn = strings.TrimPrefix(fn, "github.com/samaritan-proxy/samaritan/")
			break
		}
	}
	return msg + " @ " + fn
}

func trimStack(s string) string {
	lines := strings.Split(s, "\n")
	var out []string
	for i := 0; i < len(lines) && len(out) < 40; i++ {
		l := lines[i]
		if strings.Contains(l, "runtime/debug") || strings.Contains(l, "runtime/panic") {
			continue
		}
		out = append(out, l)
	}
	return strings.Join(out, "\n")
}
