//go:build go1.21

package sched

import (
	"encoding/json"
	"fmt"
	"os"
	"sort"
	"strconv"
	"strings"
	"time"
)

// Bounds limit departures from the default execution; executions always run
// to completion.
type Bounds struct {
	P   int // preemptions: switching away from a thread that could continue
	F   int // delays: a non-default pick after the running thread blocked or exited (-1 = unbounded, as in CHESS)
	Sel int // non-default select picks
	Env int // non-default environment answers
}

// Config for one exploration.
type Config struct {
	Name        string
	Bounds      Bounds
	MaxSteps    int
	TimerBudget int
	Shard       int // this worker's index
	NShards     int
	Deadline    time.Time
	MaxExecs    int64
	Iterative   bool // explore bound (0,0,0) first, then grow towards Bounds
	KeepGoing   bool // do not stop at the first failure signature
	// AllowDeadlock: an execution in which no thread can run while the main thread has not returned is not
	// reported (litmus tests that expect it); by default it is a violation.
	AllowDeadlock bool
	// PostPoints: see Options.PostPoints. Scenarios run through the registry get them unless NoPostPoints is set.
	PostPoints   bool
	NoPostPoints bool
}

// Violation is a failure with the choice list that reproduces it.
type Violation struct {
	Scenario string          `json:"scenario"`
	Sig      string          `json:"sig"`
	Detail   string          `json:"detail"`
	Picks    []int           `json:"picks"`
	Input    json.RawMessage `json:"input,omitempty"`
	Trace    []string        `json:"trace,omitempty"`
	Replayed bool            `json:"replayed_identically"`
}

// Report is what one worker measured.
type Report struct {
	Scenario      string           `json:"scenario"`
	Execs         int64            `json:"execs"`
	Steps         int64            `json:"steps"`
	ChoicePts     int64            `json:"choice_points"`
	ByClass       map[string]int64 `json:"choice_points_by_class"`
	MaxChoices    int              `json:"max_choices_in_one_exec"`
	Outcomes      map[string]int64 `json:"outcomes"`
	EndReasons    map[string]int64 `json:"end_reasons"`
	Complete      bool             `json:"complete"`
	BoundDone     Bounds           `json:"bound_completed"`
	BoundAsked    Bounds           `json:"bound_requested"`
	Violations    []Violation      `json:"violations"`
	Samples       []Sample         `json:"samples"`
	StateHashes   int              `json:"distinct_trace_hashes"`
	States        int64            `json:"states,omitempty"`      // custom (H) checks: canonical states
	Transitions   int64            `json:"transitions,omitempty"` // custom (H) checks: operations applied
	Distinct      int64            `json:"distinct_nontrivial,omitempty"`
	Rule          string           `json:"rule,omitempty"`
	Notes         []string         `json:"notes,omitempty"`
	CustomSamples []interface{}    `json:"custom_samples,omitempty"`
	WallS         float64          `json:"wall_s"`
	Errors        []string         `json:"errors,omitempty"`
}

// Sample is one explored execution written out.
type Sample struct {
	Picks   []int  `json:"picks"`
	Outcome string `json:"outcome"`
	Steps   int    `json:"steps"`
}

type item struct {
	picks []int
	gen   int // number of non-default picks
}

// Explore enumerates every execution of body within cfg.Bounds.
func Explore(cfg Config, body func()) *Report {
	start := time.Now()
	rep := &Report{
		Scenario:   cfg.Name,
		ByClass:    map[string]int64{},
		Outcomes:   map[string]int64{},
		EndReasons: map[string]int64{},
		BoundAsked: cfg.Bounds,
	}
	if cfg.NShards <= 0 {
		cfg.NShards = 1
	}
	hashes := map[uint64]struct{}{}
	seenSig := map[string]bool{}

	rounds := []Bounds{cfg.Bounds}
	if cfg.Iterative {
		rounds = nil
		for k := 0; ; k++ {
			b := Bounds{P: minInt(cfg.Bounds.P, k), F: minInt(cfg.Bounds.F, k), Sel: minInt(cfg.Bounds.Sel, k), Env: minInt(cfg.Bounds.Env, k)}
			if cfg.Bounds.F < 0 {
				b.F = -1
			}
			rounds = append(rounds, b)
			if b == cfg.Bounds {
				break
			}
		}
	}

	opts := Options{MaxSteps: cfg.MaxSteps, TimerBudget: cfg.TimerBudget, AllowDeadlock: cfg.AllowDeadlock, PostPoints: cfg.PostPoints}
	complete := true
	stop := false
	for ri, bound := range rounds {
		last := ri == len(rounds)-1
		roundComplete := true
		stack := []item{{}}
		var gen2 int64
		for len(stack) > 0 && !stop {
			it := stack[len(stack)-1]
			stack = stack[:len(stack)-1]
			if !cfg.Deadline.IsZero() && time.Now().After(cfg.Deadline) {
				roundComplete = false
				break
			}
			if cfg.MaxExecs > 0 && rep.Execs >= cfg.MaxExecs {
				roundComplete = false
				break
			}
			mine := true
			if it.gen < 2 {
				mine = cfg.Shard == 0
			}
			Progress(nil)
			e := RunOnce(it.picks, opts, body)
			if DebugLabels && e.Diverge == "" {
				e2 := RunOnce(picksOf(e.Choices), opts, body)
				for i := range e.Choices {
					if i >= len(e2.Choices) || e.Choices[i].N != e2.Choices[i].N || e.Choices[i].Label != e2.Choices[i].Label {
						f, _ := os.Create(fmt.Sprintf("%s/mismatch-%d.txt", os.Getenv("VERIF_DEBUG_DIVERGE"), os.Getpid()))
						fmt.Fprintf(f, "picks=%v\nchoice %d\nfirst : %+v\nsecond: ", picksOf(e.Choices), i, e.Choices[i])
						if i < len(e2.Choices) {
							fmt.Fprintf(f, "%+v\n", e2.Choices[i])
						}
						f.Close()
						rep.Errors = append(rep.Errors, "same picks, different execution")
						stop = true
						break
					}
				}
			}
			if e.Unsupported != "" {
				rep.Errors = append(rep.Errors, "the code under test uses a construct the controlled scheduler does not model: "+e.Unsupported)
				stop = true
				break
			}
			if e.Diverge != "" {
				if os.Getenv("VERIF_DEBUG_DIVERGE") != "" {
					o2 := opts
					o2.Trace = true
					e2 := RunOnce(it.picks[:len(it.picks)-1], o2, body)
					f, _ := os.Create(fmt.Sprintf("%s/diverge-%d.txt", os.Getenv("VERIF_DEBUG_DIVERGE"), os.Getpid()))
					fmt.Fprintf(f, "DIVERGE-TRACE picks=%v\n", it.picks)
					for _, l := range RenderTrace(e2) {
						fmt.Fprintln(f, "  "+l)
					}
					f.Close()
				}
				rep.Errors = append(rep.Errors, "replay of a prefix diverged: "+e.Diverge+" picks="+fmt.Sprint(it.picks))
				stop = true
				break
			}
			// only count in the last round what earlier rounds did not cover: an
			// execution belongs to the first round whose bound admits it.
			countIt := mine && (ri == 0 || !within(e.Choices, len(it.picks), rounds[ri-1]))
			if countIt {
				rep.Execs++
				rep.Steps += int64(e.steps)
				rep.ChoicePts += int64(len(e.Choices))
				for _, c := range e.Choices {
					rep.ByClass[c.Cls.String()]++
				}
				if len(e.Choices) > rep.MaxChoices {
					rep.MaxChoices = len(e.Choices)
				}
				rep.Outcomes[e.Outcome]++
				rep.EndReasons[e.EndWhy]++
				hashes[hashPicks(e.Choices)] = struct{}{}
				if len(rep.Samples) < 3 || (len(rep.Samples) < 6 && it.gen >= 2) {
					rep.Samples = append(rep.Samples, Sample{Picks: picksOf(e.Choices), Outcome: e.Outcome, Steps: e.steps})
				}
			}
			if mine && len(e.Failures) > 0 {
				for _, f := range e.Failures {
					if seenSig[f.Sig] {
						continue
					}
					seenSig[f.Sig] = true
					v := Violation{Scenario: cfg.Name, Sig: f.Sig, Detail: f.Detail, Picks: picksOf(e.Choices)}
					confirm(&v, opts, body)
					rep.Violations = append(rep.Violations, v)
				}
				if !cfg.KeepGoing {
					stop = true
					break
				}
			}
			// children: deviate at every later choice point
			usedP, usedF, usedS, usedE := cost(e.Choices[:len(it.picks)])
			for i := len(e.Choices) - 1; i >= len(it.picks); i-- {
				c := e.Choices[i]
				if c.N <= 1 {
					continue
				}
				if c.Costs {
					switch c.Cls {
					case ClsSched:
						if usedP+1 > bound.P {
							continue
						}
					case ClsSwitch:
						if bound.F >= 0 && usedF+1 > bound.F {
							continue
						}
					case ClsSelect:
						if usedS+1 > bound.Sel {
							continue
						}
					case ClsEnv:
						if usedE+1 > bound.Env {
							continue
						}
					}
				}
				for alt := c.N - 1; alt >= 1; alt-- {
					child := make([]int, i+1)
					for j := 0; j < i; j++ {
						child[j] = e.Choices[j].Pick
					}
					child[i] = alt
					g := it.gen + 1
					if g == 2 {
						gen2++
						if int(gen2%int64(cfg.NShards)) != cfg.Shard {
							continue
						}
					}
					stack = append(stack, item{picks: child, gen: g})
				}
			}
		}
		if stop {
			complete = false
			break
		}
		if roundComplete {
			rep.BoundDone = bound
		} else {
			complete = false
			break
		}
		_ = last
	}
	rep.Complete = complete && !stop
	rep.StateHashes = len(hashes)
	rep.WallS = time.Since(start).Seconds()
	return rep
}

func minInt(a, b int) int {
	if a < b {
		return a
	}
	return b
}

func within(cs []Choice, from int, b Bounds) bool {
	p, f, s, e := cost(cs)
	return p <= b.P && (b.F < 0 || f <= b.F) && s <= b.Sel && e <= b.Env
}

func cost(cs []Choice) (p, f, s, e int) {
	for _, c := range cs {
		if c.Pick == 0 || !c.Costs {
			continue
		}
		switch c.Cls {
		case ClsSched:
			p++
		case ClsSwitch:
			f++
		case ClsSelect:
			s++
		case ClsEnv:
			e++
		}
	}
	return
}

func picksOf(cs []Choice) []int {
	// trailing default picks are implied
	n := len(cs)
	for n > 0 && cs[n-1].Pick == 0 {
		n--
	}
	out := make([]int, n)
	for i := 0; i < n; i++ {
		out[i] = cs[i].Pick
	}
	return out
}

func hashPicks(cs []Choice) uint64 {
	h := uint64(1469598103934665603)
	for _, c := range cs {
		h ^= uint64(c.Pick) + uint64(c.N)<<16 + uint64(c.Cls)<<32
		h *= 1099511628211
	}
	return h
}

// confirm replays a violation twice with tracing and checks that the step
// sequence and the failure are identical.
func confirm(v *Violation, opts Options, body func()) {
	opts.Trace = true
	a := RunOnce(v.Picks, opts, body)
	b := RunOnce(v.Picks, opts, body)
	same := len(a.Trace) == len(b.Trace) && hasSig(a, v.Sig) && hasSig(b, v.Sig)
	if same {
		for i := range a.Trace {
			if a.Trace[i].Thread != b.Trace[i].Thread || a.Trace[i].Kind != b.Trace[i].Kind {
				same = false
				break
			}
		}
	}
	v.Replayed = same
	v.Trace = RenderTrace(a)
}

func hasSig(e *Exec, sig string) bool {
	for _, f := range e.Failures {
		if f.Sig == sig {
			return true
		}
	}
	return false
}

// RenderTrace renders the step list of a traced execution.
func RenderTrace(e *Exec) []string {
	out := make([]string, 0, len(e.Trace))
	for _, s := range e.Trace {
		if s.Obj != "" {
			out = append(out, fmt.Sprintf("%s: %s %s", s.Name, s.Kind, s.Obj))
		} else {
			out = append(out, fmt.Sprintf("%s: %s", s.Name, s.Kind))
		}
	}
	if len(out) > 400 {
		out = append(out[:200], append([]string{"..."}, out[len(out)-199:]...)...)
	}
	return out
}

// ---- worker protocol -------------------------------------------------------

// Env describes how the driver invoked this worker.
type Env struct {
	Scenario string
	Tier     string
	Shard    int
	NShards  int
	Deadline time.Time
	Out      string
	Replay   string
	Seed     int64
}

// ReadEnv parses the VERIF_* environment.
func ReadEnv() Env {
	e := Env{Scenario: os.Getenv("VERIF_SCENARIO"), Tier: os.Getenv("VERIF_TIER"), Out: os.Getenv("VERIF_OUT"), Replay: os.Getenv("VERIF_REPLAY")}
	if e.Tier == "" {
		e.Tier = "quick"
	}
	e.NShards = 1
	if s := os.Getenv("VERIF_SHARD"); s != "" {
		parts := strings.Split(s, "/")
		if len(parts) == 2 {
			e.Shard, _ = strconv.Atoi(parts[0])
			e.NShards, _ = strconv.Atoi(parts[1])
		}
	}
	if s := os.Getenv("VERIF_DEADLINE_S"); s != "" {
		if f, err := strconv.ParseFloat(s, 64); err == nil && f > 0 {
			e.Deadline = time.Now().Add(time.Duration(f * float64(time.Second)))
		}
	}
	if s := os.Getenv("VERIF_SEED"); s != "" {
		e.Seed, _ = strconv.ParseInt(s, 10, 64)
	}
	return e
}

// WorkerOutput is the JSON a worker writes.
type WorkerOutput struct {
	Reports []*Report              `json:"reports"`
	Extra   map[string]interface{} `json:"extra,omitempty"`
}

// WriteOutput writes the worker's result file.
func WriteOutput(path string, out *WorkerOutput) error {
	b, err := json.MarshalIndent(out, "", " ")
	if err != nil {
		return err
	}
	if path == "" {
		_, err = os.Stdout.Write(append(b, '\n'))
		return err
	}
	return os.WriteFile(path, b, 0o644)
}

// PastDeadline reports whether the wall-clock budget is used up.
func PastDeadline(d time.Time) bool { return !d.IsZero() && time.Now().After(d) }

// SortedKeys returns the sorted keys of a string-keyed map.
func SortedKeys[V any](m map[string]V) []string {
	ks := make([]string, 0, len(m))
	for k := range m {
		ks = append(ks, k)
	}
	sort.Strings(ks)
	return ks
}
