//go:build go1.21

package sched

import (
	"bytes"
	"encoding/json"
	"fmt"
	"os"
	"os/exec"
	"runtime"
	"sort"
	"strings"
	"sync"
	"sync/atomic"
	"syscall"
	"testing"
	"time"
)

// ---- watchdog: a hang or runaway allocation in the code under test must end
// as a reported, attributable violation instead of a killed worker.

var (
	progressTicks atomic.Int64
	progressLabel atomic.Value // func() interface{} or a value
	watchScenario atomic.Value
)

// Progress tells the watchdog that the worker is alive; label describes the
// case being run (it is only marshalled if the worker has to be abandoned).
func Progress(label interface{}) {
	progressTicks.Add(1)
	if label != nil {
		progressLabel.Store(&label)
	}
}

func startWatchdog(env Env) {
	stall := 90 * time.Second
	go func() {
		last := int64(-1)
		lastChange := time.Now()
		var ms runtime.MemStats
		for {
			time.Sleep(500 * time.Millisecond)
			cur := progressTicks.Load()
			if e := E; e != nil {
				cur += int64(e.steps)
			}
			if cur != last {
				last, lastChange = cur, time.Now()
			}
			runtime.ReadMemStats(&ms)
			why := ""
			if ms.Sys > 6<<30 {
				why = fmt.Sprintf("memory obtained from the OS grew to %d MiB", ms.Sys>>20)
			} else if time.Since(lastChange) > stall {
				why = fmt.Sprintf("no progress for %s (hang in un-instrumented code)", stall)
			}
			if why == "" {
				continue
			}
			if env.Replay != "" {
				fmt.Printf("FAILURE hang-or-memory-exhaustion\n%s\nREPLAY-REPRODUCED hang-or-memory-exhaustion\n", why)
				os.Exit(1)
			}
			scn, _ := watchScenario.Load().(string)
			var input json.RawMessage
			if p, ok := progressLabel.Load().(*interface{}); ok && p != nil {
				input, _ = json.Marshal(*p)
			}
			rep := &Report{Scenario: scn, Outcomes: map[string]int64{}, Complete: false,
				Violations: []Violation{{Scenario: scn, Sig: "hang-or-memory-exhaustion", Detail: why + "; last case: " + string(input), Input: input, Replayed: true}}}
			WriteOutput(env.Out, &WorkerOutput{Reports: []*Report{rep}})
			os.Exit(3)
		}
	}()
}

// Scenario is one registered check body.
type Scenario struct {
	Name string
	// Explore scenarios: Setup returns the exploration config for a tier and the body.
	Setup func(tier string) (Config, func())
	// Custom scenarios produce their own report (input/history enumeration).
	Custom func(env Env) *Report
	// ReplayCustom re-runs one recorded custom case; returns the failures seen.
	ReplayCustom func(input json.RawMessage) []Failure
	// Race is a free-running body (real goroutines, real primitives) executed repeatedly in a binary built
	// with the race detector: the assumption check that all inter-thread communication of the explored
	// code goes through instrumented operations.
	Race func()
	// Child runs one case inside an isolated child process (cases that may kill the process:
	// stack overflow, memory exhaustion); it returns "" or a failure signature.
	Child func(input json.RawMessage) string
}

// IsolatedResult is what a child process run produced.
type IsolatedResult struct {
	Sig      string // "" = fine
	Detail   string
	MaxRSSKB int64
}

var (
	raceMu       sync.Mutex
	raceFailures []Failure
)

// RaceFail records an oracle failure observed by a free-running (race pass) body.
func RaceFail(sig, detail string) {
	raceMu.Lock()
	raceFailures = append(raceFailures, Failure{Sig: sig, Detail: detail})
	raceMu.Unlock()
}

// RunIsolated executes scenario scn's Child function on input in a fresh process of the same test
// binary, with a wall-clock limit. A crash, fatal error or kill of the child is reported as a
// failure signature instead of taking the worker down.
func RunIsolated(scn string, input interface{}, limit time.Duration, memLimitMB int) IsolatedResult {
	b, _ := json.Marshal(input)
	cmd := exec.Command(os.Args[0], "-test.run", "^TestVerif$", "-test.count", "1")
	cmd.Env = append(os.Environ(), "VERIF_CHILD="+scn, "VERIF_CHILD_INPUT="+string(b), fmt.Sprintf("VERIF_CHILD_MEM_MB=%d", memLimitMB), "GOMEMLIMIT=off", "VERIF_OUT=", "VERIF_SCENARIO=", "VERIF_REPLAY=")
	var out bytes.Buffer
	cmd.Stdout, cmd.Stderr = &out, &out
	if err := cmd.Start(); err != nil {
		return IsolatedResult{Sig: "harness-child-start-failed", Detail: err.Error()}
	}
	done := make(chan error, 1)
	go func() { done <- cmd.Wait() }()
	var err error
	timedOut := false
	deadline := time.After(limit)
	tick := time.NewTicker(time.Second)
	defer tick.Stop()
wait:
	for {
		select {
		case err = <-done:
			break wait
		case <-tick.C:
			Progress(nil) // the worker is alive, it is the child that takes its time
		case <-deadline:
			cmd.Process.Kill()
			err = <-done
			timedOut = true
			break wait
		}
	}
	res := IsolatedResult{}
	if ru, ok := cmd.ProcessState.SysUsage().(*syscall.Rusage); ok && ru != nil {
		res.MaxRSSKB = ru.Maxrss
	}
	text := out.String()
	if i := strings.Index(text, "CHILD-RESULT:"); i >= 0 && err == nil {
		line := text[i+len("CHILD-RESULT:"):]
		if j := strings.Index(line, "\n"); j >= 0 {
			line = line[:j]
		}
		res.Sig = strings.TrimSpace(line)
		return res
	}
	switch {
	case timedOut:
		res.Sig = "process-hung"
	case strings.Contains(text, "stack overflow") || strings.Contains(text, "stack exceeds"):
		res.Sig = "process-died: stack overflow"
	case strings.Contains(text, "CHILD-MEMORY-LIMIT") || strings.Contains(text, "out of memory") || strings.Contains(text, "cannot allocate"):
		res.Sig = "process-died: memory exhaustion"
	case strings.Contains(text, "panic:"):
		res.Sig = "process-died: panic"
	default:
		res.Sig = "process-died"
	}
	if len(text) > 1500 {
		text = text[:1500]
	}
	res.Detail = fmt.Sprintf("%v\n%s", err, text)
	return res
}

func runChild(t *testing.T) {
	name := os.Getenv("VERIF_CHILD")
	s := scenarios[name]
	if s == nil || s.Child == nil {
		t.Fatalf("no child function for %q", name)
	}
	limitMB := int64(0)
	fmt.Sscan(os.Getenv("VERIF_CHILD_MEM_MB"), &limitMB)
	if limitMB > 0 {
		go func() {
			var ms runtime.MemStats
			for {
				time.Sleep(20 * time.Millisecond)
				runtime.ReadMemStats(&ms)
				if int64(ms.Sys>>20) > limitMB {
					fmt.Printf("CHILD-MEMORY-LIMIT: %d MiB obtained from the OS (limit %d)\n", ms.Sys>>20, limitMB)
					os.Exit(7)
				}
			}
		}()
	}
	sig := s.Child(json.RawMessage(os.Getenv("VERIF_CHILD_INPUT")))
	fmt.Printf("CHILD-RESULT:%s\n", sig)
}

var scenarios = map[string]*Scenario{}

// Register adds a scenario (called from harness init functions).
func Register(s *Scenario) {
	if _, dup := scenarios[s.Name]; dup {
		panic("duplicate scenario " + s.Name)
	}
	scenarios[s.Name] = s
}

// CustomViolation lets custom scenarios attach the failing input.
func CustomViolation(scn, sig, detail string, input interface{}) Violation {
	b, _ := json.Marshal(input)
	return Violation{Scenario: scn, Sig: sig, Detail: detail, Input: b, Replayed: true}
}

// Main is the body of TestVerif in every harness package.
func Main(t *testing.T) {
	if os.Getenv("VERIF_CHILD") != "" {
		runtime.GOMAXPROCS(2)
		runChild(t)
		return
	}
	env := ReadEnv()
	if env.Scenario == "" && env.Replay == "" {
		t.Skip("VERIF_SCENARIO not set")
	}
	if os.Getenv("VERIF_PROCS") == "" {
		runtime.GOMAXPROCS(1)
	}
	if env.Replay != "" {
		startWatchdog(env)
		replayFile(t, env)
		return
	}
	out := &WorkerOutput{}
	names := strings.Split(env.Scenario, ",")
	if env.Scenario != "list" {
		startWatchdog(env)
	}
	if env.Scenario == "list" {
		var all []string
		for n := range scenarios {
			all = append(all, n)
		}
		sort.Strings(all)
		fmt.Println(strings.Join(all, "\n"))
		return
	}
	for _, name := range names {
		s := scenarios[name]
		if s == nil {
			t.Fatalf("unknown scenario %q", name)
		}
		var rep *Report
		watchScenario.Store(name)
		if s.Race != nil {
			runs := 200
			fmt.Sscan(os.Getenv("VERIF_RACE_RUNS"), &runs)
			runtime.GOMAXPROCS(8)
			rep = &Report{Scenario: name, Outcomes: map[string]int64{}, Complete: true}
			for i := 0; i < runs; i++ {
				Progress(nil)
				s.Race()
				rep.Execs++
			}
			raceMu.Lock()
			seenRF := map[string]bool{}
			for _, f := range raceFailures {
				if !seenRF[f.Sig] {
					seenRF[f.Sig] = true
					rep.Violations = append(rep.Violations, CustomViolation(name, f.Sig, f.Detail, map[string]bool{"race": true}))
				}
			}
			raceFailures = nil
			raceMu.Unlock()
			rep.States, rep.Transitions, rep.Distinct = rep.Execs, rep.Execs, rep.Execs
			out.Reports = append(out.Reports, rep)
			continue
		}
		if s.Custom != nil {
			start := time.Now()
			rep = s.Custom(env)
			rep.Scenario = name
			if rep.WallS == 0 {
				rep.WallS = time.Since(start).Seconds()
			}
		} else {
			cfg, body := s.Setup(env.Tier)
			cfg.Name = name
			cfg.Shard, cfg.NShards = env.Shard, env.NShards
			if cfg.Deadline.IsZero() {
				cfg.Deadline = env.Deadline
			}
			cfg.KeepGoing = true
			cfg.PostPoints = !cfg.NoPostPoints
			rep = Explore(cfg, body)
		}
		out.Reports = append(out.Reports, rep)
	}
	if err := WriteOutput(env.Out, out); err != nil {
		t.Fatal(err)
	}
}

func replayFile(t *testing.T, env Env) {
	b, err := os.ReadFile(env.Replay)
	if err != nil {
		t.Fatal(err)
	}
	var v Violation
	if err := json.Unmarshal(b, &v); err != nil {
		t.Fatal(err)
	}
	s := scenarios[v.Scenario]
	if s == nil {
		t.Fatalf("unknown scenario %q", v.Scenario)
	}
	var fails []Failure
	if s.Custom != nil {
		if s.ReplayCustom == nil {
			t.Fatalf("scenario %s has no replay function", v.Scenario)
		}
		fails = s.ReplayCustom(v.Input)
	} else {
		cfg, body := s.Setup(env.Tier)
		cfg.PostPoints = !cfg.NoPostPoints
		e := RunOnce(v.Picks, Options{MaxSteps: cfg.MaxSteps, TimerBudget: cfg.TimerBudget, Trace: true, AllowDeadlock: cfg.AllowDeadlock, PostPoints: cfg.PostPoints}, body)
		for _, l := range RenderTrace(e) {
			fmt.Println("  " + l)
		}
		fails = e.Failures
	}
	found := false
	for _, f := range fails {
		fmt.Printf("FAILURE %s\n%s\n", f.Sig, f.Detail)
		if f.Sig == v.Sig {
			found = true
		}
	}
	if found {
		fmt.Printf("REPLAY-REPRODUCED %s\n", v.Sig)
		t.Fail()
	} else {
		fmt.Printf("REPLAY-NOT-REPRODUCED %s\n", v.Sig)
	}
}
