//go:build go1.21

package sched

import (
	"encoding/json"
	"fmt"
	"os"
	"runtime"
	"sort"
	"strings"
	"sync/atomic"
	"testing"
	"time"
)

// ---- watchdog: a hang or runaway allocation in the code under test must end
// as a reported, attributable violation instead of a killed worker.

var (
	progressTicks atomic.Int64
	progressLabel atomic.Value // func() interface{} or a value
	watchScenario atomic.Value
)

// Progress tells the watchdog that the worker is alive; label describes the
// case being run (it is only marshalled if the worker has to be abandoned).
func Progress(label interface{}) {
	progressTicks.Add(1)
	if label != nil {
		progressLabel.Store(&label)
	}
}

func startWatchdog(env Env) {
	stall := 90 * time.Second
	go func() {
		last := int64(-1)
		lastChange := time.Now()
		var ms runtime.MemStats
		for {
			time.Sleep(500 * time.Millisecond)
			cur := progressTicks.Load()
			if e := E; e != nil {
				cur += int64(e.steps)
			}
			if cur != last {
				last, lastChange = cur, time.Now()
			}
			runtime.ReadMemStats(&ms)
			why := ""
			if ms.Sys > 6<<30 {
				why = fmt.Sprintf("memory obtained from the OS grew to %d MiB", ms.Sys>>20)
			} else if time.Since(lastChange) > stall {
				why = fmt.Sprintf("no progress for %s (hang in un-instrumented code)", stall)
			}
			if why == "" {
				continue
			}
			if env.Replay != "" {
				fmt.Printf("FAILURE hang-or-memory-exhaustion\n%s\nREPLAY-REPRODUCED hang-or-memory-exhaustion\n", why)
				os.Exit(1)
			}
			scn, _ := watchScenario.Load().(string)
			var input json.RawMessage
			if p, ok := progressLabel.Load().(*interface{}); ok && p != nil {
				input, _ = json.Marshal(*p)
			}
			rep := &Report{Scenario: scn, Outcomes: map[string]int64{}, Complete: false,
				Violations: []Violation{{Scenario: scn, Sig: "hang-or-memory-exhaustion", Detail: why + "; last case: " + string(input), Input: input, Replayed: true}}}
			WriteOutput(env.Out, &WorkerOutput{Reports: []*Report{rep}})
			os.Exit(3)
		}
	}()
}

// Scenario is one registered check body.
type Scenario struct {
	Name string
	// Explore scenarios: Setup returns the exploration config for a tier and the body.
	Setup func(tier string) (Config, func())
	// Custom scenarios produce their own report (input/history enumeration).
	Custom func(env Env) *Report
	// ReplayCustom re-runs one recorded custom case; returns the failures seen.
	ReplayCustom func(input json.RawMessage) []Failure
}

var scenarios = map[string]*Scenario{}

// Register adds a scenario (called from harness init functions).
func Register(s *Scenario) {
	if _, dup := scenarios[s.Name]; dup {
		panic("duplicate scenario " + s.Name)
	}
	scenarios[s.Name] = s
}

// CustomViolation lets custom scenarios attach the failing input.
func CustomViolation(scn, sig, detail string, input interface{}) Violation {
	b, _ := json.Marshal(input)
	return Violation{Scenario: scn, Sig: sig, Detail: detail, Input: b, Replayed: true}
}

// Main is the body of TestVerif in every harness package.
func Main(t *testing.T) {
	env := ReadEnv()
	if env.Scenario == "" && env.Replay == "" {
		t.Skip("VERIF_SCENARIO not set")
	}
	if os.Getenv("VERIF_PROCS") == "" {
		runtime.GOMAXPROCS(1)
	}
	if env.Replay != "" {
		startWatchdog(env)
		replayFile(t, env)
		return
	}
	out := &WorkerOutput{}
	names := strings.Split(env.Scenario, ",")
	if env.Scenario != "list" {
		startWatchdog(env)
	}
	if env.Scenario == "list" {
		var all []string
		for n := range scenarios {
			all = append(all, n)
		}
		sort.Strings(all)
		fmt.Println(strings.Join(all, "\n"))
		return
	}
	for _, name := range names {
		s := scenarios[name]
		if s == nil {
			t.Fatalf("unknown scenario %q", name)
		}
		var rep *Report
		watchScenario.Store(name)
		if s.Custom != nil {
			start := time.Now()
			rep = s.Custom(env)
			rep.Scenario = name
			if rep.WallS == 0 {
				rep.WallS = time.Since(start).Seconds()
			}
		} else {
			cfg, body := s.Setup(env.Tier)
			cfg.Name = name
			cfg.Shard, cfg.NShards = env.Shard, env.NShards
			if cfg.Deadline.IsZero() {
				cfg.Deadline = env.Deadline
			}
			cfg.KeepGoing = true
			rep = Explore(cfg, body)
		}
		out.Reports = append(out.Reports, rep)
	}
	if err := WriteOutput(env.Out, out); err != nil {
		t.Fatal(err)
	}
}

func replayFile(t *testing.T, env Env) {
	b, err := os.ReadFile(env.Replay)
	if err != nil {
		t.Fatal(err)
	}
	var v Violation
	if err := json.Unmarshal(b, &v); err != nil {
		t.Fatal(err)
	}
	s := scenarios[v.Scenario]
	if s == nil {
		t.Fatalf("unknown scenario %q", v.Scenario)
	}
	var fails []Failure
	if s.Custom != nil {
		if s.ReplayCustom == nil {
			t.Fatalf("scenario %s has no replay function", v.Scenario)
		}
		fails = s.ReplayCustom(v.Input)
	} else {
		cfg, body := s.Setup(env.Tier)
		e := RunOnce(v.Picks, Options{MaxSteps: cfg.MaxSteps, TimerBudget: cfg.TimerBudget, Trace: true}, body)
		for _, l := range RenderTrace(e) {
			fmt.Println("  " + l)
		}
		fails = e.Failures
	}
	found := false
	for _, f := range fails {
		fmt.Printf("FAILURE %s\n%s\n", f.Sig, f.Detail)
		if f.Sig == v.Sig {
			found = true
		}
	}
	if found {
		fmt.Printf("REPLAY-REPRODUCED %s\n", v.Sig)
		t.Fail()
	} else {
		fmt.Printf("REPLAY-NOT-REPRODUCED %s\n", v.Sig)
	}
}
