//go:build go1.21

// Package vtime mirrors the subset of package time the repository uses on top
// of the scheduler's virtual clock. Time and Duration are aliases of the real
// types, so values flow freely to and from un-instrumented code.
package vtime

import (
	"time"

	"github.com/samaritan-proxy/samaritan/verifrt/sched"
)

type (
	Time     = time.Time
	Duration = time.Duration
	Month    = time.Month
	Weekday  = time.Weekday
	Location = time.Location
)

const (
	Nanosecond  = time.Nanosecond
	Microsecond = time.Microsecond
	Millisecond = time.Millisecond
	Second      = time.Second
	Minute      = time.Minute
	Hour        = time.Hour

	RFC3339     = time.RFC3339
	RFC3339Nano = time.RFC3339Nano
	RFC1123     = time.RFC1123
)

var (
	UTC   = time.UTC
	Local = time.Local
)

func Unix(sec, nsec int64) Time                { return time.Unix(sec, nsec) }
func ParseDuration(s string) (Duration, error) { return time.ParseDuration(s) }
func Parse(layout, value string) (Time, error) { return time.Parse(layout, value) }
func Date(year int, month Month, day, hour, min, sec, nsec int, loc *Location) Time {
	return time.Date(year, month, day, hour, min, sec, nsec, loc)
}

// Now returns the virtual clock inside a controlled execution.
func Now() Time {
	if sched.E == nil {
		return time.Now()
	}
	return time.Unix(0, sched.Now())
}

func Since(t Time) Duration { return Now().Sub(t) }
func Until(t Time) Duration { return t.Sub(Now()) }

// Timer mirrors time.Timer.
type Timer struct {
	C  <-chan Time
	c  chan Time
	t  *sched.Timer
	rt *time.Timer
	f  func()
}

func (t *Timer) fire() {
	if t.f != nil {
		sched.GoNamed("afterfunc", t.f)
		return
	}
	select {
	case t.c <- time.Unix(0, sched.Now()):
	default:
	}
}

func NewTimer(d Duration) *Timer {
	if sched.E == nil {
		rt := time.NewTimer(d)
		return &Timer{C: rt.C, rt: rt}
	}
	t := &Timer{c: make(chan Time, 1)}
	t.C = t.c
	t.t = sched.AddTimer(int64(d), t.fire)
	return t
}

func AfterFunc(d Duration, f func()) *Timer {
	if sched.E == nil {
		return &Timer{rt: time.AfterFunc(d, f)}
	}
	t := &Timer{f: f}
	t.t = sched.AddTimer(int64(d), t.fire)
	return t
}

func (t *Timer) Stop() bool {
	if t.rt != nil {
		return t.rt.Stop()
	}
	return t.t.Stop()
}

func (t *Timer) Reset(d Duration) bool {
	if t.rt != nil {
		return t.rt.Reset(d)
	}
	was := t.t.Stop()
	t.t.Reschedule(int64(d))
	return was
}

func After(d Duration) <-chan Time { return NewTimer(d).C }

// Sleep blocks the calling thread until the virtual clock has advanced by d.
func Sleep(d Duration) {
	if sched.E == nil {
		time.Sleep(d)
		return
	}
	done := false
	sched.AddTimer(int64(d), func() { done = true })
	sched.Wait("sleep", nil, func() bool { return done })
}

// Ticker mirrors time.Ticker.
type Ticker struct {
	C  <-chan Time
	c  chan Time
	t  *sched.Timer
	d  Duration
	rt *time.Ticker
}

func NewTicker(d Duration) *Ticker {
	if d <= 0 {
		panic("non-positive interval for NewTicker")
	}
	if sched.E == nil {
		rt := time.NewTicker(d)
		return &Ticker{C: rt.C, rt: rt}
	}
	t := &Ticker{c: make(chan Time, 1), d: d}
	t.C = t.c
	t.t = sched.AddTimer(int64(d), t.fire)
	return t
}

func (t *Ticker) fire() {
	select {
	case t.c <- time.Unix(0, sched.Now()):
	default:
	}
	t.t.Reschedule(int64(t.d))
}

func (t *Ticker) Stop() {
	if t.rt != nil {
		t.rt.Stop()
		return
	}
	t.t.Stop()
}

func (t *Ticker) Reset(d Duration) {
	if t.rt != nil {
		t.rt.Reset(d)
		return
	}
	t.d = d
	t.t.Stop()
	t.t.Reschedule(int64(d))
}

func Tick(d Duration) <-chan Time { return NewTicker(d).C }
