//go:build go1.21

package litmus

import (
	"fmt"
	"io"
	"sort"
	"strings"
	"testing"
	"time"

	"github.com/samaritan-proxy/samaritan/verifrt/sched"
	"github.com/samaritan-proxy/samaritan/verifrt/vnet"
	sync "github.com/samaritan-proxy/samaritan/verifrt/vsync"
	vtime "github.com/samaritan-proxy/samaritan/verifrt/vtime"
	atomic "github.com/samaritan-proxy/samaritan/verifrt/vuatomic"
)

func TestVerif(t *testing.T) { sched.Main(t) }

type lit struct {
	name   string
	bounds sched.Bounds
	timers int
	body   func()
	want   []string // exact outcome set expected (end reason appended for deadlocks)
}

func outcomes(r *sched.Report) []string {
	var ks []string
	for k := range r.Outcomes {
		ks = append(ks, k)
	}
	sort.Strings(ks)
	return ks
}

func lostUpdate() {
	x := atomic.NewInt32(0)
	var wg sync.WaitGroup
	wg.Add(2)
	for i := 0; i < 2; i++ {
		sched.Go(func() {
			v := x.Load()
			x.Store(v + 1)
			wg.Done()
		})
	}
	wg.Wait()
	sched.SetOutcome(fmt.Sprint(x.Load()))
}

func lockedUpdate() {
	var mu sync.Mutex
	x := 0
	var wg sync.WaitGroup
	wg.Add(2)
	for i := 0; i < 2; i++ {
		sched.Go(func() {
			mu.Lock()
			v := x
			sched.Yield()
			x = v + 1
			mu.Unlock()
			wg.Done()
		})
	}
	wg.Wait()
	sched.SetOutcome(fmt.Sprint(x))
}

func lockInversion() {
	var a, b sync.Mutex
	var wg sync.WaitGroup
	wg.Add(2)
	sched.Go(func() { a.Lock(); b.Lock(); b.Unlock(); a.Unlock(); wg.Done() })
	sched.Go(func() { b.Lock(); a.Lock(); a.Unlock(); b.Unlock(); wg.Done() })
	sched.SetOutcome("deadlock")
	wg.Wait()
	sched.SetOutcome("ok")
}

func selectBoth() {
	a := make(chan int, 1)
	b := make(chan int, 1)
	a <- 1
	b <- 2
	switch sched.Select(false, sched.R(a), sched.R(b)) {
	case 0:
		sched.SetOutcome("a")
	case 1:
		sched.SetOutcome("b")
	}
}

func rwRecursive() {
	var m sync.RWMutex
	var wg sync.WaitGroup
	wg.Add(2)
	sched.Go(func() {
		m.RLock()
		sched.Yield()
		m.RLock()
		m.RUnlock()
		m.RUnlock()
		wg.Done()
	})
	sched.Go(func() { m.Lock(); m.Unlock(); wg.Done() })
	sched.SetOutcome("deadlock")
	wg.Wait()
	sched.SetOutcome("ok")
}

func checkThenAct() {
	ch := make(chan int, 1)
	quit := make(chan struct{})
	res := "sent"
	var wg sync.WaitGroup
	wg.Add(2)
	sched.Go(func() {
		defer wg.Done()
		switch sched.Select(true, sched.R(quit)) {
		case 0:
			res = "refused"
		default:
			sched.SendV(ch, 1)
		}
	})
	sched.Go(func() {
		defer wg.Done()
		sched.CloseCh(quit)
		switch sched.Select(true, sched.R(ch)) {
		case 0:
			<-ch
			res += "+drained"
		default:
		}
	})
	wg.Wait()
	sched.SetOutcome(fmt.Sprintf("%s left=%d", res, len(ch)))
}

func timerVsClose() {
	quit := make(chan struct{})
	t := vtime.NewTimer(500 * time.Millisecond)
	sched.Go(func() { sched.CloseCh(quit) })
	switch sched.Select(false, sched.R(t.C), sched.R(quit)) {
	case 0:
		<-t.C
		sched.SetOutcome("timer")
	case 1:
		sched.SetOutcome("quit")
	}
}

func timerOnly() {
	t := vtime.NewTimer(500 * time.Millisecond)
	start := vtime.Now()
	sched.RecvV(t.C)
	sched.SetOutcome(fmt.Sprint(vtime.Since(start)))
}

func halfClose() {
	l, _ := vnet.Listen("tcp", "10.0.0.1:80")
	var got []string
	sched.GoServer("srv", func() {
		c, err := l.Accept()
		if err != nil {
			return
		}
		b, _ := io.ReadAll(c)
		c.Write([]byte("re:" + string(b)))
		c.Close()
	})
	c, err := vnet.DialConn("10.0.0.1:80")
	if err != nil {
		sched.SetOutcome("dial-failed")
		return
	}
	c.Write([]byte("he"))
	c.Write([]byte("llo"))
	c.CloseWrite()
	b, err := io.ReadAll(c)
	got = append(got, string(b), fmt.Sprint(err))
	sched.SetOutcome(strings.Join(got, "|"))
}

func closedConnRead() {
	a, b := vnet.Pipe()
	var res string
	var wg sync.WaitGroup
	wg.Add(1)
	sched.Go(func() {
		defer wg.Done()
		buf := make([]byte, 4)
		_, err := a.Read(buf)
		if err != nil && strings.Contains(err.Error(), "use of closed network connection") {
			res = "closed"
		} else if err == io.EOF {
			res = "eof"
		} else {
			res = fmt.Sprint(err)
		}
	})
	sched.Yield()
	if sched.Choose(sched.ClsInput, 2, "who") == 0 {
		a.Close()
	} else {
		b.Close()
	}
	wg.Wait()
	sched.SetOutcome(res)
}

func mapOrder() {
	sched.EnableMapOrderDeviations()
	m := map[string]int{"a": 1, "b": 2, "c": 3}
	s := ""
	for _, k := range sched.MapKeys(m) {
		s += k
	}
	sched.SetOutcome(s)
}

func onceOrder() {
	var o sync.Once
	n := 0
	var wg sync.WaitGroup
	wg.Add(2)
	for i := 0; i < 2; i++ {
		sched.Go(func() { o.Do(func() { sched.Yield(); n++ }); wg.Done() })
	}
	wg.Wait()
	sched.SetOutcome(fmt.Sprint(n))
}

func quiescent() {
	ch := make(chan int, 4)
	sched.Go(func() { sched.SendV(ch, 1); sched.Yield(); sched.SendV(ch, 2) })
	sched.WaitQuiescent()
	sched.SetOutcome(fmt.Sprint(len(ch)))
}

func doubleClose() {
	ch := make(chan struct{})
	var wg sync.WaitGroup
	wg.Add(2)
	for i := 0; i < 2; i++ {
		sched.Go(func() { defer wg.Done(); sched.CloseCh(ch) })
	}
	wg.Wait()
	sched.SetOutcome("ok")
}

// ---- unbuffered channels: rendezvous ----

func usend(c chan int, v int) {
	tok := sched.SendPt(c)
	c <- v
	sched.PostSendT(tok)
}

// two senders, one receiver taking both values: every order of the two values, nobody left behind
func unbufTwoSenders() {
	c := make(chan int)
	var wg sync.WaitGroup
	wg.Add(2)
	sched.Go(func() { usend(c, 1); wg.Done() })
	sched.Go(func() { usend(c, 2); wg.Done() })
	a := sched.RecvV(c)
	b := sched.RecvV(c)
	wg.Wait()
	sched.WaitQuiescent()
	sched.SetOutcome(fmt.Sprintf("%d%d left=%d", a, b, len(sched.LiveNonServer())))
}

// the doWithDeadline shape: a worker reports through a channel, the caller waits for it or for a timer.
// With a one-slot channel the worker always ends; with an unbuffered one it is left behind whenever the timer wins.
func deadlineShape(buf int, early bool) func() {
	return func() {
		ret := make(chan int, buf)
		gate := make(chan struct{})
		sched.Go(func() {
			sched.RecvV(gate) // the work: a read that only ends when the caller closes the connection
			usend(ret, 7)
		})
		if early {
			sched.Go(func() { sched.CloseCh(gate) }) // ... or when the peer answers
		}
		t := vtime.NewTimer(time.Second)
		res := ""
		switch sched.Select(false, sched.R(ret), sched.R(t.C)) {
		case 0:
			res = fmt.Sprint("result ", <-ret)
		case 1:
			<-t.C
			res = "timeout"
		}
		if !early {
			sched.CloseCh(gate)
		}
		sched.WaitQuiescent()
		sched.SetOutcome(fmt.Sprintf("%s left=%d", res, len(sched.LiveNonServer())))
	}
}

// a select with default never waits for a sender that has not arrived, and takes the value of one that has
func unbufSelectDefault() {
	c := make(chan int)
	sched.Go(func() { usend(c, 5) })
	got := "none"
	switch sched.Select(true, sched.R(c)) {
	case 0:
		got = fmt.Sprint(<-c)
	}
	if got == "none" {
		got += fmt.Sprint("+", sched.RecvV(c))
	}
	sched.SetOutcome(got)
}

// closing an unbuffered channel releases a parked receiver
func unbufClose() {
	c := make(chan int)
	sched.Go(func() { sched.CloseCh(c) })
	_, ok := sched.Recv2(c)
	sched.SetOutcome(fmt.Sprint(ok))
}

// the lost update again, with the racing part inside / outside the explored window
func quietWindow(open bool) func() {
	return func() {
		sched.SetQuiet(!open)
		lostUpdate()
	}
}

// read-compute-write over a plain variable with access points; YieldAt runs a thread last at such a point
func yieldAtBody(locked bool) func() {
	return func() {
		sched.YieldAt("x.")
		x := 0
		var mu sync.Mutex
		var wg sync.WaitGroup
		for i := 0; i < 2; i++ {
			wg.Add(1)
			sched.Go(func() {
				defer wg.Done()
				if locked {
					mu.Lock()
					defer mu.Unlock()
				}
				sched.Access("x.v")
				v := x
				sched.Access("x.v")
				x = v + 1
			})
		}
		wg.Wait()
		sched.SetOutcome(fmt.Sprint(x))
	}
}

var lits = []lit{
	{"yield-at: unprotected update P=0", sched.Bounds{F: -1}, 0, yieldAtBody(false), []string{"1"}},
	{"yield-at: locked update P=1", sched.Bounds{F: -1, P: 1}, 0, yieldAtBody(true), []string{"2"}},
	{"window closed: lost-update P=1", sched.Bounds{F: -1, P: 1}, 0, quietWindow(false), []string{"2"}},
	{"window open: lost-update P=1", sched.Bounds{F: -1, P: 1}, 0, quietWindow(true), []string{"1", "2"}},
	{"unbuffered two-senders P=2", sched.Bounds{F: -1, P: 2}, 0, unbufTwoSenders, []string{"12 left=0", "21 left=0"}},
	{"deadline-shape buffered, silent peer", sched.Bounds{F: -1, P: 2, Sel: 1}, 1, deadlineShape(1, false), []string{"timeout left=0"}},
	{"deadline-shape unbuffered, silent peer", sched.Bounds{F: -1, P: 2, Sel: 1}, 1, deadlineShape(0, false), []string{"timeout left=1"}},
	{"deadline-shape buffered, answering peer", sched.Bounds{F: -1, P: 2, Sel: 1}, 1, deadlineShape(1, true), []string{"result 7 left=0"}},
	{"deadline-shape unbuffered, answering peer", sched.Bounds{F: -1, P: 2, Sel: 1}, 1, deadlineShape(0, true), []string{"result 7 left=0"}},
	{"unbuffered select-default P=1", sched.Bounds{F: -1, P: 1}, 0, unbufSelectDefault, []string{"5", "none+5"}},
	{"unbuffered close", sched.Bounds{F: -1, P: 1}, 0, unbufClose, []string{"false"}},
	{"lost-update P=0", sched.Bounds{F: -1}, 0, lostUpdate, []string{"2"}},
	{"lost-update P=1", sched.Bounds{F: -1, P: 1}, 0, lostUpdate, []string{"1", "2"}},
	{"locked-update P=3", sched.Bounds{F: -1, P: 3}, 0, lockedUpdate, []string{"2"}},
	{"lock-inversion P=0", sched.Bounds{F: -1}, 0, lockInversion, []string{"ok"}},
	{"lock-inversion P=1", sched.Bounds{F: -1, P: 1}, 0, lockInversion, []string{"deadlock", "ok"}},
	{"select-both Sel=0", sched.Bounds{F: -1}, 0, selectBoth, []string{"a"}},
	{"select-both Sel=1", sched.Bounds{F: -1, Sel: 1}, 0, selectBoth, []string{"a", "b"}},
	{"rw-recursive P=0", sched.Bounds{F: -1}, 0, rwRecursive, []string{"ok"}},
	{"rw-recursive P=1", sched.Bounds{F: -1, P: 1}, 0, rwRecursive, []string{"deadlock", "ok"}},
	{"check-then-act P=0", sched.Bounds{F: -1}, 0, checkThenAct, []string{"refused left=0", "sent+drained left=0"}},
	{"check-then-act P=2", sched.Bounds{F: -1, P: 2}, 0, checkThenAct, []string{"refused left=0", "sent left=1", "sent+drained left=0"}},
	{"timer-vs-close", sched.Bounds{F: -1, P: 1, Sel: 1}, 1, timerVsClose, []string{"quit"}},
	{"timer-only", sched.Bounds{F: -1}, 1, timerOnly, []string{"500ms"}},
	{"half-close P=2", sched.Bounds{F: -1, P: 2}, 0, halfClose, []string{"re:hello|<nil>"}},
	{"closed-conn-read", sched.Bounds{F: -1, P: 1}, 0, closedConnRead, []string{"closed", "eof"}},
	{"map-order E=1", sched.Bounds{F: -1, Env: 1}, 0, mapOrder, []string{"abc", "cba"}},
	{"once P=2", sched.Bounds{F: -1, P: 2}, 0, onceOrder, []string{"1"}},
	{"quiescent P=2", sched.Bounds{F: -1, P: 2}, 0, quiescent, []string{"2"}},
	{"double-close", sched.Bounds{F: -1, P: 1}, 0, doubleClose, []string{"", "ok"}},
}

func init() {
	sched.Register(&sched.Scenario{Name: "litmus", Custom: func(env sched.Env) *sched.Report {
		total := &sched.Report{Outcomes: map[string]int64{}, EndReasons: map[string]int64{}, ByClass: map[string]int64{}, Complete: true}
		for _, l := range lits {
			r := sched.Explore(sched.Config{Name: l.name, Bounds: l.bounds, TimerBudget: l.timers, KeepGoing: true, AllowDeadlock: true, PostPoints: true, Iterative: true}, l.body)
			got := outcomes(r)
			total.Execs += r.Execs
			total.Steps += r.Steps
			total.StateHashes += r.StateHashes
			for _, o := range got {
				total.Outcomes[l.name+": "+o] += r.Outcomes[o]
			}
			ok := fmt.Sprint(got) == fmt.Sprint(l.want) && r.Complete
			if l.name == "double-close" {
				ok = len(r.Violations) == 1 && strings.HasPrefix(r.Violations[0].Sig, "panic: close of closed channel") && r.Violations[0].Replayed
			} else if len(r.Violations) > 0 {
				ok = false
			}
			if !ok {
				total.Violations = append(total.Violations, sched.Violation{Scenario: "litmus", Sig: "litmus " + l.name,
					Detail: fmt.Sprintf("got outcomes %v (complete=%v, violations=%v, errors=%v), want %v", got, r.Complete, r.Violations, r.Errors, l.want), Replayed: true})
			}
			total.Notes = append(total.Notes, fmt.Sprintf("%s: execs=%d outcomes=%v", l.name, r.Execs, got))
		}
		return total
	}})
}
