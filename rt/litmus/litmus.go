//go:build go1.21

// Package litmus holds engine self-tests: small programs with known outcome sets.
package litmus
