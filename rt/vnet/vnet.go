//go:build go1.21

// Package vnet is an in-memory network under the control of verifrt/sched:
// listeners, duplex connections with half-close, orderly close, reset,
// deadlines on the virtual clock, refused/timed-out dials. Every operation is a
// scheduling point; Read and Accept are enabled iff they would not block.
package vnet

import (
	"errors"
	"fmt"
	"io"
	"net"
	"os"
	"sync"
	"syscall"
	"time"

	"github.com/samaritan-proxy/samaritan/verifrt/sched"
)

type (
	Conn     = net.Conn
	Listener = net.Listener
	Error    = net.Error
	NetAddr  = net.Addr
	OpError  = net.OpError
	// TCPConn: in files whose "net" import is redirected here, *net.TCPConn is the virtual connection
	TCPConn = VConn
	TCPAddr = net.TCPAddr
	IP      = net.IP
)

// Addr is a vnet address.
type Addr string

func (a Addr) Network() string { return "tcp" }
func (a Addr) String() string  { return string(a) }

type half struct {
	buf     []byte
	wclosed bool // writer finished: reader sees EOF after the buffered bytes
	rclosed bool // reader shut its side: reads return EOF, writes are discarded
	reset   bool
	total   int // bytes ever written
	window  int // how many unread bytes fit (receive buffer + send queue); 0 = unbounded
	// resetErr is what reads and writes report once reset is set (ECONNRESET unless the connection was lost silently)
	resetErr error
}

func (h *half) lostErr() error {
	if h.resetErr != nil {
		return h.resetErr
	}
	return syscall.ECONNRESET
}

// VConn is one end of a virtual connection.
type VConn struct {
	mu       *sync.Mutex // shared by both ends; used in free-running mode only
	cond     *sync.Cond
	linger0  bool
	id       int
	in, out  *half
	peer     *VConn
	closed   bool
	local    Addr
	remote   Addr
	rdArmed  *sched.Timer
	rdExp    bool
	wrExp    bool
	wrArmed  *sched.Timer
	Label    string // who owns this end (for traces/oracles)
	server   bool
	ReadN    int // completed Read calls
	WriteN   int
	shutRead bool
	// TCP_USER_TIMEOUT (controlled executions): how long data this end wrote may stay queued without progress
	// (peer's window closed) before the kernel aborts the connection
	userTimeout time.Duration
	utArmed     *sched.Timer
	utExpired   bool
}

type registry struct {
	listeners map[string]*listener
	conns     []*VConn
	nextPort  int
	dialHook  func(addr string) error
	aliases   map[string]string // name:port -> numeric address (name resolution)
	holdDials bool              // connects are in progress (SYN sent) until released
	holdAddrs map[string]bool   // (only to these addresses, when set)
	heldDials int
	window    int // socket buffer size of connections created from now on (0 = unbounded)
}

// SetWindow bounds, for connections created from now on, how many unread bytes may be queued towards an end
// (the receiver's socket buffer plus the sender's send queue): a Write blocks while that much is unread, as on a
// real socket whose reader is slow. 0 (the default) never blocks.
func SetWindow(n int) { defer regLock()(); reg().window = n }

// SetUserTimeout mirrors the TCP_USER_TIMEOUT socket option (RFC 5482, tcp(7)): when data written by this end
// stays queued for that long without any progress - which includes a peer that keeps its receive window closed -
// the kernel aborts the connection: the blocked Write fails with ETIMEDOUT, the peer sees a reset and whatever
// was not read yet is lost. Only connections with a bounded window (SetWindow) can get into that state.
func (c *VConn) SetUserTimeout(d time.Duration) { defer c.lock()(); c.userTimeout = d }

// UserTimeout returns what SetUserTimeout set.
func (c *VConn) UserTimeout() time.Duration { defer c.lock()(); return c.userTimeout }

// HoldDials makes every Dial wait, as a connect that takes its time, until HoldDials(false) releases them
// (controlled executions only; to the given addresses only when some are given). HeldDials reports how many
// are waiting.
func HoldDials(on bool, addrs ...string) {
	r := reg()
	r.holdDials, r.holdAddrs = on, nil
	for _, a := range addrs {
		if r.holdAddrs == nil {
			r.holdAddrs = map[string]bool{}
		}
		r.holdAddrs[a] = true
	}
}
func HeldDials() int { return reg().heldDials }

// Alias makes dialling name reach the listener at addr; the connection's RemoteAddr is addr, as
// after a real name resolution.
func Alias(name, addr string) {
	defer regLock()()
	r := reg()
	if r.aliases == nil {
		r.aliases = map[string]string{}
	}
	r.aliases[name] = addr
}

// ---- free-running mode ---------------------------------------------------------
//
// Outside a controlled execution (the -race pass runs the real code with real goroutines) the virtual network
// is an ordinary thread-safe in-memory network: every connection pair has its own mutex and condition variable
// (so that happens-before edges follow the data, as with sockets), the registry and the listeners share one.
// Deadlines, faults and short reads do not exist in this mode.

var (
	freeMu   sync.Mutex
	freeCond = sync.NewCond(&freeMu)
	freeReg  *registry
)

// FreeReset starts a fresh network for the next free-running run.
func FreeReset() {
	freeMu.Lock()
	freeReg = &registry{listeners: map[string]*listener{}, nextPort: 40000}
	freeMu.Unlock()
}

// regLock serialises registry and listener operations in free-running mode.
func regLock() func() {
	if sched.E != nil {
		return func() {}
	}
	freeMu.Lock()
	return func() { freeCond.Broadcast(); freeMu.Unlock() }
}

func (c *VConn) lock() func() {
	if sched.E != nil {
		return func() {}
	}
	c.mu.Lock()
	return func() { c.cond.Broadcast(); c.mu.Unlock() }
}

// wait blocks until ready() holds: through the scheduler, or on the pair's condition variable (held lock).
func (c *VConn) wait(kind string, ready func() bool) {
	if sched.E != nil {
		sched.Wait(kind, c, ready)
		return
	}
	for !ready() {
		c.cond.Wait()
	}
}

func reg() *registry {
	e := sched.E
	if e == nil {
		if freeReg == nil {
			panic("vnet: used outside a controlled execution without FreeReset")
		}
		return freeReg
	}
	r, _ := e.Data["vnet"].(*registry)
	if r == nil {
		r = &registry{listeners: map[string]*listener{}, nextPort: 40000}
		e.Data["vnet"] = r
	}
	return r
}

// SetDialHook installs a function consulted by every dial; a non-nil error is returned to the dialer.
func SetDialHook(f func(addr string) error) { defer regLock()(); reg().dialHook = f }

// Conns returns every connection end created in this execution.
func Conns() []*VConn { defer regLock()(); return append([]*VConn(nil), reg().conns...) }

func (c *VConn) String() string {
	return fmt.Sprintf("conn%d[%s %s->%s]", c.id, c.Label, c.local, c.remote)
}

func newPair(r *registry, client, server Addr) (*VConn, *VConn) {
	a2b, b2a := &half{window: r.window}, &half{window: r.window}
	a := &VConn{id: len(r.conns), in: b2a, out: a2b, local: client, remote: server}
	b := &VConn{id: len(r.conns) + 1, in: a2b, out: b2a, local: server, remote: client, server: true}
	a.peer, b.peer = b, a
	a.mu = &sync.Mutex{}
	a.cond = sync.NewCond(a.mu)
	b.mu, b.cond = a.mu, a.cond
	r.conns = append(r.conns, a, b)
	return a, b
}

// Pipe returns two connected ends without a listener.
func Pipe() (*VConn, *VConn) {
	defer regLock()()
	r := reg()
	r.nextPort++
	return newPair(r, Addr(fmt.Sprintf("127.0.0.1:%d", r.nextPort)), Addr("10.0.0.1:1"))
}

var errClosed = net.ErrClosed

func opErr(op string, c *VConn, err error) error {
	return &net.OpError{Op: op, Net: "tcp", Source: c.local, Addr: c.remote, Err: err}
}

func shortReads() bool {
	if e := sched.E; e != nil {
		v, _ := e.Data["shortReads"].(bool)
		return v
	}
	return false
}

// EnableShortReads makes "how many of the available bytes does Read return" an ENV choice.
func EnableShortReads() {
	if e := sched.E; e != nil {
		e.Data["shortReads"] = true
	}
}

// EnableFaults makes "the connection is reset right before this operation" an ENV choice at every
// Read and Write of connection ends whose Label starts with prefix.
func EnableFaults(prefix string) {
	if e := sched.E; e != nil {
		e.Data["faultPrefix"] = prefix
	}
}

// FaultsInjected counts the resets injected in this execution.
func FaultsInjected() int {
	if e := sched.E; e != nil {
		n, _ := e.Data["faultsInjected"].(int)
		return n
	}
	return 0
}

func (c *VConn) maybeFault(op string) {
	e := sched.E
	if e == nil {
		return
	}
	p, _ := e.Data["faultPrefix"].(string)
	if p == "" || len(c.Label) < len(p) || c.Label[:len(p)] != p || c.closed || c.in.reset {
		return
	}
	if sched.Choose(sched.ClsEnv, 2, "reset-before-"+op) == 1 {
		n, _ := e.Data["faultsInjected"].(int)
		e.Data["faultsInjected"] = n + 1
		c.in.reset, c.out.reset = true, true
		c.in.buf, c.out.buf = nil, nil
	}
}

func (c *VConn) readReady() bool {
	return c.closed || c.in.reset || len(c.in.buf) > 0 || c.in.wclosed || c.in.rclosed || c.rdExp
}

func (c *VConn) Read(b []byte) (int, error) {
	defer c.lock()()
	c.wait("net-read", c.readReady)
	c.maybeFault("read")
	c.ReadN++
	switch {
	case c.closed:
		return 0, opErr("read", c, errClosed)
	case c.in.reset:
		return 0, opErr("read", c, c.in.lostErr())
	case c.in.rclosed:
		return 0, io.EOF
	case len(c.in.buf) > 0:
		n := len(c.in.buf)
		if n > len(b) {
			n = len(b)
		}
		if n > 1 && shortReads() {
			switch sched.Choose(sched.ClsEnv, 3, "short-read") {
			case 1:
				n = 1
			case 2:
				n = (n + 1) / 2
			}
		}
		copy(b, c.in.buf[:n])
		c.in.buf = c.in.buf[n:]
		return n, nil
	case c.in.wclosed:
		return 0, io.EOF
	case c.rdExp:
		return 0, opErr("read", c, os.ErrDeadlineExceeded)
	}
	panic("vnet: read scheduled while not ready")
}

func (c *VConn) writeReady() bool {
	return c.out.window == 0 || len(c.out.buf) < c.out.window || c.closed || c.out.wclosed || c.out.reset || c.peer.closed ||
		c.wrExp || c.out.rclosed || c.utExpired
}

func (c *VConn) Write(b []byte) (int, error) {
	defer c.lock()()
	written := 0
	for first := true; ; first = false {
		if c.userTimeout > 0 && c.utArmed == nil && sched.E != nil && !c.writeReady() {
			// the data waits in the send queue until the reader makes room: the user timeout runs
			c.utArmed = sched.AddTimer(int64(c.userTimeout), func() { c.utExpired = true })
		}
		c.wait("net-write", c.writeReady)
		if first {
			c.maybeFault("write")
			c.WriteN++
		}
		switch {
		case c.closed:
			return written, opErr("write", c, errClosed)
		case c.out.wclosed:
			return written, opErr("write", c, syscall.EPIPE)
		case c.out.reset:
			return written, opErr("write", c, c.out.lostErr())
		case c.peer.closed:
			return written, opErr("write", c, syscall.EPIPE)
		case c.wrExp:
			return written, opErr("write", c, os.ErrDeadlineExceeded)
		case c.utExpired:
			// the kernel gave up on the queued data: connection aborted
			c.in.reset, c.out.reset = true, true
			c.in.buf, c.out.buf = nil, nil
			return written, opErr("write", c, syscall.ETIMEDOUT)
		}
		if c.out.rclosed {
			c.out.total += len(b)
			return written + len(b), nil // peer shut its read side: silently discarded
		}
		n := len(b)
		if c.out.window > 0 && n > c.out.window-len(c.out.buf) {
			n = c.out.window - len(c.out.buf)
		}
		c.out.total += n
		c.out.buf = append(c.out.buf, b[:n]...)
		written += n
		b = b[n:]
		if n > 0 || len(b) == 0 {
			c.utArmed.Stop() // progress
			c.utArmed = nil
		}
		if len(b) == 0 {
			return written, nil
		}
	}
}

// SetLinger mirrors (*net.TCPConn).SetLinger. With sec == 0 Close discards whatever this end wrote that the
// peer has not read yet and the peer sees a reset (what the kernel does with the unsent part of the send
// queue); how much was already delivered is not under the sender's control, so "nothing of the unread part"
// is one of the possible outcomes and the one modelled.
func (c *VConn) SetLinger(sec int) error {
	defer c.lock()()
	c.linger0 = sec == 0
	return nil
}

func (c *VConn) SetKeepAlive(bool) error                { return nil }
func (c *VConn) SetKeepAlivePeriod(time.Duration) error { return nil }
func (c *VConn) SetNoDelay(bool) error                  { return nil }

func (c *VConn) Close() error {
	defer c.lock()()
	sched.Op("net-close", c)
	if c.closed {
		return opErr("close", c, errClosed)
	}
	if c.linger0 && len(c.out.buf) > 0 {
		c.out.buf = nil
		c.out.reset = true
	}
	c.closed = true
	c.out.wclosed = true
	c.in.rclosed = true
	c.rdArmed.Stop()
	c.wrArmed.Stop()
	return nil
}

// CloseWrite shuts down the writing side (FIN).
func (c *VConn) CloseWrite() error {
	defer c.lock()()
	sched.Op("net-closewrite", c)
	if c.closed {
		return opErr("close", c, errClosed)
	}
	c.out.wclosed = true
	return nil
}

// CloseRead shuts down the reading side.
func (c *VConn) CloseRead() error {
	defer c.lock()()
	sched.Op("net-closeread", c)
	if c.closed {
		return opErr("close", c, errClosed)
	}
	c.in.rclosed = true
	c.shutRead = true
	return nil
}

// Reset injects a connection reset seen by both ends (buffered data is lost).
func (c *VConn) Reset() {
	defer c.lock()()
	sched.Op("net-reset", c)
	c.in.reset, c.out.reset = true, true
	c.in.buf, c.out.buf = nil, nil
}

// TimeoutLoss makes the connection die silently (the peer host crashed, or the path drops every packet): no FIN and
// no RST ever arrives; pending and later reads and writes fail with ETIMEDOUT, as they do once the kernel gives up
// retransmitting or the TCP user timeout expires. (ETIMEDOUT is a "temporary" error in Go's classification.)
func (c *VConn) TimeoutLoss() {
	defer c.lock()()
	sched.Op("net-timeout-loss", c)
	c.in.reset, c.out.reset = true, true
	c.in.resetErr, c.out.resetErr = syscall.ETIMEDOUT, syscall.ETIMEDOUT
	c.in.buf, c.out.buf = nil, nil
}

func (c *VConn) LocalAddr() net.Addr  { return c.local }
func (c *VConn) RemoteAddr() net.Addr { return c.remote }

func (c *VConn) SetDeadline(t time.Time) error {
	c.SetReadDeadline(t)
	c.SetWriteDeadline(t)
	return nil
}

func (c *VConn) SetReadDeadline(t time.Time) error {
	if sched.E == nil {
		return nil // no deadlines in free-running mode
	}
	if c.closed {
		return opErr("set", c, errClosed)
	}
	c.rdArmed.Stop()
	c.rdArmed = nil
	c.rdExp = false
	if t.IsZero() {
		return nil
	}
	d := t.UnixNano() - sched.Now()
	if d <= 0 {
		c.rdExp = true
		return nil
	}
	c.rdArmed = sched.AddTimer(d, func() { c.rdExp = true })
	return nil
}

func (c *VConn) SetWriteDeadline(t time.Time) error {
	if sched.E == nil {
		return nil
	}
	if c.closed {
		return opErr("set", c, errClosed)
	}
	c.wrArmed.Stop()
	c.wrArmed = nil
	c.wrExp = false
	if t.IsZero() {
		return nil
	}
	d := t.UnixNano() - sched.Now()
	if d <= 0 {
		c.wrExp = true
		return nil
	}
	c.wrArmed = sched.AddTimer(d, func() { c.wrExp = true })
	return nil
}

// ---- inspection for oracles -----------------------------------------------

func (c *VConn) IsClosed() bool     { defer c.lock()(); return c.closed }
func (c *VConn) Peer() *VConn       { return c.peer }
func (c *VConn) IsServerSide() bool { return c.server }
func (c *VConn) Buffered() int      { defer c.lock()(); return len(c.in.buf) }
func (c *VConn) PeerFinished() bool { defer c.lock()(); return c.in.wclosed }
func (c *VConn) TotalWritten() int  { defer c.lock()(); return c.out.total }
func (c *VConn) WasReset() bool     { defer c.lock()(); return c.in.reset }

// ---- listeners and dialing --------------------------------------------------

type listener struct {
	addr    Addr
	backlog []*VConn
	closed  bool
	// AcceptErrs are returned (in order) by Accept before real connections.
	acceptErrs []error
	Accepted   int
}

// Listen binds addr; it fails if the address is in use.
func Listen(network, address string) (net.Listener, error) {
	sched.Op("net-listen", Addr(address))
	defer regLock()()
	r := reg()
	if l, ok := r.listeners[address]; ok && !l.closed {
		return nil, &net.OpError{Op: "listen", Net: network, Addr: Addr(address), Err: syscall.EADDRINUSE}
	}
	l := &listener{addr: Addr(address)}
	r.listeners[address] = l
	return l, nil
}

// Bound reports whether a live listener is bound to address.
func Bound(address string) bool {
	defer regLock()()
	l, ok := reg().listeners[address]
	return ok && !l.closed
}

// AcceptedAt returns the number of connections accepted so far at address.
func AcceptedAt(address string) int {
	defer regLock()()
	if l, ok := reg().listeners[address]; ok {
		return l.Accepted
	}
	return 0
}

func (l *listener) String() string { return "listener[" + string(l.addr) + "]" }

func (l *listener) Accept() (net.Conn, error) {
	defer regLock()()
	ready := func() bool { return l.closed || len(l.backlog) > 0 || len(l.acceptErrs) > 0 }
	if sched.E != nil {
		sched.Wait("net-accept", l, ready)
	} else {
		for !ready() {
			freeCond.Wait()
		}
	}
	if l.closed {
		return nil, &net.OpError{Op: "accept", Net: "tcp", Addr: l.addr, Err: errClosed}
	}
	if len(l.acceptErrs) > 0 {
		err := l.acceptErrs[0]
		l.acceptErrs = l.acceptErrs[1:]
		return nil, err
	}
	c := l.backlog[0]
	l.backlog = l.backlog[1:]
	l.Accepted++
	return c, nil
}

func (l *listener) Close() error {
	sched.Op("net-listener-close", l)
	defer regLock()()
	if l.closed {
		return &net.OpError{Op: "close", Net: "tcp", Addr: l.addr, Err: errClosed}
	}
	l.closed = true
	// connections still in the backlog are reset, as the kernel does
	for _, c := range l.backlog {
		unlock := c.lock()
		c.closed = true
		c.out.reset, c.in.reset = true, true
		unlock()
	}
	l.backlog = nil
	return nil
}

func (l *listener) Addr() net.Addr { return l.addr }

type timeoutErr struct{}

func (timeoutErr) Error() string   { return "i/o timeout" }
func (timeoutErr) Timeout() bool   { return true }
func (timeoutErr) Temporary() bool { return true }

// ErrDialTimeout is what a dial hook returns to model a connect timeout.
var ErrDialTimeout error = timeoutErr{}

// ErrRefused models ECONNREFUSED.
var ErrRefused error = syscall.ECONNREFUSED

// DialTimeout mirrors net.DialTimeout.
func DialTimeout(network, address string, timeout time.Duration) (net.Conn, error) {
	return Dial(network, address)
}

// Dial connects to a vnet listener.
func Dial(network, address string) (net.Conn, error) {
	sched.Op("net-dial", Addr(address))
	defer regLock()()
	r := reg()
	if r.dialHook != nil {
		if err := r.dialHook(address); err != nil {
			return nil, &net.OpError{Op: "dial", Net: network, Addr: Addr(address), Err: err}
		}
	}
	if real, ok := r.aliases[address]; ok {
		address = real
	}
	if r.holdDials && sched.E != nil && (r.holdAddrs == nil || r.holdAddrs[address]) {
		r.heldDials++
		sched.Wait("net-dial-in-progress", Addr(address), func() bool { return !r.holdDials })
		r.heldDials--
	}
	l, ok := r.listeners[address]
	if !ok || l.closed {
		return nil, &net.OpError{Op: "dial", Net: network, Addr: Addr(address), Err: syscall.ECONNREFUSED}
	}
	r.nextPort++
	a, b := newPair(r, Addr(fmt.Sprintf("127.0.0.1:%d", r.nextPort)), l.addr)
	a.Label = "out:" + address
	l.backlog = append(l.backlog, b)
	return a, nil
}

// DialConn is Dial returning the concrete type.
func DialConn(address string) (*VConn, error) {
	c, err := Dial("tcp", address)
	if err != nil {
		return nil, err
	}
	return c.(*VConn), nil
}

// InjectAcceptError makes the listener at address return err from its next Accept.
func InjectAcceptError(address string, err error) {
	defer regLock()()
	if l, ok := reg().listeners[address]; ok {
		l.acceptErrs = append(l.acceptErrs, err)
	}
}

var _ = errors.New
