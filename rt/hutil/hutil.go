//go:build go1.21

// Package hutil holds helpers shared by the injected harnesses.
package hutil

import (
	"fmt"
	"sort"
	"strings"

	"github.com/samaritan-proxy/samaritan/logger"
	tlog "github.com/tevino/log"
)

func init() {
	// logging is formatting work only; silence it (Fatal would exit the process and stays on)
	logger.Get().SetOutputLevel(tlog.FATA)
}

// Quiet is referenced by harnesses to keep the import.
func Quiet() {}

// Join renders a sorted set.
func Join(m map[string]bool) string {
	var ks []string
	for k, v := range m {
		if v {
			ks = append(ks, k)
		}
	}
	sort.Strings(ks)
	return strings.Join(ks, ",")
}

// F is fmt.Sprintf.
func F(f string, a ...interface{}) string { return fmt.Sprintf(f, a...) }
