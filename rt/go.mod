module verif-overlay-rt

go 1.21
