#!/bin/bash
# seedrun.sh <seed-id> <PROP> [tier]: apply a stored seeded change to /repo, run one check, undo.
seed=/verif/seeded/$1; prop=$2; tier=${3:-quick}
cd /repo || exit 2
if [ -n "$(git status --porcelain)" ]; then echo "/repo not clean"; exit 2; fi
git apply $seed/patch.diff || { echo "patch does not apply"; exit 2; }
/verif/run.sh $prop $tier > /tmp/seedrun.$$ 2>&1; rc=$?
git checkout -- . 
v=$(grep -c '^VIOLATION' /tmp/seedrun.$$)
echo "SEEDRUN $1 on $prop/$tier: exit=$rc violations=$v $(grep -m2 'signature=' /tmp/seedrun.$$ | sed 's/.*signature=/sig=/' | tr '\n' ' ')"
grep -m3 "^ERROR" /tmp/seedrun.$$
rm -f /tmp/seedrun.$$
rm -rf /verif/replays/$prop
