#!/bin/bash
# seedall.sh [seed-ids...] : run every stored seeded change against the quick check of the property it breaks,
# each in its own scratch worktree of /repo under /tmp (removed afterwards); /repo and /verif/evidence are not
# touched. Writes seeded/RESULTS.tsv: seed, property, exit code, violations, scenario and signature of the first one.
cd "$(dirname "$0")/.." || exit 2
export GOFLAGS=-mod=mod GOPROXY=off GOSUMDB=off GOTOOLCHAIN=local
mkdir -p bin && go build -o bin/vcheck ./cmd/vcheck || exit 2
ids=${@:-$(ls seeded | grep -v '\.' )}
out=seeded/RESULTS.tsv
[ $# -eq 0 ] && : > $out
for id in $ids; do
  d=seeded/$id
  [ -f $d/patch.diff ] || continue
  prop=$(python3 -c "import json;print(json.load(open('$d/meta.json'))['breaks_property'])")
  props="$prop $(python3 -c "import json;print(' '.join(json.load(open('$d/meta.json')).get('also_run',[])))")"
  wt=/tmp/seedall-wt-$$
  git -C /repo worktree add -q --detach $wt HEAD || exit 2
  if ! git -C $wt apply $(pwd)/$d/patch.diff; then echo -e "$id\t$prop\tPATCH-DOES-NOT-APPLY" | tee -a $out; git -C /repo worktree remove --force $wt; continue; fi
  for p in $props; do
    tmp=/tmp/seedall-out-$$; mkdir -p $tmp
    VERIF_REPO=$wt VERIF_EVIDENCE_DIR=$tmp/ev VERIF_REPLAY_DIR=$tmp/replays bin/vcheck run $p --tier quick > $tmp/log 2>&1; rc=$?
    v=$(grep -c '^VIOLATION' $tmp/log)
    first=$(grep -m1 -A1 '^VIOLATION' $tmp/log | tail -1 | sed 's/^ *//')
    echo -e "$id\t$p\trc=$rc\tviolations=$v\t$first" | tee -a $out
    grep -m2 '^ERROR' $tmp/log
    rm -rf $tmp
  done
  git -C /repo worktree remove --force $wt
done
