#!/bin/bash
# seedfast.sh <previous RESULTS.tsv> [seed-ids...] : regression over stored seeded changes, scenario by scenario:
# each seed is run (scratch worktree, /repo untouched) against the scenario that reported it before; only if that
# scenario stays silent the whole quick check of the property is run. Appends to seeded/RESULTS.tsv.
cd "$(dirname "$0")/.." || exit 2
export GOFLAGS=-mod=mod GOPROXY=off GOSUMDB=off GOTOOLCHAIN=local
prev=$1; shift
ids=${@:-$(ls seeded | grep -v '\.' )}
out=seeded/RESULTS.tsv
for id in $ids; do
  d=seeded/$id
  [ -f $d/patch.diff ] || continue
  prop=$(python3 -c "import json;print(json.load(open('$d/meta.json'))['breaks_property'])")
  scen=$(awk -F'\t' -v id=$id -v p=$prop '$1==id && $2==p && $3=="rc=1" {print $5}' $prev | sed -n 's/^scenario=\([^ ]*\) .*/\1/p' | head -1)
  wt=/tmp/seedfast-wt-$$
  git -C /repo worktree add -q --detach $wt HEAD || exit 2
  if ! git -C $wt apply $(pwd)/$d/patch.diff; then echo -e "$id\t$prop\tPATCH-DOES-NOT-APPLY" | tee -a $out; git -C /repo worktree remove --force $wt; continue; fi
  tmp=/tmp/seedfast-out-$$; mkdir -p $tmp
  rc=0; v=0
  if [ -n "$scen" ]; then
    VERIF_REPO=$wt VERIF_EVIDENCE_DIR=$tmp/ev VERIF_REPLAY_DIR=$tmp/replays bin/vcheck run $prop --scenario $scen --tier quick > $tmp/log 2>&1; rc=$?
    v=$(grep -c '^VIOLATION' $tmp/log)
  fi
  if [ "$v" = "0" ]; then
    VERIF_REPO=$wt VERIF_EVIDENCE_DIR=$tmp/ev VERIF_REPLAY_DIR=$tmp/replays bin/vcheck run $prop --tier quick > $tmp/log 2>&1; rc=$?
    v=$(grep -c '^VIOLATION' $tmp/log)
  fi
  first=$(grep -m1 -A1 '^VIOLATION' $tmp/log | tail -1 | sed 's/^ *//')
  echo -e "$id\t$prop\trc=$rc\tviolations=$v\t$first" | tee -a $out
  grep -m2 '^ERROR' $tmp/log
  rm -rf $tmp
  git -C /repo worktree remove --force $wt
done
