#!/bin/bash
# seedcheck.sh <seed-dir> <pkg-dir-of-demo> : confirm a seeded change independently in a scratch worktree.
# prints: SUITE(with)=ok|FAIL DEMO(with)=fail|PASS DEMO(without)=pass|FAIL
export GOFLAGS=-mod=mod GOPROXY=off GOSUMDB=off GOTOOLCHAIN=local
seed=$1; pkg=$2
wt=/tmp/wt-verify-$$
git -C /repo worktree add -q $wt HEAD || exit 2
trap "git -C /repo worktree remove --force $wt" EXIT
cd $wt
git apply $seed/patch.diff || { echo "PATCH-DOES-NOT-APPLY"; exit 2; }
touched=$(git diff --name-only | xargs -n1 dirname | sort -u | sed 's#^#./#')
go build ./... || { echo "BUILD-FAILS"; exit 2; }
suite=ok
go test -vet=off -count=1 $(go list ./... | grep -v test/integration) > /tmp/seedsuite.$$ 2>&1 || suite=FAIL
grep -E "^(FAIL|---)" /tmp/seedsuite.$$ | grep -v TestCheckHostsAllUnreachable | head -5
cp $seed/demo_test.go $pkg/zz_demo_test.go
dw=PASS; go test -vet=off -count=1 -run 'Demo|demo|Seed' ./$pkg > /tmp/seeddemo.$$ 2>&1 || dw=fail
git checkout -q -- . 
dwo=pass; go test -vet=off -count=1 -run 'Demo|demo|Seed' ./$pkg > /tmp/seeddemo2.$$ 2>&1 || dwo=FAIL
echo "SEED $seed touched=$touched SUITE(with)=$suite DEMO(with)=$dw DEMO(without)=$dwo"
rm -f /tmp/seedsuite.$$ /tmp/seeddemo.$$ /tmp/seeddemo2.$$
