#!/bin/bash
# sweep.sh <tier> [ids...] : run the checks one after the other, print a one-line verdict each
tier=${1:-quick}; shift
ids=${@:-C01 C02 C03 C04 C05 C06 C07 C08 C09 C10 C11 C12 C13 C14 C15 C16 C17 C18 C19 C20}
cd "$(dirname "$0")/.."
[ -n "$VP_RUN_REPO" ] && export VERIF_REPO=$VP_RUN_REPO
export GOFLAGS=-mod=mod GOPROXY=off GOSUMDB=off GOTOOLCHAIN=local
mkdir -p bin && go build -o bin/vcheck ./cmd/vcheck || exit 2
for c in $ids; do
  s=$(date +%s)
  VERIF_DIR=$(pwd) bin/vcheck run $c --tier $tier > sweep_$c.log 2>&1; rc=$?
  echo "$c $tier rc=$rc $(( $(date +%s) - s ))s $(grep -h '^\[C' sweep_$c.log | sed 's/.*executions/executions/') $(grep -c '^VIOLATION' sweep_$c.log) violations"
  grep -h "signature=" sweep_$c.log | head -5
done
