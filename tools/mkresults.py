#!/usr/bin/env python3
# mkresults.py: rebuild seeded/RESULTS.md from seeded/*/meta.json and seeded/RESULTS.tsv (written by tools/seedall.sh)
import json, glob, os, re, collections
root = os.path.join(os.path.dirname(os.path.abspath(__file__)), '..', 'seeded')
runs = collections.defaultdict(list)
tsv = os.path.join(root, 'RESULTS.tsv')
if os.path.exists(tsv):
    for l in open(tsv):
        f = l.rstrip('\n').split('\t')
        if len(f) >= 4:
            runs[f[0]].append(f)
rows = []
for mf in sorted(glob.glob(os.path.join(root, '*', 'meta.json')), key=lambda p: (json.load(open(p)).get('batch', 1), p)):
    m = json.load(open(mf))
    sid = m['seed']
    det = []
    for f in runs.get(sid, []):
        first = f[4] if len(f) > 4 else ''
        sc = re.search(r'scenario=(\S+)', first)
        sg = re.search(r'signature=(.*)', first)
        if f[2] == 'rc=1' and sc:
            det.append('%s quick: %s — `%s`' % (f[1], sc.group(1), (sg.group(1) if sg else '')[:90]))
        elif f[2] == 'rc=0':
            det.append('%s quick: not reported' % f[1])
        else:
            det.append('%s quick: %s' % (f[1], f[2]))
    rows.append((sid, m['breaks_property'], m['change'], m['needs_to_manifest'], m.get('caught_by', ''), '; '.join(det)))
out = ['# Seeded property-breaking changes and the checks that report them', '',
       'Each change compiles, passes the repository\'s own test suite and breaks the property under the stated condition',
       '(confirmed with `tools/seedcheck.sh`). "last full run" is what `tools/seedall.sh` observed: the quick tier of the',
       'property\'s check (and of other checks named in meta.json `also_run`) against a scratch worktree with the change applied.', '',
       '| seed | property | change | needs | reported by (scenario; what was added because of this seed) | last full run |', '|---|---|---|---|---|---|']
for r in rows:
    out.append('| ' + ' | '.join(x.replace('|', '\\|') for x in r) + ' |')
open(os.path.join(root, 'RESULTS.md'), 'w').write('\n'.join(out) + '\n')
print(len(rows), 'seeds')
